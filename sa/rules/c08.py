"""C08 — Jinja rendering fidelity: the linted SQL is what Jinja renders.

R08a  (table agreement) every construction of a Jinja environment in the analysed tree
      (core and plugins; ``Environment`` / ``SandboxedEnvironment`` / … resolved through
      the imports, and in-tree subclasses) passes options by keyword only, sets none of
      the delimiter / line-statement / newline options to a non-default value and sets
      ``keep_trailing_newline=True``; nothing in the tree stores to those attributes,
      ``overlay()``s them or builds a bare ``jinja2.Template``; in-tree Jinja extensions
      neither ``preprocess`` the source nor ``filter_stream`` (both also act on files
      without markup).  Every early return of ``JinjaTemplater.process`` that hands back
      the source as its own rendering (``TemplatedFile(in_str)`` without rendered text)
      is guarded by a *negative containment test that covers every default opener*
      ``{{`` ``{%`` ``{#``: ``re.search(P, in_str)`` with an assertion-free finite
      pattern (regex AST) and/or ``"<lit>" in in_str`` tests; ``re.match`` /
      ``fullmatch`` or a pattern with look-around does not count.
R08b  (def-use) the text handed to ``TemplatedFile(templated_str=)`` is the plain render
      of the *unmodified* source:
        process:        source_str and ``slice_file``'s first argument are the same
                        unmodified parameter, templated_str is ``slice_file(..)[2]``
                        (every class deriving from JinjaTemplater, dbt included);
        slice_file:     ``[2]`` is ``<tracer>.trace(..).templated_str`` where the tracer is
                        ``<analyzer>.analyze(render_func)`` of
                        ``_get_jinja_analyzer(raw_str, ..)``, parameters unmodified;
        analyzer/tracer construction passes ``raw_str`` / ``render_func`` through
                        unchanged; the two attributes are written in ``__init__`` only;
        trace():        the first field of the returned trace is
                        ``self.render_func(self.raw_str)`` (+ the ``append_to_templated``
                        parameter), not a render of the instrumented trace template;
        render closure: returns ``<env>.from_string(<its parameter>, ..).render(..)`` with
                        ``<env>`` produced by the function whose constructions R08a checked.
R08c  (fast path vs. loaders) the same early return is conjoined with the negation of
      every loader switch: the config reads performed (transitively) by the functions
      whose result is merged into the live context in ``_get_env_context`` (macros,
      libraries), minus a reviewed table of reads that are only consulted under another
      switch.  A new loader key must be added to the guard (or reviewed into the table).

Not decided: Jinja's own determinism; that a plain external render would use the same
context for every config; variants rendered for unreached code (by design they render a
modified template); newline normalisation (the linter normalises before templating, C11).
"""

from __future__ import annotations

import ast
from typing import Dict, List, Optional, Set, Tuple

from .. import rx
from ..cfg import cfg_of
from ..flow import bind_args, concat_operands, is_method_bound
from ..index import AnalysisError, FuncNode, call_name, const, enclosing_class, enclosing_function, kwarg, last_attr, module_of, norm, short, walk_local
from ..report import construct_of
from ..tmpl import BASE, ctor_arg, ctor_fields, is_param, leaves, method_of, regex_call, resolves_to_class

JINJA = "src/sqlfluff/core/templaters/jinja.py"
TRACER = "src/sqlfluff/core/templaters/slicers/tracer.py"

ENV_CLASSES = {"Environment", "SandboxedEnvironment", "ImmutableSandboxedEnvironment", "NativeEnvironment"}
# option -> Jinja's default (an explicit default is harmless)
LEXER_OPTIONS = {
    "block_start_string": "{%", "block_end_string": "%}",
    "variable_start_string": "{{", "variable_end_string": "}}",
    "comment_start_string": "{#", "comment_end_string": "#}",
    "line_statement_prefix": None, "line_comment_prefix": None,
    "newline_sequence": "\n",
}
OPENERS = ("{{", "{%", "{#")

# reads that are only consulted under another loader switch (reviewed, one per entry)
SUBORDINATE_READS = {
    "section:exclude_macros_from_path": "only filters what load_macros_from_path loads",
    "get:encoding": "only used to open the macro files of load_macros_from_path",
}


# ---------------------------------------------------------------------------
# R08a: environments
# ---------------------------------------------------------------------------


def _jinja_fq(node: ast.AST) -> Optional[str]:
    """Fully qualified dotted name of ``node`` when it is rooted in a jinja2 import."""
    m = module_of(node)
    parts = []
    e = node
    while isinstance(e, ast.Attribute):
        parts.append(e.attr)
        e = e.value
    if not isinstance(e, ast.Name) or e.id in m.defs:
        return None
    fq = m.imports.get(e.id)
    if not fq or not (fq == "jinja2" or fq.startswith("jinja2.")):
        return None
    return ".".join([fq] + list(reversed(parts)))


def _env_subclasses(repo) -> Dict[int, ast.ClassDef]:
    out: Dict[int, ast.ClassDef] = {}
    changed = True
    while changed:
        changed = False
        for m in repo.modules.values():
            if "jinja2" not in m.text:
                continue
            for q, c in m.classes():
                if id(c) in out:
                    continue
                for b in c.bases:
                    fq = _jinja_fq(b)
                    hit = fq is not None and fq.split(".")[-1] in ENV_CLASSES
                    if not hit and isinstance(b, ast.Name):
                        r = repo.resolve_name(m, b.id)
                        hit = bool(r) and id(r[1]) in out
                    if hit:
                        out[id(c)] = c
                        changed = True
    return out


def _is_env_construction(repo, call: ast.Call, subs) -> Optional[str]:
    fq = _jinja_fq(call.func)
    if fq is not None and fq.split(".")[-1] in ENV_CLASSES:
        return fq
    if isinstance(call.func, ast.Name):
        r = repo.resolve_name(module_of(call), call.func.id)
        if r and id(r[1]) in subs:
            return f"{r[0].relpath}::{r[1].name}"
    return None


def _r08a_envs(chk, repo) -> Dict[int, ast.Call]:
    subs = _env_subclasses(repo)
    cons: Dict[int, ast.Call] = {}
    option_names = tuple(LEXER_OPTIONS) + ("keep_trailing_newline", "overlay")
    for m in repo.modules.values():
        if "jinja2" not in m.text and not subs and not any(o in m.text for o in option_names):
            continue
        for node in ast.walk(m.tree):
            if isinstance(node, ast.Call):
                what = _is_env_construction(repo, node, subs)
                if what is not None:
                    cons[id(node)] = node
                    chk.count("R08a.environment_constructions")
                    con = construct_of(node)
                    kws = {k.arg: k.value for k in node.keywords if k.arg is not None}
                    opaque = bool(node.args) or any(k.arg is None for k in node.keywords)
                    chk.require(not opaque, "R08a", node,
                                f"{what}(...) is given positional or ** arguments: the first positional parameters of a Jinja environment are its delimiters, so the lexer configuration cannot be "
                                "shown to be the default one the 'no markup' fast path assumes", detail=f"environment options by keyword: {short(node, 60)}", construct=con)
                    for opt, default in LEXER_OPTIONS.items():
                        if opt in kws:
                            v = kws[opt]
                            same = isinstance(v, ast.Constant) and v.value == default
                            chk.require(same, "R08a", node,
                                        f"the Jinja environment is built with {opt}={short(v, 30)}: a file without '{{{{', '{{%', '{{#' can then still contain markup that Jinja would render "
                                        "(or newlines it would rewrite), while the fast path returns it verbatim", detail=f"environment option {opt} left at its default", construct=con)
                    ktn = kws.get("keep_trailing_newline")
                    chk.require(isinstance(ktn, ast.Constant) and ktn.value is True, "R08a", node,
                                "the Jinja environment is not built with keep_trailing_newline=True: Jinja drops the final newline of every template, the fast path keeps it — "
                                "and the rendered SQL no longer ends like the source", detail="environment keep_trailing_newline=True", construct=con)
                    chk.sample({"rule": "R08a", "site": f"{m.relpath}:{node.lineno}", "class": what, "keywords": sorted(kws)})
                fq = _jinja_fq(node.func)
                if fq is not None and fq.split(".")[-1] == "Template":
                    chk.fail("R08a", node, "a bare jinja2.Template is built: it renders with a private default environment (keep_trailing_newline=False), not the templater's",
                             detail="no bare jinja2.Template")
                if isinstance(node.func, ast.Attribute) and node.func.attr in ("update", "setdefault", "__setitem__") and isinstance(node.func.value, ast.Attribute) and node.func.value.attr == "policies":
                    chk.fail("R08a", node, f"a policy of the Jinja environment is changed ({short(node, 60)})", detail="environment policies left at Jinja's defaults")
                if isinstance(node.func, ast.Attribute) and node.func.attr == "overlay":
                    bad = [k.arg for k in node.keywords if k.arg in LEXER_OPTIONS or k.arg == "keep_trailing_newline"]
                    if bad:
                        chk.fail("R08a", node, f"environment overlay changes {bad}", detail=f"overlay changes {sorted(bad)}")
            elif isinstance(node, (ast.Assign, ast.AugAssign, ast.AnnAssign)):
                tgts = node.targets if isinstance(node, ast.Assign) else [node.target]
                for t in tgts:
                    # env.policies[...] = ... / env.policies = ...: Jinja's policies change what filters render
                    # (tojson key order, urlize, truncate leeway) without any change to the template
                    pol = t.value if isinstance(t, ast.Subscript) else t
                    if isinstance(pol, ast.Attribute) and pol.attr == "policies" and "jinja" in m.text:
                        chk.count("R08a.policy_stores")
                        chk.fail("R08a", node, f"a policy of the Jinja environment is changed ({short(node, 60)}): filters such as tojson then render differently from Jinja's own "
                                 "render of the same template and context", detail="environment policies left at Jinja's defaults")
                    if isinstance(t, ast.Attribute) and (t.attr in LEXER_OPTIONS or t.attr == "keep_trailing_newline"):
                        chk.count("R08a.option_attribute_stores")
                        chk.fail("R08a", node, f"'{t.attr}' is assigned on an object after construction ({short(node, 60)}): the environment that renders no longer has the options the fast path "
                                 "and the slicer assume", detail=f"attribute store to {t.attr}")
    # extensions
    for m in repo.modules.values():
        if "jinja2" not in m.text:
            continue
        for q, c in m.classes():
            is_ext = False
            for mm, cc in repo.mro(m, c):
                for b in cc.bases:
                    fq = _jinja_fq(b) if module_of(b) is mm else None
                    if fq is not None and fq.split(".")[-1] == "Extension":
                        is_ext = True
            if not is_ext:
                continue
            chk.count("R08a.extension_classes")
            for item in c.body:
                if isinstance(item, FuncNode) and item.name in ("preprocess", "filter_stream"):
                    chk.fail("R08a", item, f"Jinja extension {c.name} defines {item.name}(): it rewrites the source/token stream of every template, also of files without markup that the fast path "
                             "returns verbatim", detail=f"extension {c.name} does not {item.name}")
            chk.ok("R08a", f"{m.relpath}::{c.name}", "tag-only extension")
    chk.floor("R08a.environment_constructions", 1)
    return cons


# ---------------------------------------------------------------------------
# locating
# ---------------------------------------------------------------------------


def _templated_returns(repo, fn) -> List[Tuple[ast.Return, ast.Call]]:
    cfg = cfg_of(fn)
    out = []
    for r in walk_local(fn):
        if not (isinstance(r, (ast.Return, ast.Expr)) and getattr(r, "value", None) is not None):
            continue
        v = r.value
        if isinstance(v, (ast.Yield,)):
            v = v.value
            if v is None:
                continue
        elif isinstance(r, ast.Expr):
            continue
        v0 = v.elts[0] if isinstance(v, ast.Tuple) and v.elts else v
        for l in leaves(cfg, v0, r):
            if l.kind == "expr" and isinstance(l.expr, ast.Call) and resolves_to_class(repo, l.expr, "TemplatedFile"):
                out.append((r, l.expr))
    return out


def _slice_file_leaf(repo, cfg, e, at):
    """[(call, callee)] when every leaf of ``e`` is component 2 of a self.slice_file-like
    method call (a method with a ``render_func`` parameter), else None."""
    res = []
    for l in leaves(cfg, e, at):
        x = l.expr
        if l.kind == "expr" and isinstance(x, ast.Call) and l.path == (2,):
            r = method_of(repo, x)
            if r is not None and "render_func" in [a.arg for a in r[1].args.args + r[1].args.kwonlyargs]:
                res.append((x, r[1], l))
                continue
        return None
    return res or None


# ---------------------------------------------------------------------------
# R08a (fast path) + R08c
# ---------------------------------------------------------------------------


def _config_param(fn, name_node: ast.AST) -> bool:
    """``name_node`` is a parameter of ``fn`` annotated as a FluffConfig."""
    if not isinstance(name_node, ast.Name):
        return False
    for a in fn.args.posonlyargs + fn.args.args + fn.args.kwonlyargs:
        if a.arg == name_node.id and a.annotation is not None and "FluffConfig" in norm(a.annotation):
            return is_param(cfg_of(fn), name_node, None, a.arg) is not None
    return False


def _read_key(repo, fn, call: ast.Call, forwarders) -> Optional[str]:
    """'get:<k>' / 'section:<k>' for a config read (direct or through a forwarder)."""
    f = call.func
    if isinstance(f, ast.Attribute) and f.attr in ("get", "get_section") and _config_param(fn, f.value) and call.args:
        a = call.args[0]
        if f.attr == "get" and isinstance(const(a), str):
            return f"get:{const(a)}"
        if f.attr == "get_section":
            last = a.elts[-1] if isinstance(a, ast.Tuple) and a.elts else a
            if isinstance(const(last), str):
                return f"section:{const(last)}"
        return None
    r = method_of(repo, call)
    if r is not None and id(r[1]) in forwarders:
        kind, pname = forwarders[id(r[1])]
        b = bind_args(call, r[1], bound=is_method_bound(call, r[1]))
        v = b.get(pname)
        if v is not None and isinstance(const(v), str):
            return f"{kind}:{const(v)}"
    return None


def _forwarders(repo, cls_mod, cls) -> Dict[int, Tuple[str, str]]:
    """Methods that read ``config.get_section((.., <their parameter>))``."""
    out: Dict[int, Tuple[str, str]] = {}
    for mm, cc in repo.mro(cls_mod, cls):
        for item in cc.body:
            if not isinstance(item, FuncNode):
                continue
            for c in walk_local(item):
                if isinstance(c, ast.Call) and isinstance(c.func, ast.Attribute) and c.func.attr in ("get", "get_section") and _config_param(item, c.func.value) and c.args:
                    a = c.args[0]
                    last = a.elts[-1] if isinstance(a, ast.Tuple) and a.elts else a
                    p = is_param(cfg_of(item), last, cfg_of(item).stmt_of(c)) if isinstance(last, ast.Name) else None
                    if p:
                        out[id(item)] = ("section" if c.func.attr == "get_section" else "get", p)
    return out


def _loader_reads(chk, repo, ctx_fn, forwarders) -> Dict[str, str]:
    """key -> 'function' for every config read in the closure of the functions whose
    result is merged into the live context of ``ctx_fn``."""
    cfg = cfg_of(ctx_fn)
    roots = []
    for c in walk_local(ctx_fn):
        if isinstance(c, ast.Call) and isinstance(c.func, ast.Attribute) and c.func.attr == "update" and isinstance(c.func.value, ast.Name) and c.args:
            recv = leaves(cfg, c.func.value, cfg.stmt_of(c))
            if not any(l.kind == "expr" and isinstance(l.expr, ast.Call) and last_attr(l.expr) == "get_context" for l in recv):
                continue
            for l in leaves(cfg, c.args[0], cfg.stmt_of(c)):
                if l.kind == "expr" and isinstance(l.expr, ast.Call):
                    r = method_of(repo, l.expr)
                    if r is not None and r[1] not in roots:
                        roots.append(r[1])
    chk.count("R08c.context_contributors", len(roots))
    reads: Dict[str, str] = {}
    seen, work = set(), list(roots)
    while work:
        f = work.pop()
        if id(f) in seen:
            continue
        seen.add(id(f))
        for c in walk_local(f):
            if not isinstance(c, ast.Call):
                continue
            k = _read_key(repo, f, c, forwarders)
            if k is not None:
                reads.setdefault(k, getattr(f, "_qualname", f.name))
            r = method_of(repo, c)
            if r is not None and id(r[1]) not in forwarders:
                work.append(r[1])
    return reads


def _guard_atoms(repo, cfg, fn, stmt, src_ok, forwarders, depth: int = 0):
    """Atomic facts known at ``stmt`` as (expr, truth, cfg, function, stmt, src_ok) —
    a test computed into a local is looked through, and a test delegated to a helper
    method with a single ``return <expr>`` is expanded in the helper (two levels)."""
    for e, pol in cfg.conditions(stmt):
        yield from _expand_atom(repo, cfg, fn, stmt, e, pol, src_ok, forwarders, depth)


def _expand_atom(repo, cfg, fn, stmt, e, pol, src_ok, forwarders, depth):
    from ..cfg import atoms

    if isinstance(e, ast.Name):
        el = leaves(cfg, e, stmt)
        if len(el) == 1 and el[0].kind == "expr" and not el[0].path and el[0].cfg is cfg:
            e, stmt = el[0].expr, el[0].stmt
            for e2, p2 in atoms(e, pol):
                if e2 is not e:
                    yield from _expand_atom(repo, cfg, fn, stmt, e2, p2, src_ok, forwarders, depth)
                else:
                    yield from _expand_call(repo, cfg, fn, stmt, e, pol, src_ok, forwarders, depth)
            return
    yield from _expand_call(repo, cfg, fn, stmt, e, pol, src_ok, forwarders, depth)


def _expand_call(repo, cfg, fn, stmt, e, pol, src_ok, forwarders, depth):
    from ..cfg import atoms

    if isinstance(e, ast.Call) and depth < 2:
        r = method_of(repo, e)
        if r is not None and id(r[1]) not in forwarders:
            callee = r[1]
            rets = [x for x in walk_local(callee) if isinstance(x, ast.Return)]
            if len(rets) == 1 and rets[0].value is not None and rets[0] is callee.body[-1]:
                b = bind_args(e, callee, bound=is_method_bound(e, callee))
                ccfg = cfg_of(callee)

                def src_ok2(x, at, _b=b, _ccfg=ccfg, _outer=src_ok, _stmt=stmt):
                    q = is_param(_ccfg, x, at)
                    return q is not None and _b.get(q) is not None and _outer(_b[q], _stmt)

                rv = rets[0].value
                while isinstance(rv, ast.Call) and call_name(rv) == "bool" and len(rv.args) == 1 and not rv.keywords:
                    rv = rv.args[0]
                for e2, p2 in atoms(rv, pol):
                    yield from _expand_atom(repo, ccfg, callee, rets[0], e2, p2, src_ok2, forwarders, depth + 1)
                return
    yield e, pol, cfg, fn, stmt, src_ok


def _fast_path(chk, repo, proc, cls_mod, cls, ctx_fn) -> None:
    cfg = cfg_of(proc)
    tf_fields = ctor_fields(repo, repo.cls(BASE, "TemplatedFile"))
    forwarders = _forwarders(repo, cls_mod, cls)
    required = None
    for r, tf in _templated_returns(repo, proc):
        tpl = ctor_arg(tf, tf_fields, "templated_str")
        src = ctor_arg(tf, tf_fields, "source_str")
        if tpl is not None and _slice_file_leaf(repo, cfg, tpl, r) is not None:
            continue  # a rendered return: R08b
        chk.count("R08a.identity_returns")
        con = construct_of(r)
        p = is_param(cfg, src, r)
        same = p is not None and (tpl is None or is_param(cfg, tpl, r, p) is not None)
        chk.require(same, "R08a", tf, "an early return of process builds a TemplatedFile whose rendered text is neither produced by slice_file nor the unmodified source itself",
                    detail="fast path returns the unmodified source as its rendering", construct=con)
        if not same:
            continue
        # ---- containment guard -------------------------------------------------
        absent: Set[str] = set()
        notes = []
        reads_in_guard: Set[str] = set()
        for e, pol, acfg, afn, at, src_ok in _guard_atoms(repo, cfg, proc, r, lambda x, st: is_param(cfg, x, st, p) is not None, forwarders):
            if isinstance(e, ast.Call):
                rc = regex_call(acfg, e)
                if rc is not None and rc.args and src_ok(rc.args[0], at):
                    if pol:
                        continue
                    if rc.fn != "search":
                        notes.append(f"re.{rc.fn} only looks at the start of the file")
                        continue
                    pat = rx.parse(rc.pattern) if rc.pattern is not None else None
                    if pat is None:
                        notes.append("pattern is not a literal the stdlib parser accepts")
                        continue
                    items = pat.items()
                    if any(op in (rx.ASSERT, rx.ASSERT_NOT, rx.AT) for op, av in rx.walk(items)):
                        notes.append(f"pattern {rc.pattern!r} makes the test depend on the surrounding text (look-around / anchor)")
                        continue
                    lang = rx.finite_language(items)
                    if lang is None:
                        notes.append(f"language of {rc.pattern!r} is not finite; coverage not shown")
                        continue
                    absent |= {s for s in lang}
                    chk.sample({"rule": "R08a", "fast_path_pattern": rc.pattern, "language": sorted(lang)})
                    continue
                if not pol:
                    k = _read_key(repo, afn, e, forwarders)
                    if k is not None:
                        reads_in_guard.add(k)
            elif isinstance(e, ast.Compare) and len(e.ops) == 1 and isinstance(const(e.left), str) and src_ok(e.comparators[0], at):
                if (isinstance(e.ops[0], ast.In) and not pol) or (isinstance(e.ops[0], ast.NotIn) and pol):
                    absent.add(const(e.left))
        for o in OPENERS:
            covered = any(a and a in o for a in absent)
            chk.require(covered, "R08a", r,
                        f"process returns the source as its own rendering although the file may contain the Jinja opener '{o}' (guard excludes {sorted(absent) or 'nothing'}"
                        + (f"; {'; '.join(notes)}" if notes else "") + "): Jinja would render / strip that markup, the linted SQL keeps it",
                        detail=f"fast path excludes files containing '{o}'", construct=con)
        exact = absent and all(any(a == o for o in OPENERS) for a in absent)
        chk.note(f"R08a fast path guard excludes {sorted(absent)}" + ("" if exact else " (broader than the three openers: slower, still faithful)"))
        # ---- R08c -----------------------------------------------------------------
        if required is None:
            required = _loader_reads(chk, repo, ctx_fn, forwarders)
            chk.count("R08c.loader_reads", len(required))
        for key, owner in sorted(required.items()):
            if key in SUBORDINATE_READS:
                chk.count("R08c.subordinate_reads")
                continue
            chk.require(key in reads_in_guard, "R08c", r,
                        f"the fast path does not test the loader switch {key!r} (read by {owner}): with it configured, a file without markup skips macro/library loading and the user-facing "
                        "errors it raises, a file with markup does not — the two paths disagree", detail=f"fast path guard tests {key}", construct=con)
        chk.sample({"rule": "R08c", "guard_reads": sorted(reads_in_guard), "loader_reads": sorted(required), "subordinate": sorted(SUBORDINATE_READS)})
    if required is not None:
        chk.floor("R08c.loader_reads", 3)
        chk.floor("R08c.context_contributors", 2)


# ---------------------------------------------------------------------------
# R08b
# ---------------------------------------------------------------------------


def _tracer_classes(repo):
    m = repo.mod(TRACER)
    tracer = analyzer = trace_nt = None
    for q, c in m.classes():
        meths = {i.name for i in c.body if isinstance(i, FuncNode)}
        if "trace" in meths and "__init__" in meths:
            tracer = c
        if "analyze" in meths and "__init__" in meths:
            analyzer = c
    if tracer is None or analyzer is None:
        raise AnalysisError("R08b: tracer / analyzer classes not found in slicers/tracer.py")
    return m, tracer, analyzer


def _method(cls: ast.ClassDef, name: str) -> Optional[ast.AST]:
    for i in cls.body:
        if isinstance(i, FuncNode) and i.name == name:
            return i
    return None


def _init_attr_from_param(cls: ast.ClassDef, attr: str) -> Optional[str]:
    """Parameter of ``__init__`` stored unmodified as ``self.<attr>``."""
    init = _method(cls, "__init__")
    if init is None:
        return None
    cfg = cfg_of(init)
    found = None
    for n in walk_local(init):
        tgt = val = None
        if isinstance(n, ast.Assign) and len(n.targets) == 1:
            tgt, val = n.targets[0], n.value
        elif isinstance(n, ast.AnnAssign) and n.value is not None:
            tgt, val = n.target, n.value
        if isinstance(tgt, ast.Attribute) and tgt.attr == attr and isinstance(tgt.value, ast.Name) and tgt.value.id == "self":
            p = is_param(cfg, val, n)
            if p is None:
                return None
            found = p
    return found


def _self_attr(e: ast.AST, attr: Optional[str] = None) -> Optional[str]:
    if isinstance(e, ast.Attribute) and isinstance(e.value, ast.Name) and e.value.id == "self" and (attr is None or e.attr == attr):
        return e.attr
    return None


def _r08b_tracer(chk, repo) -> Tuple[ast.ClassDef, ast.ClassDef, str, str]:
    m, tracer, analyzer = _tracer_classes(repo)
    # attributes holding the source and the render function: the __init__ parameters of the
    # tracer that trace() uses in self.<rf>(self.<src>)
    trace = _method(tracer, "trace")
    cfg = cfg_of(trace)
    rets = [r for r in walk_local(trace) if isinstance(r, ast.Return) and r.value is not None]
    chk.count("R08b.trace_returns", len(rets))
    chk.floor("R08b.trace_returns", 1)
    src_attr = rf_attr = None
    tparams = [a.arg for a in trace.args.posonlyargs + trace.args.args + trace.args.kwonlyargs][1:]
    for r in rets:
        con = construct_of(r)
        for l in leaves(cfg, r.value, r):
            x = l.expr
            if not (l.kind == "expr" and isinstance(x, ast.Call) and not l.path):
                chk.fail("R08b", r, f"trace() returns {l.text()!r}, not a trace record", detail="trace(): returns a trace record", construct=con)
                continue
            cr = repo.resolve_name(m, x.func.id) if isinstance(x.func, ast.Name) else None
            if not (cr and isinstance(cr[1], ast.ClassDef)):
                chk.fail("R08b", r, f"trace() returns {short(x, 50)!r}, not a trace record", detail="trace(): returns a trace record", construct=con)
                continue
            fields = ctor_fields(repo, cr[1])
            t = ctor_arg(x, fields, fields[0]) if fields else None
            n_render = 0
            bad = None
            for tl in (leaves(cfg, t, l.stmt) if t is not None else []):
                ops = concat_operands(tl.expr) if tl.kind == "expr" and not tl.path else [None]
                for i, o in enumerate(ops):
                    if o is None:
                        bad = tl.text()
                        continue
                    ol = leaves(cfg, o, tl.stmt)
                    for y in ol:
                        if y.kind == "param" and y.expr.arg in tparams:
                            continue  # append_to_templated
                        c = y.expr
                        if (y.kind == "expr" and isinstance(c, ast.Call) and _self_attr(c.func) and len(c.args) == 1 and not c.keywords and _self_attr(c.args[0]) and not y.path):
                            if i == 0:
                                n_render += 1
                                rf_attr, src_attr = _self_attr(c.func), _self_attr(c.args[0])
                                continue
                            bad = f"{short(c, 50)} (not the first operand)"
                            continue
                        bad = y.text()
            ok = bad is None and n_render == 1
            if ok:
                # the attributes must be the ones __init__ fills from its parameters
                ok = _init_attr_from_param(tracer, src_attr) is not None and _init_attr_from_param(tracer, rf_attr) is not None
                if not ok:
                    bad = f"self.{rf_attr}(self.{src_attr}) where the attributes are not plain constructor parameters"
            chk.require(ok, "R08b", r,
                        f"the rendered text returned by trace() is {bad or 'not a single render of the stored source'!s}: it must be self.<render_func>(self.<raw_str>) of the unmodified source "
                        "(+ append_to_templated); output of the instrumented trace template contains the tracer's own markers and alternate code",
                        detail="trace(): templated_str is render_func(raw_str) of the unmodified source", construct=con)
    if src_attr is None or rf_attr is None:
        return tracer, analyzer, "raw_str", "render_func"
    # who may write the two attributes (whole tree)
    n_stores = 0
    for mm in repo.modules.values():
        if src_attr not in mm.text and rf_attr not in mm.text:
            continue
        for node in ast.walk(mm.tree):
            tg = []
            if isinstance(node, ast.Assign):
                tg = node.targets
            elif isinstance(node, (ast.AugAssign, ast.AnnAssign)):
                tg = [node.target]
            for t in tg:
                for tt in (t.elts if isinstance(t, (ast.Tuple, ast.List)) else [t]):
                    if isinstance(tt, ast.Attribute) and tt.attr in (src_attr, rf_attr):
                        n_stores += 1
                        fn = enclosing_function(node)
                        in_init = isinstance(fn, FuncNode) and fn.name == "__init__" and _self_attr(tt) is not None
                        val = node.value if not isinstance(node, ast.AugAssign) else None
                        okv = in_init and val is not None and is_param(cfg_of(fn), val, node) is not None
                        chk.require(okv, "R08b", node, f"'{tt.attr}' is (re)assigned outside a constructor or from something other than the constructor's parameter: the tracer then renders a "
                                    "different text than the source it was given", detail=f"attribute {tt.attr} written once from the constructor parameter: {short(node, 60)}")
    chk.count("R08b.attribute_stores", n_stores)
    chk.floor("R08b.attribute_stores", 2)
    return tracer, analyzer, src_attr, rf_attr


def _ctor_passes(chk, repo, call: ast.Call, cls: ast.ClassDef, cfg, at, want: Dict[str, object], where_: str) -> None:
    """``call`` constructs ``cls``; for each init-parameter in ``want`` the actual must be
    the given unmodified parameter name (str) or ``self.<attr>`` (tuple ('self', attr))."""
    fields = ctor_fields(repo, cls)
    for pname, src in want.items():
        a = ctor_arg(call, fields, pname)
        if isinstance(src, tuple):
            ok = a is not None and _self_attr(a, src[1]) is not None
            exp = f"self.{src[1]}"
        else:
            ok = a is not None and is_param(cfg, a, at, src) is not None
            exp = f"the unmodified parameter '{src}'"
        chk.require(ok, "R08b", call, f"{where_}: {cls.name}({pname}=...) is given {short(a, 40) if a is not None else 'nothing'!r}, expected {exp}: the trace then renders or slices a different text than the file",
                    detail=f"{where_}: {pname} passed through unchanged", construct=construct_of(call))


def _r08b_chain(chk, repo, tracer, analyzer, src_attr, rf_attr) -> None:
    tm = repo.mod(TRACER)
    init_t = _method(tracer, "__init__")
    p_src_t, p_rf_t = _init_attr_from_param(tracer, src_attr), _init_attr_from_param(tracer, rf_attr)
    a_src = None
    # the analyzer attribute that holds the source: the __init__ parameter passed on to the tracer
    analyze = _method(analyzer, "analyze")
    acfg = cfg_of(analyze)
    aparams = [a.arg for a in analyze.args.posonlyargs + analyze.args.args][1:]
    n = 0
    for r in [x for x in walk_local(analyze) if isinstance(x, ast.Return) and x.value is not None]:
        for l in leaves(acfg, r.value, r):
            x = l.expr
            if not (l.kind == "expr" and isinstance(x, ast.Call)):
                chk.fail("R08b", r, "analyze() does not return a tracer construction", detail="analyze(): returns the tracer")
                continue
            n += 1
            callee = method_of(repo, x)
            if callee is not None:
                # factory method: must itself construct the tracer from its parameters
                fac = callee[1]
                fcfg = cfg_of(fac)
                fparams = [a.arg for a in fac.args.posonlyargs + fac.args.args][1:]
                for fr in [y for y in walk_local(fac) if isinstance(y, ast.Return) and y.value is not None]:
                    for fl in leaves(fcfg, fr.value, fr):
                        fx = fl.expr
                        cr = repo.resolve_name(module_of(fx), fx.func.id) if fl.kind == "expr" and isinstance(fx, ast.Call) and isinstance(fx.func, ast.Name) else None
                        if not (cr and isinstance(cr[1], ast.ClassDef) and any(cc is tracer for _, cc in repo.mro(cr[0], cr[1]))):
                            chk.fail("R08b", fr, f"{fac.name}() does not return a tracer", detail="tracer factory returns a tracer")
                            continue
                        b_src = ctor_arg(fx, ctor_fields(repo, cr[1]), p_src_t)
                        b_rf = ctor_arg(fx, ctor_fields(repo, cr[1]), p_rf_t)
                        ps, pr = is_param(fcfg, b_src, fl.stmt), is_param(fcfg, b_rf, fl.stmt)
                        chk.require(ps is not None and pr is not None, "R08b", fx, f"{fac.name}() does not pass its source / render-function parameters unchanged to the tracer",
                                    detail="tracer factory: raw_str and render_func passed through unchanged", construct=construct_of(fx))
                        if ps is None or pr is None:
                            continue
                        b = bind_args(x, fac, bound=True)
                        s_act, r_act = b.get(ps), b.get(pr)
                        ok_s = s_act is not None and _self_attr(s_act) is not None
                        if ok_s:
                            a_src = _self_attr(s_act)
                        chk.require(ok_s and _init_attr_from_param(analyzer, a_src) is not None, "R08b", x,
                                    f"analyze() hands {short(s_act, 40) if s_act is not None else 'nothing'!r} to the tracer as its source instead of the analyzer's own constructor argument",
                                    detail="analyze(): tracer source is the analyzer's raw_str", construct=construct_of(x))
                        chk.require(r_act is not None and is_param(acfg, r_act, l.stmt) in aparams, "R08b", x,
                                    "analyze() does not hand its render_func parameter to the tracer", detail="analyze(): tracer render_func is analyze's parameter", construct=construct_of(x))
            else:
                chk.fail("R08b", r, f"analyze() returns {short(x, 50)!r}: tracer construction not recognised (expected self.<factory>(self.<raw_str>, .., render_func))",
                         detail="analyze(): returns the tracer")
    chk.count("R08b.analyze_returns", n)
    chk.floor("R08b.analyze_returns", 1)
    return a_src


def _r08b_templaters(chk, repo, tracer, analyzer, cons) -> Tuple[Optional[ast.AST], Optional[ast.AST]]:
    """process/slice_file wiring of JinjaTemplater and everything deriving from it."""
    tf_fields = ctor_fields(repo, repo.cls(BASE, "TemplatedFile"))
    jt = repo.cls(JINJA, "JinjaTemplater")
    jm = repo.mod(JINJA)
    slice_fns: List[ast.AST] = []
    closures: List[Tuple[ast.AST, bool]] = []  # (nested def, must_render)
    crf_fn = None
    n_sites = 0
    templaters = _jinja_templater_classes(repo)
    chk.count("R08b.templater_classes", len(templaters))
    for m, c in templaters:
        for item in ast.walk(c):
            if not isinstance(item, FuncNode) or enclosing_class(item) is not c:
                continue
            cfg = cfg_of(item)
            for r, tf in _templated_returns(repo, item):
                tpl = ctor_arg(tf, tf_fields, "templated_str")
                sl = _slice_file_leaf(repo, cfg, tpl, r) if tpl is not None else None
                if sl is None:
                    continue
                n_sites += 1
                chk.count("R08b.rendered_returns")
                con = construct_of(r)
                src = ctor_arg(tf, tf_fields, "source_str")
                p = is_param(cfg, src, r)
                chk.require(p is not None, "R08b", tf, f"TemplatedFile.source_str is {short(src, 40) if src is not None else '?'!r}, not the unmodified source parameter",
                            detail="process: source_str is the unmodified source parameter", construct=con)
                for call, sf, l in sl:
                    if sf not in slice_fns:
                        slice_fns.append(sf)
                    b = bind_args(call, sf, bound=True)
                    sparams = [a.arg for a in sf.args.posonlyargs + sf.args.args][1:]
                    a_src = b.get(sparams[0]) if sparams else None
                    chk.require(a_src is not None and p is not None and is_param(cfg, a_src, l.stmt, p) is not None, "R08b", call,
                                f"slice_file renders and slices {short(a_src, 40) if a_src is not None else '?'!r} while the TemplatedFile records '{p}' as its source: the linted SQL is the rendering "
                                "of a different text than the file", detail="process: slice_file(source) is the recorded source", construct=con)
                    a_rf = b.get("render_func")
                    for rl in (leaves(cfg, a_rf, l.stmt) if a_rf is not None else []):
                        x = rl.expr
                        if rl.kind == "def" and isinstance(x, FuncNode):
                            closures.append((x, False))
                            # the same variable rebound from an inner function (``nonlocal``)
                            for inner in ast.walk(item):
                                if isinstance(inner, FuncNode) and inner is not item and any(isinstance(z, ast.Nonlocal) and x.name in z.names for z in inner.body):
                                    for d in ast.walk(inner):
                                        if isinstance(d, FuncNode) and d.name == x.name and d is not inner:
                                            closures.append((d, False))
                        elif rl.kind == "expr" and isinstance(x, ast.Call) and rl.path == (2,) and method_of(repo, x) is not None:
                            crf = method_of(repo, x)[1]
                            if c is jt:
                                crf_fn = crf
                            rcfg = cfg_of(crf)
                            for rr in [y for y in walk_local(crf) if isinstance(y, ast.Return) and y.value is not None]:
                                for dl in leaves(rcfg, rr.value, rr, (2,)):
                                    if dl.kind == "def" and isinstance(dl.expr, FuncNode):
                                        closures.append((dl.expr, True))
                                    else:
                                        chk.fail("R08b", rr, f"{crf.name}() returns {dl.text()!r} as render function, not a closure defined next to the environment",
                                                 detail="render function is a local closure", construct=construct_of(rr))
                        elif rl.kind == "expr" and isinstance(x, ast.Constant) and x.value is None:
                            continue  # placeholder initialisation (dbt: ``render_func = None`` before the closure is captured)
                        else:
                            chk.fail("R08b", call, f"slice_file is given {rl.text()!r} as render function: origin not recognised", detail="process: render function origin", construct=con)
    chk.floor("R08b.rendered_returns", 1)
    # ---- slice_file -----------------------------------------------------------------
    ga_fn = None
    for sf in slice_fns:
        scfg = cfg_of(sf)
        sparams = [a.arg for a in sf.args.posonlyargs + sf.args.args][1:]
        src_p = sparams[0]
        for r in [y for y in walk_local(sf) if isinstance(y, ast.Return) and y.value is not None]:
            con = construct_of(r)
            chk.count("R08b.slice_file_returns")
            ok, why = True, ""
            for l in leaves(scfg, r.value, r, (2,)):
                x = l.expr
                # <trace>.templated_str
                trace_fields = None
                if not (l.kind == "expr" and isinstance(x, ast.Attribute) and not l.path):
                    ok, why = False, f"{l.text()!r} is not the rendered text of a trace"
                    continue
                for tl in leaves(scfg, x.value, l.stmt):
                    t = tl.expr
                    if not (tl.kind == "expr" and isinstance(t, ast.Call) and isinstance(t.func, ast.Attribute) and _method(tracer, t.func.attr) is not None and t.func.attr == "trace" and not tl.path):
                        ok, why = False, f"{tl.text()!r} is not <tracer>.trace(...)"
                        continue
                    # field name must be the first field of the record trace() returns
                    for al in leaves(scfg, t.func.value, tl.stmt):
                        a = al.expr
                        if not (al.kind == "expr" and isinstance(a, ast.Call) and isinstance(a.func, ast.Attribute) and a.func.attr == "analyze" and not al.path):
                            ok, why = False, f"the tracer is {al.text()!r}, not <analyzer>.analyze(render_func)"
                            continue
                        if not (a.args and is_param(scfg, a.args[0], al.stmt, "render_func")):
                            ok, why = False, f"analyze() is given {short(a.args[0], 40) if a.args else 'nothing'!r}, not slice_file's render_func parameter"
                        for gl in leaves(scfg, a.func.value, al.stmt):
                            g = gl.expr
                            gm = method_of(repo, g) if gl.kind == "expr" and isinstance(g, ast.Call) else None
                            if gm is None:
                                ok, why = False, f"the analyzer is {gl.text()!r}, not built by a method of the templater"
                                continue
                            ga_fn = gm[1]
                            gb = bind_args(g, gm[1], bound=True)
                            gparams = [q.arg for q in gm[1].args.posonlyargs + gm[1].args.args][1:]
                            g_src = gb.get(gparams[0]) if gparams else None
                            if not (g_src is not None and is_param(scfg, g_src, gl.stmt, src_p)):
                                ok, why = False, f"the analyzer is built from {short(g_src, 40) if g_src is not None else 'nothing'!r}, not from the unmodified '{src_p}'"
                first = _first_field_of_trace(repo, tracer)
                if ok and first is not None and x.attr != first:
                    ok, why = False, f"slice_file returns the trace's '{x.attr}', the rendered text is its field '{first}'"
            chk.require(ok, "R08b", r, f"slice_file's third component: {why}", detail="slice_file: returns trace(analyze(render_func) of raw_str).templated_str", construct=con)
    # ---- analyzer factory of every templater class -------------------------------------
    if ga_fn is not None:
        for m, c in templaters:
            for item in c.body:
                if isinstance(item, FuncNode) and item.name == ga_fn.name:
                    icfg = cfg_of(item)
                    iparams = [q.arg for q in item.args.posonlyargs + item.args.args][1:]
                    for r in [y for y in walk_local(item) if isinstance(y, ast.Return) and y.value is not None]:
                        for l in leaves(icfg, r.value, r):
                            x = l.expr
                            cr = repo.resolve_name(m, x.func.id) if l.kind == "expr" and isinstance(x, ast.Call) and isinstance(x.func, ast.Name) else None
                            is_an = bool(cr) and isinstance(cr[1], ast.ClassDef) and any(cc is analyzer for _, cc in repo.mro(cr[0], cr[1]))
                            chk.count("R08b.analyzer_factories")
                            if not chk.require(is_an, "R08b", r, f"{item.name}() returns {l.text()!r}, not an analyzer", detail=f"{c.name}.{item.name}: returns an analyzer"):
                                continue
                            p_an = _init_attr_from_param(cr[1] if _method(cr[1], "__init__") else analyzer, "raw_str") or "raw_str"
                            fields = ctor_fields(repo, cr[1] if _method(cr[1], "__init__") else analyzer)
                            a0 = ctor_arg(x, fields, p_an)
                            chk.require(a0 is not None and iparams and is_param(icfg, a0, l.stmt, iparams[0]) is not None, "R08b", x,
                                        f"{item.name}() builds the analyzer from {short(a0, 40) if a0 is not None else 'nothing'!r}, not from its unmodified source parameter",
                                        detail=f"{c.name}.{item.name}: source passed through unchanged", construct=construct_of(x))
    # ---- render closures ------------------------------------------------------------------
    seen = set()
    for cl, must_render in closures:
        if id(cl) in seen:
            continue
        seen.add(id(cl))
        chk.count("R08b.render_closures")
        ccfg = cfg_of(cl)
        cparams = [a.arg for a in cl.args.posonlyargs + cl.args.args]
        con = construct_of(cl)
        for r in [y for y in walk_local(cl) if isinstance(y, ast.Return) and y.value is not None and ccfg.reachable(y)]:
            for l in leaves(ccfg, r.value, r):
                x = l.expr
                if l.kind == "param" and not l.path and cparams and x.arg == cparams[0] and not must_render:
                    chk.count("R08b.identity_closures")
                    continue
                ok = l.kind == "expr" and isinstance(x, ast.Call) and isinstance(x.func, ast.Attribute) and x.func.attr == "render" and not l.path
                why = f"returns {l.text()!r}, not <template>.render(..)"
                if ok:
                    for tl in leaves(ccfg, x.func.value, l.stmt):
                        t = tl.expr
                        if not (tl.kind == "expr" and isinstance(t, ast.Call) and isinstance(t.func, ast.Attribute) and t.func.attr == "from_string" and t.args and not tl.path):
                            ok, why = False, f"the template is {tl.text()!r}, not <env>.from_string(<source>)"
                            continue
                        if not (cparams and is_param(ccfg, t.args[0], tl.stmt, cparams[0])):
                            ok, why = False, f"the template is compiled from {short(t.args[0], 40)!r}, not from the closure's unmodified parameter '{cparams[0] if cparams else '?'}'"
                            continue
                        if must_render:
                            # environment: produced by a method whose every return is a checked construction
                            for el in leaves(ccfg, t.func.value, tl.stmt):
                                e = el.expr
                                em = method_of(repo, e) if el.kind == "expr" and isinstance(e, ast.Call) else None
                                good = False
                                if em is not None:
                                    ecfg = cfg_of(em[1])
                                    rl = [z for y in walk_local(em[1]) if isinstance(y, ast.Return) and y.value is not None for z in leaves(ecfg, y.value, y)]
                                    good = bool(rl) and all(z.kind == "expr" and id(z.expr) in cons for z in rl)
                                if not good:
                                    ok, why = False, f"the rendering environment is {el.text()!r}, not the result of the method that builds the checked Jinja environment"
                chk.require(ok, "R08b", r, f"render closure {why}: the text handed to the tracer is not the plain Jinja render of the source it is given",
                            detail="render closure: env.from_string(<parameter>).render()", construct=con)
    return crf_fn, ga_fn


def _jinja_templater_classes(repo):
    """JinjaTemplater and every class deriving from it (found by a fixpoint over the
    modules that mention a known class name, so dialect modules are never walked)."""
    names = {"JinjaTemplater"}
    found: Dict[int, Tuple[object, ast.ClassDef]] = {}
    changed = True
    while changed:
        changed = False
        for m in repo.modules.values():
            if not any(n in m.text for n in names):
                continue
            for q, c in m.classes():
                if id(c) in found:
                    continue
                if any(cc.name == "JinjaTemplater" and mm.relpath == JINJA for mm, cc in repo.mro(m, c)):
                    found[id(c)] = (m, c)
                    if c.name not in names:
                        names.add(c.name)
                        changed = True
    return list(found.values())


def _first_field_of_trace(repo, tracer) -> Optional[str]:
    trace = _method(tracer, "trace")
    m = module_of(tracer)
    for r in walk_local(trace):
        if isinstance(r, ast.Return) and isinstance(r.value, ast.Call) and isinstance(r.value.func, ast.Name):
            cr = repo.resolve_name(m, r.value.func.id)
            if cr and isinstance(cr[1], ast.ClassDef):
                f = ctor_fields(repo, cr[1])
                return f[0] if f else None
    return None


# ---------------------------------------------------------------------------


def _r08e(chk, repo) -> None:
    n = 0
    for m in repo.iter_modules("src/sqlfluff/core/templaters/"):
        if "ignore_templating" not in m.text:
            continue
        for q, f in m.functions():
            cs = [c for c in ast.walk(f) if isinstance(c, ast.Call) and any(k.arg == "ignore_templating" for k in c.keywords)]
            if not cs:
                continue
            cfg = cfg_of(f)
            fparams = {a.arg for a in f.args.args + f.args.kwonlyargs}
            for c in cs:
                v = [k.value for k in c.keywords if k.arg == "ignore_templating"][0]
                n += 1
                exprs = [v]
                if isinstance(v, ast.Name):
                    if v.id in fparams and v.id == "ignore_templating":
                        continue
                    exprs = [o.expr for o in origins(cfg, v, cfg.stmt_of(c)) if o.kind == "expr"] or [v]
                def is_test(e) -> bool:
                    return (isinstance(e, ast.Compare) and len(e.ops) == 1 and isinstance(e.ops[0], ast.In) and isinstance(e.left, ast.Constant) and e.left.value == "templating"
                            and "ignore" in norm(e.comparators[0]))
                chk.require(
                    all(is_test(e) for e in exprs), "R08e", c,
                    f"{q} passes ignore_templating={short(v, 40)}, which is not `'templating' in <config>.get('ignore')`: with e.g. `ignore = parsing` undefined variables are then rendered as their "
                    "own names and no templating error is reported, unlike Jinja's render of the same template and context",
                    detail=f"{q}: ignore_templating is the membership test for 'templating'",
                )
    chk.count("R08e.ignore_templating_arguments", n)
    chk.floor("R08e.ignore_templating_arguments", 1)


def _r08d(chk, repo) -> None:
    """SQLFluff adds stand-ins to the render context: dbt builtins, and for every name the template
    mentions but the context lacks an UndefinedRecorder / DummyUndefined (which is truthy, not none
    and renders as '').  Putting one over a name the user DID define -- for instance because its
    value is None, 0 or '' -- makes the render differ from Jinja's own."""
    m = repo.mod(JINJA)
    n = 0
    for q, f in m.functions():
        cfg = None
        for st in walk_local(f):
            if not isinstance(st, ast.Assign):
                continue
            for t in st.targets:
                if not (isinstance(t, ast.Subscript) and isinstance(t.value, ast.Name)):
                    continue
                name = t.value.id
                # the context dict: a parameter or local that is the live context (by the annotation of the parameter
                # or by being the value passed on as the render context); identified here by what it is filled with
                # the stored value, also when it was chosen into a local first (``x = A(..) if c else B(..)``)
                # or is the value variable of a loop over ``<TABLE>.items()``
                vals = [st.value]
                if isinstance(st.value, ast.Name):
                    from ..cfg import origins as _origins

                    cfg = cfg or cfg_of(f)
                    vals = []
                    for o in _origins(cfg, st.value, st):
                        if o.kind == "expr" and not o.path and isinstance(o.expr, ast.AST):
                            vals.append(o.expr)
                        elif o.kind == "for" and tuple(o.path) == (1,) and isinstance(o.expr, ast.Call) and last_attr(o.expr) == "items" and isinstance(o.expr.func, ast.Attribute) and not o.expr.args:
                            vals.append(ast.Subscript(value=o.expr.func.value, slice=ast.Name(id="_", ctx=ast.Load()), ctx=ast.Load()))
                        else:
                            vals.append(None)
                stand_in = bool(vals) and any(
                    v is not None and (
                        (isinstance(v, ast.Call) and any(w in norm(v.func) for w in ("UndefinedRecorder", "DummyUndefined")))
                        or (isinstance(v, ast.Subscript) and norm(v.value).isupper())  # e.g. DBT_BUILTINS[name]
                    )
                    for v in vals
                )
                if not stand_in:
                    continue
                n += 1
                cfg = cfg or cfg_of(f)
                key = norm(t.slice)
                guarded = False
                for e, pol in cfg.conditions(st):
                    if isinstance(e, ast.Compare) and len(e.ops) == 1 and norm(e.left) == key and isinstance(e.comparators[0], ast.Name) and e.comparators[0].id == name:
                        if (isinstance(e.ops[0], ast.NotIn) and pol) or (isinstance(e.ops[0], ast.In) and not pol):
                            guarded = True
                chk.require(
                    guarded, "R08d", st,
                    f"{q}: `{short(st, 70)}` puts a stand-in into the render context without a dominating test `{key} not in {name}`: a name the user defined "
                    "(e.g. with the value None) is replaced, and `{{ x or 'd' }}` / `{% if x is none %}` render differently from Jinja",
                    detail=f"{q}: stand-in for {key} only when the name is missing",
                )
    chk.count("R08d.stand_in_stores", n)
    chk.floor("R08d.stand_in_stores", 2)
    # bulk forms: a table of stand-ins (an ALL-CAPS module-level mapping such as DBT_BUILTINS) merged into a context
    # must not win over what is already there
    tables = {t.id for st in m.tree.body if isinstance(st, (ast.Assign, ast.AnnAssign)) for t in (st.targets if isinstance(st, ast.Assign) else [st.target])
              if isinstance(t, ast.Name) and t.id.isupper() and isinstance(st.value, (ast.Dict, ast.Call, ast.DictComp))}
    tables |= {a.asname or a.name for st in m.tree.body if isinstance(st, ast.ImportFrom) for a in st.names if (a.asname or a.name).isupper() and "BUILTINS" in (a.asname or a.name)}
    n_bulk = n_uses = 0
    for q, f in m.functions():
        for node in walk_local(f):
            bad = None
            if isinstance(node, ast.Dict):
                spread = [(i, v) for i, (k, v) in enumerate(zip(node.keys, node.values)) if k is None]
                for i, v in spread:
                    if isinstance(v, ast.Name) and v.id in tables:
                        n_uses += 1
                        if any(j < i for j, _ in spread):
                            bad = f"`{short(node, 60)}` lists {v.id} after the context it is merged into"
            elif isinstance(node, ast.Call) and last_attr(node) == "update" and isinstance(node.func, ast.Attribute) and node.args and isinstance(node.args[0], ast.Name) and node.args[0].id in tables:
                n_uses += 1
                bad = f"`{short(node, 60)}` overwrites the entries already present"
            elif isinstance(node, ast.BinOp) and isinstance(node.op, ast.BitOr) and isinstance(node.right, ast.Name) and node.right.id in tables:
                n_uses += 1
                bad = f"`{short(node, 60)}` lets {node.right.id} win"
            elif isinstance(node, ast.AugAssign) and isinstance(node.op, ast.BitOr) and isinstance(node.value, ast.Name) and node.value.id in tables:
                n_uses += 1
                bad = f"`{short(node, 60)}` overwrites the entries already present"
            if bad:
                n_bulk += 1
                chk.fail(
                    "R08d", node,
                    f"{q}: {bad}: a context variable (or library) the user defined under the name of a stand-in (`this`, `var`, `config`, `ref`, ..) is replaced by the stand-in, "
                    "so the render differs from Jinja's render of the user's context",
                    detail=f"{q}: stand-in table merged without overwriting the context",
                )
            elif isinstance(node, (ast.Subscript, ast.For)) and any(isinstance(x, ast.Name) and x.id in tables for x in ([node.value] if isinstance(node, ast.Subscript) else [node.iter])):
                n_uses += 1
            elif isinstance(node, ast.For) and isinstance(node.iter, ast.Call) and last_attr(node.iter) in ("items", "keys", "values") and isinstance(node.iter.func, ast.Attribute) \
                    and isinstance(node.iter.func.value, ast.Name) and node.iter.func.value.id in tables:
                n_uses += 1  # for k, v in TABLE.items(): ...
    chk.count("R08d.stand_in_table_uses", n_uses)
    chk.count("R08d.bulk_merges_that_overwrite", n_bulk)
    chk.require(n_uses > 0 or not tables, "R08d", None, "the stand-in table is never applied (anchor changed?)", detail="stand-in table is applied", construct=JINJA)


def run(chk) -> None:
    repo = chk.repo
    chk.rule("R08a", "every Jinja environment keeps the default delimiters / no line statements and keep_trailing_newline=True, and the 'no markup' early return of process excludes every default opener "
             "('{{', '{%', '{#') by an unanchored containment test (regex AST)")
    chk.rule("R08b", "TemplatedFile.templated_str is render_func(raw_str) of the unmodified source along process -> slice_file -> analyzer -> tracer -> trace(), never the instrumented trace template; "
             "the render closure is env.from_string(<parameter>).render() on the checked environment")
    chk.rule("R08c", "the 'no markup' early return is conjoined with the negation of every macro/library loader switch read on the way to the live context")

    chk.assumptions.append(
        "Sources reach the templater with '\\n' newlines only (the linter normalises CR/CRLF before templating: C11 R11c); Jinja itself rewrites "
        "CR/CRLF in template data to newline_sequence, so on an un-normalised string the fast path and a Jinja render differ by construction."
    )
    chk.assumptions.append("jinja2's defaults are the documented ones ('{{', '{%', '{#', no line statements, keep_trailing_newline=False); environments built by dbt itself are outside the analysed tree.")
    chk.rule("R08e", "undefined variables get the lenient treatment only under ignore = templating: every `ignore_templating=` argument in the templaters is the test `'templating' in <config>.get('ignore')` (or the caller's own ignore_templating parameter), not the truthiness of the ignore list")
    _r08e(chk, repo)
    chk.rule("R08d", "what the user's context defines is what Jinja sees: after the context is assembled, a name is added to it (dbt builtins, undefined-variable recorders) only under a test that the name is not in it")
    _r08d(chk, repo)
    cons = _r08a_envs(chk, repo)
    tracer, analyzer, src_attr, rf_attr = _r08b_tracer(chk, repo)
    _r08b_chain(chk, repo, tracer, analyzer, src_attr, rf_attr)
    crf_fn, ga_fn = _r08b_templaters(chk, repo, tracer, analyzer, cons)

    jm = repo.mod(JINJA)
    jt = repo.cls(JINJA, "JinjaTemplater")
    proc = repo.fn(JINJA, "JinjaTemplater.process")
    if crf_fn is None:
        raise AnalysisError("R08c: the method that builds the render function of JinjaTemplater.process was not found")
    # the live-context builder: the method whose result the render closure passes as globals
    ctx_fn = None
    ccfg = cfg_of(crf_fn)
    for c in walk_local(crf_fn):
        if isinstance(c, ast.Call):
            r = method_of(repo, c)
            if r is not None and any(isinstance(x, ast.Call) and last_attr(x) == "get_context" for x in walk_local(r[1])):
                ctx_fn = r[1]
    if ctx_fn is None:
        raise AnalysisError("R08c: live-context builder not found")
    _fast_path(chk, repo, proc, jm, jt, ctx_fn)


# ---------------------------------------------------------------------------
from ..selftest import Variant  # noqa: E402

DBT = "plugins/sqlfluff-templater-dbt/sqlfluff_templater_dbt/templater.py"

_FAST_OLD = (
    "        if (\n"
    "            in_str\n"
    "            and not re.search(r\"\\{[{%#]\", in_str)\n"
    "            and not self._get_macros_path(config, \"load_macros_from_path\")\n"
    "            and not config.get_section((self.templater_selector, self.name, \"macros\"))\n"
    "            and not config.get(\"library_path\")\n"
    "            and not config.get_section(\n"
    "                (self.templater_selector, self.name, \"library_path\")\n"
    "            )\n"
    "        ):\n"
    "            return TemplatedFile(in_str, fname=fname), []\n"
)
_DBT_OLD = (
    "                for name in DBT_BUILTINS:\n"
    "                    # Only apply if it hasn't already been set at this stage.\n"
    "                    if name not in live_context:\n"
    "                        live_context[name] = DBT_BUILTINS[name]\n"
)
_UNDEF_OLD = (
    "            if val not in live_context:\n"
    "                if ignore_templating:\n"
    "                    live_context[val] = DummyUndefined.create(val)\n"
    "                else:\n"
    "                    live_context[val] = UndefinedRecorder(val, undefined_variables)\n"
)

VARIANTS = [
    Variant(
        "any-ignore-setting-makes-undefined-variables-lenient", JINJA,
        '            ignore_templating=("templating" in config.get("ignore")),\n',
        '            ignore_templating=bool(config.get("ignore")),\n',
        "R08e", "process", "seeded C08-7",
    ),
    # behaviour-preserving refactors: must stay quiet
    Variant(
        "quiet-fast-path-nested-ifs-and-loader-local", JINJA, _FAST_OLD,
        "        if in_str and not re.search(r\"\\{[{%#]\", in_str):\n"
        "            loaders_configured = (\n"
        "                self._get_macros_path(config, \"load_macros_from_path\")\n"
        "                or config.get_section((self.templater_selector, self.name, \"macros\"))\n"
        "                or config.get(\"library_path\")\n"
        "                or config.get_section(\n"
        "                    (self.templater_selector, self.name, \"library_path\")\n"
        "                )\n"
        "            )\n"
        "            if not loaders_configured:\n"
        "                return TemplatedFile(in_str, fname=fname), []\n",
        "QUIET", None, "conjunction split into nested ifs, the loader switches or-ed into a local",
    ),
    Variant(
        "quiet-fast-path-result-through-local-by-keyword", JINJA,
        "        ):\n            return TemplatedFile(in_str, fname=fname), []\n\n        env, live_context, render_func = self.construct_render_func(\n",
        "        ):\n            plain_file = TemplatedFile(source_str=in_str, fname=fname)\n            return plain_file, []\n\n        env, live_context, render_func = self.construct_render_func(\n",
        "QUIET", None, "the unrendered file through a local, source by keyword",
    ),
    Variant(
        "quiet-fast-path-compiled-pattern", JINJA,
        "        if (\n            in_str\n            and not re.search(r\"\\{[{%#]\", in_str)\n",
        "        markup = re.compile(r\"\\{[{%#]\")\n        if (\n            in_str\n            and not markup.search(in_str)\n",
        "QUIET", None, "pattern compiled into a local first",
    ),
    Variant(
        "quiet-undefined-stand-in-through-local", JINJA, _UNDEF_OLD,
        "            if val not in live_context:\n"
        "                stand_in = (\n"
        "                    DummyUndefined.create(val)\n"
        "                    if ignore_templating\n"
        "                    else UndefinedRecorder(val, undefined_variables)\n"
        "                )\n"
        "                live_context[val] = stand_in\n",
        "QUIET", None, "the two stores merged: the stand-in is chosen into a local, one store",
    ),
    Variant(
        "quiet-dbt-builtins-items-loop", JINJA, _DBT_OLD,
        "                for name, builtin in DBT_BUILTINS.items():\n"
        "                    # Only apply if it hasn't already been set at this stage.\n"
        "                    if name not in live_context:\n"
        "                        live_context[name] = builtin\n",
        "QUIET", None, "loop over .items() instead of indexing the table",
    ),
    Variant(
        "quiet-dbt-builtins-setdefault", JINJA, _DBT_OLD,
        "                for name in DBT_BUILTINS:\n"
        "                    # Only apply if it hasn't already been set at this stage.\n"
        "                    live_context.setdefault(name, DBT_BUILTINS[name])\n",
        "QUIET", None, "membership test + store spelled as setdefault (never overwrites)",
    ),
    Variant(
        "quiet-slice-file-env-through-local-and-chained", JINJA,
        "        analyzer = self._get_jinja_analyzer(raw_str, self._get_jinja_env())\n        tracer = analyzer.analyze(render_func)\n",
        "        slicing_env = self._get_jinja_env()\n        tracer = self._get_jinja_analyzer(raw_str, slicing_env).analyze(render_func)\n",
        "QUIET", None, "environment through a local, analyzer call chained",
    ),
    Variant(
        "quiet-render-closure-result-through-local", JINJA,
        "            return template.render()\n",
        "            rendered_sql = template.render()\n            return rendered_sql\n",
        "QUIET", None, "rendered text through a local",
    ),
    Variant(
        "quiet-process-slicing-result-indexed", JINJA,
        "            raw_sliced, sliced_file, out_str = self.slice_file(\n                in_str,\n                render_func=render_func,\n                config=config,\n            )\n",
        "            sliced = self.slice_file(\n                in_str,\n                render_func=render_func,\n                config=config,\n            )\n            raw_sliced, sliced_file, out_str = sliced[0], sliced[1], sliced[2]\n",
        "QUIET", None, "result triple indexed instead of unpacked",
    ),
    Variant(
        "quiet-trace-record-by-keyword", TRACER,
        "        return JinjaTrace(templated_str, self.raw_sliced, self.sliced_file)\n",
        "        record = JinjaTrace(\n            templated_str=templated_str,\n            raw_sliced=self.raw_sliced,\n            sliced_file=self.sliced_file,\n        )\n        return record\n",
        "QUIET", None, "trace record by keyword, through a local",
    ),
    # breaking twins in the spellings the QUIET sweep taught the rules to read
    Variant(
        "undefined-stand-in-through-local-without-membership-test", JINJA, _UNDEF_OLD,
        "            if live_context.get(val) is None:\n"
        "                stand_in = (\n"
        "                    DummyUndefined.create(val)\n"
        "                    if ignore_templating\n"
        "                    else UndefinedRecorder(val, undefined_variables)\n"
        "                )\n"
        "                live_context[val] = stand_in\n",
        "R08d", "_init_undefined_tracking", "stand-in through a local; a variable defined as None is replaced",
    ),
    Variant(
        "dbt-builtins-items-loop-overwrites", JINJA, _DBT_OLD,
        "                for name, builtin in DBT_BUILTINS.items():\n"
        "                    live_context[name] = builtin\n",
        "R08d", "_get_env_context", ".items() loop without the membership test",
    ),
    Variant(
        "dbt-builtins-merged-over-the-context", JINJA,
        "                for name in DBT_BUILTINS:\n                    # Only apply if it hasn't already been set at this stage.\n                    if name not in live_context:\n                        live_context[name] = DBT_BUILTINS[name]\n",
        "                live_context = {**live_context, **DBT_BUILTINS}\n",
        "R08d", "_get_env_context", "seeded C08-3: a context variable named `this` / `var` / `config` is replaced by the dbt mock",
    ),
    Variant(
        "dbt-builtins-update-the-context", JINJA,
        "                for name in DBT_BUILTINS:\n                    # Only apply if it hasn't already been set at this stage.\n                    if name not in live_context:\n                        live_context[name] = DBT_BUILTINS[name]\n",
        "                live_context.update(DBT_BUILTINS)\n",
        "R08d", "_get_env_context",
    ),
    Variant(
        "quiet-dbt-builtins-as-defaults-below-the-context", JINJA,
        "                for name in DBT_BUILTINS:\n                    # Only apply if it hasn't already been set at this stage.\n                    if name not in live_context:\n                        live_context[name] = DBT_BUILTINS[name]\n",
        "                live_context = {**DBT_BUILTINS, **live_context}\n",
        "QUIET", None, "R08d: builtins first, the context on top: the same defaults-only merge",
    ),
    Variant(
        "undefined-tracking-replaces-none-valued-variables", JINJA,
        "            if val not in live_context:\n                if ignore_templating:\n",
        "            if live_context.get(val) is None:\n                if ignore_templating:\n",
        "R08d", "_init_undefined_tracking", "seeded C08-1: a variable defined as None is treated as undefined",
    ),
    Variant(
        "quiet-undefined-tracking-membership-negated-in", JINJA,
        "            if val not in live_context:\n                if ignore_templating:\n",
        "            if val in live_context:\n                continue\n            if True:\n                if ignore_templating:\n",
        "QUIET", None, "membership test spelled as an early continue",
    ),
    # ---- behaviour-preserving edits: the check must stay quiet --------------------
    Variant(
        "quiet-marker-test-hoisted-into-local", JINJA,
        "        if (\n            in_str\n            and not re.search(r\"\\{[{%#]\", in_str)\n",
        "        has_markup = re.search(r\"\\{[{%#]\", in_str)\n        if (\n            in_str\n            and not has_markup\n",
        "QUIET", None, "marker test computed into a local before the guard",
    ),
    Variant(
        "quiet-plain-render-through-temp", TRACER,
        "        templated_str = self.render_func(self.raw_str) + append_to_templated\n",
        "        rendered = self.render_func(self.raw_str)\n        templated_str = rendered + append_to_templated\n",
        "QUIET", None, "plain render passed through a temp",
    ),
    Variant(
        "quiet-slice-file-renamed-locals", JINJA,
        "        trace = tracer.trace(append_to_templated=append_to_templated)\n        return trace.raw_sliced, trace.sliced_file, trace.templated_str\n",
        "        result = tracer.trace(append_to_templated=append_to_templated)\n        templated = result.templated_str\n        return result.raw_sliced, result.sliced_file, templated\n",
        "QUIET", None, "trace result renamed, rendered text through a temp",
    ),
    Variant(
        "quiet-explicit-default-delimiter", JINJA,
        "            keep_trailing_newline=True,\n            # The do extension",
        "            keep_trailing_newline=True,\n            variable_start_string=\"{{\",\n            # The do extension",
        "QUIET", None, "an option spelled out with Jinja's default value",
    ),
    Variant(
        "quiet-marker-test-as-substring-tests", JINJA,
        "            and not re.search(r\"\\{[{%#]\", in_str)\n",
        "            and \"{{\" not in in_str\n            and \"{%\" not in in_str\n            and \"{#\" not in in_str\n",
        "QUIET", None, "regex replaced by three substring tests",
    ),
    Variant(
        "quiet-dbt-source-alias-dropped", DBT,
        "            raw_sliced, sliced_file, templated_sql = self.slice_file(\n                source_dbt_sql,\n",
        "            raw_sliced, sliced_file, templated_sql = self.slice_file(\n                in_str,\n",
        "QUIET", None, "alias of the source parameter replaced by the parameter",
    ),
    # ---- breaking edits ---------------------------------------------------------------
    Variant(
        "env-line-statements-enabled", JINJA,
        "            keep_trailing_newline=True,\n            # The do extension",
        "            keep_trailing_newline=True,\n            line_statement_prefix=\"--%\",\n            # The do extension",
        "R08a", "environment option line_statement_prefix",
    ),
    Variant(
        "env-keep-trailing-newline-dropped", JINJA,
        "            # We explicitly want to preserve newlines.\n            keep_trailing_newline=True,\n",
        "",
        "R08a", "environment keep_trailing_newline=True",
    ),
    Variant(
        "env-custom-variable-delimiters", JINJA,
        "            keep_trailing_newline=True,\n            # The do extension",
        "            keep_trailing_newline=True,\n            variable_start_string=\"${\",\n            variable_end_string=\"}\",\n            # The do extension",
        "R08a", "environment option variable_start_string",
    ),
    Variant(
        "env-option-flipped-after-construction", JINJA,
        "        env = self._get_jinja_env(config)\n        live_context = self._get_env_context(fname, config, env)\n",
        "        env = self._get_jinja_env(config)\n        env.keep_trailing_newline = False\n        live_context = self._get_env_context(fname, config, env)\n",
        "R08a", "attribute store to keep_trailing_newline",
    ),
    Variant(
        "render-closure-builds-its-own-environment", JINJA,
        "                template = env.from_string(in_str, globals=live_context)\n",
        "                template = Environment(trim_blocks=True).from_string(in_str, globals=live_context)\n",
        "R08a", "environment keep_trailing_newline=True",
    ),
    Variant(
        "fast-path-ignores-comment-opener", JINJA,
        "re.search(r\"\\{[{%#]\", in_str)",
        "re.search(r\"\\{[{%]\", in_str)",
        "R08a", "fast path excludes files containing '{#'",
    ),
    Variant(
        "fast-path-tests-start-of-file-only", JINJA,
        "re.search(r\"\\{[{%#]\", in_str)",
        "re.match(r\"\\{[{%#]\", in_str)",
        "R08a", "fast path excludes files containing '{{'",
    ),
    Variant(
        "fast-path-skips-backslashed-braces", JINJA,
        "re.search(r\"\\{[{%#]\", in_str)",
        "re.search(r\"(?<!\\\\)\\{[{%#]\", in_str)",
        "R08a", "fast path excludes files containing '{%'",
    ),
    Variant(
        "fast-path-drops-library-switch", JINJA,
        "            and not config.get(\"library_path\")\n            and not config.get_section(\n",
        "            and not config.get_section(\n",
        "R08c", "fast path guard tests get:library_path",
    ),
    Variant(
        "fast-path-drops-macro-path-switch", JINJA,
        "            and not self._get_macros_path(config, \"load_macros_from_path\")\n            and not config.get_section((self.templater_selector, self.name, \"macros\"))\n",
        "            and not config.get_section((self.templater_selector, self.name, \"macros\"))\n",
        "R08c", "fast path guard tests section:load_macros_from_path",
    ),
    Variant(
        "second-early-return-bypasses-loader-switches", JINJA,
        "        # Fast path: a file with no Jinja markers renders to itself, so skip\n",
        "        if \"{\" not in in_str:\n            return TemplatedFile(in_str, fname=fname), []\n        # Fast path: a file with no Jinja markers renders to itself, so skip\n",
        "R08c", "fast path guard tests section:macros",
    ),
    Variant(
        "trace-returns-stripped-trace-output", TRACER,
        "        templated_str = self.render_func(self.raw_str) + append_to_templated\n",
        "        templated_str = regex.sub(r\"\\0[0-9a-f]+(_\\d+)?\", \"\", trace_template_output) + append_to_templated\n",
        "R08b", "trace(): templated_str is render_func(raw_str)",
    ),
    Variant(
        "trace-renders-the-trace-template", TRACER,
        "        templated_str = self.render_func(self.raw_str) + append_to_templated\n",
        "        templated_str = self.render_func(trace_template_str) + append_to_templated\n",
        "R08b", "trace(): templated_str is render_func(raw_str)",
    ),
    Variant(
        "tracer-source-overwritten-by-trace-template", TRACER,
        "        trace_template_output = self.render_func(trace_template_str)\n",
        "        trace_template_output = self.render_func(trace_template_str)\n        self.raw_str = trace_template_str\n",
        "R08b", "attribute raw_str written once",
    ),
    Variant(
        "analyze-hands-stripped-source-to-tracer", TRACER,
        "        return self._get_jinja_tracer(\n            self.raw_str,\n",
        "        return self._get_jinja_tracer(\n            self.raw_str.strip(),\n",
        "R08b", "analyze(): tracer source is the analyzer's raw_str",
    ),
    Variant(
        "render-closure-strips-trailing-newlines", JINJA,
        "                template = env.from_string(in_str, globals=live_context)\n",
        "                template = env.from_string(in_str.rstrip(\"\\n\"), globals=live_context)\n",
        "R08b", "render closure: env.from_string(<parameter>).render()",
    ),
    Variant(
        "jinja-process-slices-a-stripped-copy", JINJA,
        "            raw_sliced, sliced_file, out_str = self.slice_file(\n                in_str,\n",
        "            raw_sliced, sliced_file, out_str = self.slice_file(\n                in_str.strip(),\n",
        "R08b", "process: slice_file(source) is the recorded source",
    ),
    Variant(
        "slice-file-analyzes-a-left-stripped-copy", JINJA,
        "        analyzer = self._get_jinja_analyzer(raw_str, self._get_jinja_env())\n        tracer = analyzer.analyze(render_func)\n        trace = tracer.trace(",
        "        analyzer = self._get_jinja_analyzer(raw_str.lstrip(), self._get_jinja_env())\n        tracer = analyzer.analyze(render_func)\n        trace = tracer.trace(",
        "R08b", "slice_file: returns trace(analyze(render_func) of raw_str).templated_str",
    ),
    Variant(
        "dbt-slices-the-manifest-copy-of-the-source", DBT,
        "            raw_sliced, sliced_file, templated_sql = self.slice_file(\n                source_dbt_sql,\n",
        "            raw_sliced, sliced_file, templated_sql = self.slice_file(\n                raw_sql,\n",
        "R08b", "process: slice_file(source) is the recorded source",
    ),
]
