"""C04 — parse, lint and fix never crash: the error discipline of the lint path.

The behaviour ("no input / configuration makes parse, lint or fix raise") is not
decided.  Decided are four structural clauses, each a necessary condition:

R04a  exception flow of the repository's own error types.  Every ``raise`` of
      ``SQLParseError`` / ``SQLLexError`` / ``SQLTemplaterError`` /
      ``SQLFluffSkipFile`` (core + plugins, 30+ sites) is followed over the
      supplemented call graph (``sa/errflow.py``: decorator wrappers cloned per
      decorated function, property getters, closures, deferred
      ``functools.partial`` objects, class aliases / unions, ``cls(..)``
      constructors, the three-argument ``Matchable.match`` protocol) to the
      public entry points — every public method of ``Linter``, every public
      function of ``api/simple.py``, every ``@cli.command``.  On every chain the
      exception must be *absorbed by a converting handler*:
        - converts: the caught object (or a new repo error built in the handler)
          is appended to / returned in a list that the function returns (the
          violations list), directly or through a helper that receives both;
        - translates: every path through the handler raises a new repo error type;
        - a reviewed *verdict* handler (table ``VERDICT_HANDLERS``);
        - ``SQLFluffSkipFile`` is a per-file verdict, not a violation: its handler
          must leave the file without a result (count it, forward it, go on to the
          next file, end the command).  Falling through — so that the function
          returns a result object with neither a tree nor a violation — is reported:
          consumers read "no violation" as "parsed" (``api.parse`` asserts a
          variant, the ``render`` command indexes the first variant).
      Reported: ``escapes`` (reaches an entry point with no handler at all: the
      caller gets a traceback), ``degraded`` (the only handler is a log-only
      catch-all such as the runners' funnel: the file's result is lost and no
      TMP/LXR/PRS violation is reported), ``swallowed`` (a handler drops it).
      A handler that re-raises the caught object (also conditionally, also under
      ``isinstance(e, K)``) is transparent.  Entry points that raise by contract
      are listed in ``CONTRACT``; chains that no execution follows in ``CUTS``.
      Alarms are limited to chains whose raise site and every frame lie under
      ``src/sqlfluff``: plugin code (dbt, sqlmesh) cannot be exercised in this
      sandbox, its unhandled chains are printed as notes and counted
      (``R04a.plugin_chains_unhandled``).
      Non-vacuity: each of SQLParseError / SQLLexError / SQLTemplaterError must be
      *seen* to reach a converting handler of the linter; if not, and nothing is
      reported for the type, the flow was lost -> analysis error.
R04b  fix sinks.  Every call of ``LintedFile.fix_string()`` (whose first
      statements assert a templated file and a tree) is dominated by a test that
      implies both: the truth of ``<file>.tree`` / ``.templated_file``, or
      ``num_violations(.., fixable=True ..) > 0`` — directly, through a local, or
      at every call site of a helper that contains the sink (fixable violations
      are only produced by rules, which only run on a tree).  A count of TMP/PRS
      errors does *not* imply a tree (a skipped file has neither).
R04c  limit guards.  ``ParseContext.deeper_match`` increments the depth, compares
      it with the limit handed to the constructor and raises a repo error on
      every path to its ``yield`` (branches taken only when the limit is switched
      off excepted); ``increment_parse_nodes`` likewise for the node budget; the
      token count is charged to the budget before matching (``Parser.parse``
      seeds it and/or ``Linter._parse_tokens`` pre-checks it — and the pre-check
      returns a ``SQLParseError`` violation); and every recursion cycle of the
      matching code passes through ``with <ctx>.deeper_match(..)`` (also via a
      local bound to that call): the call graph of all ``match`` implementations
      + the match algorithms, minus the calls made inside such a ``with``, is
      acyclic (``isinstance`` narrowing of the receiver is honoured).
R04d  closed inventory of explicit ``raise`` statements of *builtin* exception
      types (ValueError, TypeError, RuntimeError, NotImplementedError, ...) in
      ``core/parser``, ``core/linter``, ``core/templaters`` that can reach an
      entry point without a covering handler (same flow engine; ``SQLBaseError``
      is a ``ValueError``, so ``except ValueError`` covers both): each is listed in
      ``BUILTIN_RAISES`` keyed by module + type + head of the message literal
      (survives renames, extraction of helpers inside the module, reformatting),
      with its class — ``invariant`` (not reachable with values the tree itself
      produces), ``config`` (an invalid configuration value reported as a builtin
      exception; three of them reproduced: they *are* tracebacks today), ``api``
      (misuse by the calling program) — and the reason.  A new one is reported.
      ``assert`` statements are *not* inventoried (104 sites, mostly without a
      message, no stable identity), nor are implicit exceptions (IndexError ...).

Not decided: RecursionError / IndexError / AssertionError for arbitrary inputs;
recursion outside the matching code (tree walks are bounded by the tree depth,
which the match depth bounds); exceptions raised by third-party code (jinja2,
dbt, sqlmesh) unless a handler in the tree translates them; plugin chains
(notes only); value flows the engine does not model (closures stored in
attributes, generators consumed away from where they are created) — counted in
``R04a.unmodelled_value_flows_of_raising_functions`` and never alarmed on; a
raise of a class passed to a decorator factory is only typed when every use of
the factory passes the same class.
"""

from __future__ import annotations

import ast
from typing import Dict, List, Optional, Set, Tuple

from ..cfg import atoms, cfg_of, origins
from ..errflow import Absorb, ExcTypes, Flow, Graph, Site, short_name
from ..index import AnalysisError, FuncNode, arg_of, call_name, calls_in, const, enclosing_class, enclosing_function, kwarg, last_attr, module_of, norm, parent, short, walk_local
from ..report import construct_of

LINTER = "src/sqlfluff/core/linter/linter.py"
RUNNER = "src/sqlfluff/core/linter/runner.py"
LINTED_FILE = "src/sqlfluff/core/linter/linted_file.py"
CONTEXT = "src/sqlfluff/core/parser/context.py"
PARSER = "src/sqlfluff/core/parser/parser.py"
SIMPLE = "src/sqlfluff/api/simple.py"
COMMANDS = "src/sqlfluff/cli/commands.py"
ALGOS = "src/sqlfluff/core/parser/match_algorithms.py"
SEGBASE = "src/sqlfluff/core/parser/segments/base.py"

CORE = "src/sqlfluff/"
SKIP = "SQLFluffSkipFile"
REPO_TYPES = ("SQLParseError", "SQLLexError", "SQLTemplaterError", SKIP)
TRANSLATION_TARGETS = set(REPO_TYPES) | {"SQLFluffUserError", "SQLBaseError"}

# entry point, type -> reason: raises by contract, the callers are entry points of their own
CONTRACT = {
    ("Linter.load_raw_file_and_config", SKIP): "the loader signals an oversized file by raising; every caller in the tree is an entry point checked here",
    ("Linter.render_file", SKIP): "passes the loader's skip on to the runner, which counts it (C34 R34c)",
}

# (caller qualname, callee qualname, type) -> reason: chains no execution follows
CUTS = {
    ("PyLexer.lex", "TemplatedFile.from_string", SKIP): "from_string builds the single literal slice itself; the consistency checks of TemplatedFile.__init__ cannot fail for it (and the lint path passes a TemplatedFile, not a str)",
    ("PyRsLexer.lex", "TemplatedFile.__init__", SKIP): "re-wraps the slices of a TemplatedFile that already passed the same consistency checks when the templater built it",
}

# handlers that absorb a repo error without putting it into a violations list: construct, type -> reason
VERDICT_HANDLERS = {
    ("src/sqlfluff/core/parser/segments/base.py::BaseSegment.validate_segment_with_reparse", "SQLParseError"):
        "re-parse of a *candidate fix*: a parse error means 'not valid' (returns False), the fix is dropped; the user's file has already been parsed and reported",
    ("src/sqlfluff/core/linter/fix.py::apply_fixes", "SQLParseError"):
        "the node-budget seeding of validate_segment_with_reparse raises by contract (pinned by test_validate_segment_with_reparse_respects_max_parse_nodes); "
        "apply_fixes, which consumes the verdict, turns it into 'not valid' (validated = False; C13 R13b checks that this is what the handler yields)",
}


# ---------------------------------------------------------------------------
# shared: graph, raise sites, entry points
# ---------------------------------------------------------------------------


def _qual(fi) -> str:
    return f"{fi.relpath}::{getattr(fi.node, '_qualname', fi.node.name)}"


_short_fq = short_name


def _msg_head(r: ast.Raise) -> str:
    """First words of the message literal of a raise (identity of a raise site that
    survives renames, moves inside the module and reformatting)."""
    e = r.exc
    if not isinstance(e, ast.Call):
        return norm(e) if e is not None else "<re-raise>"
    lits = [n for a in list(e.args) + [k.value for k in e.keywords] for n in ast.walk(a) if isinstance(n, ast.Constant) and isinstance(n.value, str) and n.value.strip()]
    if not lits:
        # the message was assigned to a local first (``msg = "..."; raise ValueError(msg)``): read the
        # literal of that local when the function binds it exactly once
        f = enclosing_function(r)
        for a in list(e.args) + [k.value for k in e.keywords]:
            if isinstance(a, ast.Name) and f is not None:
                binds = [n for n in walk_local(f) if isinstance(n, (ast.Assign, ast.AnnAssign)) and n.value is not None
                         and any(isinstance(t, ast.Name) and t.id == a.id for t in (n.targets if isinstance(n, ast.Assign) else [n.target]))]
                if len(binds) == 1:
                    lits += [n for n in ast.walk(binds[0].value) if isinstance(n, ast.Constant) and isinstance(n.value, str) and n.value.strip()]
    if lits:
        first = min(lits, key=lambda n: (n.lineno, n.col_offset))
        return " ".join(first.value.split())[:48]
    return "<no message literal>"


def _raised_name(fi, r: ast.Raise, known) -> Optional[str]:
    e = r.exc
    if e is None:
        return None
    if isinstance(e, ast.Call):
        f = e.func
        n = norm(f).split(".")[-1]
        if known(n):
            return n
        if isinstance(f, ast.Attribute):  # SQLParseError.from_rs_parse_error(..)
            n2 = norm(f.value).split(".")[-1]
            if known(n2):
                return n2
        return None
    if isinstance(e, ast.Name):
        for n in walk_local(fi.node):
            if isinstance(n, ast.Assign) and any(isinstance(t, ast.Name) and t.id == e.id for t in n.targets) and isinstance(n.value, ast.Call):
                nm = norm(n.value.func).split(".")[-1]
                if known(nm):
                    return nm
    return None


def _factory_param_type(repo, fi, r: ast.Raise, known) -> Optional[str]:
    """``raise error_class(..)`` inside a decorator factory ``D(error_class, ..)``: the
    class every ``@D(X, ..)`` in the tree passes (when they all agree)."""
    e = r.exc
    if not (isinstance(e, ast.Call) and isinstance(e.func, ast.Name)):
        return None
    name = e.func.id
    f = enclosing_function(r)
    outer = None
    while f is not None:
        if isinstance(f, FuncNode) and any(a.arg == name for a in f.args.posonlyargs + f.args.args):
            outer = f
        f = enclosing_function(f)
    if outer is None or outer is enclosing_function(r):
        return None
    pos = [a.arg for a in outer.args.posonlyargs + outer.args.args].index(name)
    seen: Set[str] = set()
    for m in repo.modules.values():
        if outer.name not in m.text:
            continue
        for q, g in m.functions():
            for d in g.decorator_list:
                if isinstance(d, ast.Call) and norm(d.func).split(".")[-1] == outer.name:
                    a = kwarg(d, name) or (d.args[pos] if pos < len(d.args) else None)
                    if a is not None:
                        seen.add(norm(a).split(".")[-1])
    if len(seen) == 1 and known(next(iter(seen))):
        return next(iter(seen))
    return None


class World:
    def __init__(self, chk):
        self.chk = chk
        repo = self.repo = chk.repo
        self.g = Graph(repo)
        self.cg = self.g.cg
        self.et = ExcTypes(repo)
        self.orig_funcs = [f for f in self.cg.funcs.values() if "@" not in f.fq]
        self.entries = self._entries()

    # entry points by role
    def _entries(self) -> Dict[str, object]:
        repo, cg = self.repo, self.cg
        out: Dict[str, object] = {}
        L = repo.cls(LINTER, "Linter")
        for item in L.body:
            if isinstance(item, FuncNode) and not item.name.startswith("_"):
                out["Linter." + item.name] = cg.by_node[id(item)]
        for need in ("parse_string", "lint_string", "lint_paths", "parse_path", "render_string"):
            repo.fn(LINTER, "Linter." + need)
        sm = repo.mod(SIMPLE)
        for q, f in sm.functions():
            if "." not in q and not q.startswith("_"):
                out["api.simple." + q] = cg.by_node[id(f)]
        for need in ("lint", "fix", "parse"):
            repo.fn(SIMPLE, need)
        cm = repo.mod(COMMANDS)
        ncmd = 0
        for q, f in cm.functions():
            if "." in q:
                continue
            for d in f.decorator_list:
                t = d.func if isinstance(d, ast.Call) else d
                if isinstance(t, ast.Attribute) and t.attr == "command" and isinstance(t.value, ast.Name) and t.value.id in cm.defs:
                    out["cli." + q] = cg.by_node[id(f)]
                    ncmd += 1
        for need in ("lint", "fix", "parse", "cli_format"):
            if "cli." + need not in out:
                raise AnalysisError(f"CLI command {need} not found by role (@cli.command) in {COMMANDS}")
        self.chk.count("R04a.entry_points", len(out))
        self.chk.count("R04a.cli_commands", ncmd)
        self.chk.floor("R04a.entry_points", 20)
        return out

    def entry_fi(self, label: str):
        """Function(s) through which an entry point is entered (its outermost wrapper if decorated)."""
        fi = self.entries[label]
        return self.g.entry_of.get(fi.fq, [fi])

    def sites(self, known, scope_prefixes: Optional[Tuple[str, ...]] = None, factory_params: bool = True) -> List[Site]:
        out: List[Site] = []
        for fi in self.orig_funcs:
            if scope_prefixes and not fi.relpath.startswith(scope_prefixes):
                continue
            for n in walk_local(fi.node):
                if isinstance(n, ast.Raise) and n.exc is not None:
                    t = _raised_name(fi, n, known)
                    if t is None and factory_params:
                        t = _factory_param_type(self.repo, fi, n, known)
                    if t:
                        out.append(Site(t, n, fi, _msg_head(n)))
        return out

    def cuts(self) -> Dict[Tuple[str, str], Set[str]]:
        out: Dict[Tuple[str, str], Set[str]] = {}
        for (a, b, t) in CUTS:
            out.setdefault((a, b), set()).add(t)
        return out


def run(chk) -> None:
    chk.rule("R04a", "every raise of SQLParseError / SQLLexError / SQLTemplaterError / SQLFluffSkipFile reachable from a public entry point (Linter methods, api.simple, CLI commands) meets a converting handler on every call chain; log-only catch-alls count as degraded, not as handling")
    chk.rule("R04b", "every call of LintedFile.fix_string() is dominated by a test that implies a tree and a templated file")
    chk.rule("R04c", "depth and node-budget comparisons dominate the work they guard and raise a handled error type; every recursion cycle of the matching code passes through `with deeper_match(..)`; the token count is charged to the node budget before matching")
    chk.rule("R04d", "explicit raises of builtin exception types on the parse/lint path that reach an entry point unhandled equal the reviewed table (no new unhandled ValueError/TypeError/RuntimeError/NotImplementedError)")
    w = World(chk)
    chk.extra["call_graph"] = {**w.cg.stats(), "surfaces": dict(sorted(w.g.stats.items()))}
    _r04a(chk, w)
    _r04b(chk, w)
    _r04c(chk, w)
    _r04d(chk, w)
    chk.rule("R04e", "every place where the templaters run the user's template code (Jinja parse / render / speculative variant trace, str.format of the python templater) sits in a handler that takes whatever that code can raise and turns it into a templating error (or, for a speculative variant, drops the variant)")
    _r04e(chk)
    chk.rule("R04f", "outside the rule packages (which convert their own failures) no `next(it)` without a default can let StopIteration escape: the iterator is endless (itertools.count), the call sits in a try that takes StopIteration, or the site is reviewed")
    chk.rule("R04g", "a tuple-unpacking of a str.split / rsplit result has exactly as many targets as the split can produce: maxsplit == targets - 1 and the separator is known to be present (dominating `sep in s`) or ValueError is handled")
    _r04f(chk)
    _r04g(chk)
    chk.rule("R04i", "the python templater hands the raw string to its format-string slicer (string.Formatter().parse, bare ValueError on an unbalanced brace, no handler) only after the render call -- whose handlers convert the same failure to a templating error -- has accepted that string: the render_func call dominates every _slice_template call")
    chk.rule("R04h", "a variant's tree is handed to lint_fix_parsed only where it is known to exist: every call whose tree argument is `<variant>.tree` (None after a fatal parse failure) is dominated by a truthiness test or an assert of that same attribute")
    _r04h(chk)
    _r04i(chk)


# ---------------------------------------------------------------------------
# R04f / R04g: two small builtin failure shapes on the linting path
# ---------------------------------------------------------------------------
R04FG_SCOPES = ("src/sqlfluff/core/", "src/sqlfluff/api/", "src/sqlfluff/cli/")
R04F_REVIEWED = {
    ("src/sqlfluff/core/templaters/jinja.py", "DBTTestExtension.parse", "next(parser.stream)"):
        "jinja2 extension protocol: parse() is called with the stream on the tag-name token; TokenStream.__next__ returns the current token and never raises "
        "StopIteration before EOF (at EOF it closes and keeps returning the eof token)",
}


def _r04i(chk) -> None:
    """The python templater's raw slicer parses the same format string the render step formats.

    ``string.Formatter().parse`` raises a bare ValueError on an unbalanced brace; the slicer has no handler of its
    own because str.format -- inside render_func, whose handlers convert to SQLTemplaterError -- rejects exactly
    those strings first.  That only holds while the render call dominates the slicer call.
    """
    repo = chk.repo
    m = repo.mod("src/sqlfluff/core/templaters/python.py")
    sl = repo.fn("src/sqlfluff/core/templaters/python.py", "PythonTemplater._slice_template")
    from ..flowutil import sole_expr_origin

    scfg = cfg_of(sl)

    def _is_formatter(e: ast.AST, at) -> bool:
        if isinstance(e, ast.Name):
            e = sole_expr_origin(scfg, e, at) or e
        return isinstance(e, ast.Call) and last_attr(e) == "Formatter"

    parses = [c for c in calls_in(sl) if last_attr(c) == "parse" and isinstance(c.func, ast.Attribute) and _is_formatter(c.func.value, scfg.stmt_of(c))]
    if not parses:
        raise AnalysisError("R04i: PythonTemplater._slice_template no longer walks string.Formatter().parse; re-confirm what it can raise")
    if any(_in_try_taking(c, {"ValueError", "Exception"}) for c in parses) and all(_in_try_taking(c, {"ValueError", "Exception"}) for c in parses):
        chk.note("R04i: the slicer handles ValueError itself; call order is free")
        return
    from ..flowutil import param_origin

    def _params(f) -> List[str]:
        return [a.arg for a in f.args.posonlyargs + f.args.args]

    def _same_value(cfg, a, at_a, b, at_b) -> bool:
        """Both read the same string: the same text, or locals that can only hold the same unmodified parameter."""
        pa, pb = param_origin(cfg, a, at_a), param_origin(cfg, b, at_b)
        if pa is not None or pb is not None:
            return pa == pb
        return norm(a) == norm(b)

    def _render_param(cfg, fn, at, params) -> bool:
        """The callee is the render parameter, directly or through a local that only holds it."""
        if not isinstance(fn, ast.Name):
            return False
        po = param_origin(cfg, fn, at)
        return po is not None and po in params and po.startswith("render")

    n = 0
    # (method name, position of the sliced string among its non-self parameters, keyword name)
    work = [("_slice_template", 0, _params(sl)[1] if len(_params(sl)) > 1 else "in_str")]
    seen = set()
    fns = [(q, f) for q, f in m.functions() if q.startswith("PythonTemplater.")]
    while work:
        name, pos, kw = work.pop()
        if name in seen:
            continue
        seen.add(name)
        for q, f in fns:
            cs = [c for c in calls_in(f) if last_attr(c) == name and arg_of(c, pos, kw) is not None]
            if not cs:
                continue
            cfg = cfg_of(f)
            params = {a.arg for a in f.args.posonlyargs + f.args.args + f.args.kwonlyargs}
            for c in cs:
                n += 1
                st = cfg.stmt_of(c)
                a = arg_of(c, pos, kw)
                arg = norm(a)
                renders = [
                    r for r in calls_in(f)
                    if r.args and _render_param(cfg, r.func, cfg.stmt_of(r), params) and _same_value(cfg, r.args[0], cfg.stmt_of(r), a, st)
                ]
                ok = any(cfg.stmt_of(r) is not st and cfg.dominates(cfg.stmt_of(r), st) for r in renders)
                if not ok and not renders and not any(_render_param(cfg, r.func, cfg.stmt_of(r), params) for r in calls_in(f)):
                    # a helper that only forwards its own parameter to the slicer (no render step of its
                    # own): it is a slicer itself, and every call of it must come after the render
                    po = param_origin(cfg, a, st)
                    own = [x for x in _params(f) if x not in ("self", "cls")]
                    callers = [c2 for _, g in fns for c2 in calls_in(g) if last_attr(c2) == f.name]
                    if po is not None and po in own and callers and f.name not in seen:
                        work.append((f.name, own.index(po), po))
                        continue
                chk.require(
                    ok, "R04i", c,
                    f"{q} slices `{arg}` with string.Formatter().parse before (or without) rendering it: an unbalanced brace raises a bare ValueError from the slicer, which has no "
                    "handler because the render step -- whose handlers turn the same failure into a SQLTemplaterError / TMP violation -- was meant to reject the string first",
                    detail=f"{q}: render_func dominates the raw slicer",
                )
    chk.count("R04i.slicer_calls", n)
    chk.floor("R04i.slicer_calls", 1)


def _in_try_taking(node: ast.AST, names: Set[str]) -> bool:
    child, par = node, parent(node)
    while par is not None and not isinstance(par, (ast.FunctionDef, ast.AsyncFunctionDef, ast.Lambda)):
        if isinstance(par, ast.Try) and any(child is b or any(child is x for x in ast.walk(b)) for b in par.body):
            for h in par.handlers:
                if _handler_names(h) & (names | {"Exception", "BaseException"}):
                    return True
        child, par = par, parent(par)
    return False


def _r04h(chk) -> None:
    from ..idioms import conditions_at

    repo = chk.repo
    n = 0
    m = repo.mod("src/sqlfluff/core/linter/linter.py")
    for q, f in m.functions():
        cs = [c for c in calls_in(f) if last_attr(c) == "lint_fix_parsed" and (c.args or kwarg(c, "tree") is not None)]
        if not cs:
            continue
        cfg = cfg_of(f)
        for c in cs:
            a = kwarg(c, "tree") or c.args[0]
            if isinstance(a, ast.Name):
                os_ = origins(cfg, a, cfg.stmt_of(c))
                if len(os_) == 1 and os_[0].kind == "expr" and isinstance(os_[0].expr, ast.Attribute):
                    a = os_[0].expr
            if not (isinstance(a, ast.Attribute) and a.attr == "tree"):
                continue  # a parameter of the caller: its own callers are judged
            n += 1
            st = cfg.stmt_of(c)
            text = norm(a)
            known = False
            for e, pol in conditions_at(cfg, st):
                if isinstance(e, ast.UnaryOp) and isinstance(e.op, ast.Not):
                    e, pol = e.operand, not pol
                if isinstance(e, ast.Compare) and len(e.ops) == 1 and isinstance(e.comparators[0], ast.Constant) and e.comparators[0].value is None:
                    if isinstance(e.ops[0], ast.IsNot):
                        e = e.left
                    elif isinstance(e.ops[0], ast.Is):
                        e, pol = e.left, not pol
                if pol and norm(e) == text:
                    known = True
            for x in walk_local(f):
                if isinstance(x, ast.Assert) and cfg.dominates(x, st):
                    t = x.test
                    if isinstance(t, ast.Compare) and len(t.ops) == 1 and isinstance(t.ops[0], ast.IsNot):
                        t = t.left
                    if norm(t) == text:
                        known = True
            chk.require(
                known, "R04h", c,
                f"{q} hands `{text}` to lint_fix_parsed without a dominating test that this variant has a tree: a variant whose parse failed fatally (unclosed bracket in an "
                "un-taken branch, depth / node limit) has tree = None and the call dies with an AttributeError that nothing converts",
                detail=f"{q}: lint_fix_parsed gets a tree that is known to exist",
            )
    chk.count("R04h.variant_tree_call_sites", n)
    chk.floor("R04h.variant_tree_call_sites", 2)


def _r04f(chk) -> None:
    repo = chk.repo
    n = n_endless = n_try = n_tab = 0
    for pre in R04FG_SCOPES:
        for m in repo.iter_modules(pre):
            if m.relpath.startswith("src/sqlfluff/core/rules/") and not m.relpath.endswith(("noqa.py", "fix.py", "base.py")):
                pass
            for q, f in m.functions():
                cs = [c for c in calls_in(f) if isinstance(c.func, ast.Name) and c.func.id == "next" and len(c.args) == 1 and not c.keywords]
                if not cs:
                    continue
                cfg = cfg_of(f)
                for c in cs:
                    n += 1
                    a = c.args[0]
                    endless = False
                    if isinstance(a, ast.Name):
                        os_ = origins(cfg, a, cfg.stmt_of(c))
                        glob = m.defs.get(a.id) if hasattr(m, "defs") else None
                        exprs = [o.expr for o in os_ if o.kind == "expr"]
                        if not exprs or any(o.kind == "unknown" for o in os_):
                            # a module-level name: look at its module-level definition
                            for st in m.tree.body:
                                if isinstance(st, ast.Assign) and any(isinstance(t, ast.Name) and t.id == a.id for t in st.targets):
                                    exprs = [st.value]
                        endless = bool(exprs) and all(isinstance(e, ast.Call) and (call_name(e) or "").split(".")[-1] in ("count", "cycle", "repeat") for e in exprs)
                    if endless:
                        n_endless += 1
                        continue
                    if _in_try_taking(c, {"StopIteration"}):
                        n_try += 1
                        continue
                    if (m.relpath, q, norm(c)) in R04F_REVIEWED:
                        n_tab += 1
                        continue
                    chk.fail(
                        "R04f", c,
                        f"{q}: `{short(c, 60)}` has no default and no handler: when the iterator is empty StopIteration leaves the function as is (inside a generator it even becomes "
                        "a RuntimeError) and reaches the caller of lint / fix as a traceback instead of a violation",
                        detail=f"{q}: {norm(c)[:80]} cannot let StopIteration escape",
                    )
    chk.count("R04f.next_without_default", n)
    chk.count("R04f.endless_iterators", n_endless)
    chk.count("R04f.in_try", n_try)
    chk.count("R04f.reviewed", n_tab)
    chk.floor("R04f.next_without_default", 2)


def _r04g(chk) -> None:
    from ..idioms import conditions_at

    repo = chk.repo
    n = 0
    for pre in R04FG_SCOPES:
        for m in repo.iter_modules(pre):
            for q, f in m.functions():
                cfg = None
                for st in walk_local(f):
                    if not (isinstance(st, ast.Assign) and len(st.targets) == 1 and isinstance(st.targets[0], (ast.Tuple, ast.List))):
                        continue
                    tg = st.targets[0]
                    if any(isinstance(e, ast.Starred) for e in tg.elts):
                        continue
                    v = st.value
                    # the split call itself, or the single iterable of a generator / comprehension / map over it
                    sp = None
                    if isinstance(v, (ast.GeneratorExp, ast.ListComp)) and len(v.generators) == 1 and not v.generators[0].ifs:
                        v = v.generators[0].iter
                    elif isinstance(v, ast.Call) and call_name(v) in ("map", "tuple", "list") and v.args:
                        v = v.args[-1]
                    if isinstance(v, ast.Call) and isinstance(v.func, ast.Attribute) and v.func.attr in ("split", "rsplit") and not norm(v.func.value).startswith(("os.path", "posixpath", "ntpath")):
                        sp = v
                    if sp is None:
                        continue
                    n += 1
                    cfg = cfg or cfg_of(f)
                    k = len(tg.elts)
                    sep = sp.args[0] if sp.args else kwarg(sp, "sep")
                    ms = sp.args[1] if len(sp.args) > 1 else kwarg(sp, "maxsplit")
                    upper = isinstance(ms, ast.Constant) and ms.value == k - 1
                    recv = norm(sp.func.value)
                    lower = False
                    if sep is not None:
                        for e, pol in conditions_at(cfg, st):
                            if pol and isinstance(e, ast.Compare) and len(e.ops) == 1 and isinstance(e.ops[0], ast.In) and norm(e.left) == norm(sep) and norm(e.comparators[0]) == recv:
                                lower = True
                    handled = _in_try_taking(st, {"ValueError"})
                    chk.require(
                        (upper and lower) or handled, "R04g", st,
                        f"{q}: `{short(st, 70)}` unpacks into {k} names what "
                        + ("can be more pieces (no maxsplit of " + str(k - 1) + ")" if not upper else "can be fewer pieces (the separator is not known to be present)")
                        + ": for such a text the assignment raises ValueError, which nothing on the way to lint / fix converts",
                        detail=f"{q}: split unpacked into {k} names yields exactly {k} pieces",
                    )
    chk.count("R04g.split_unpackings", n)
    chk.floor("R04g.split_unpackings", 1)


# ---------------------------------------------------------------------------
# R04e
# ---------------------------------------------------------------------------

JINJA_T = "src/sqlfluff/core/templaters/jinja.py"
PYTHON_T = "src/sqlfluff/core/templaters/python.py"
# what str.format can raise for a field the context cannot satisfy or a bad conversion / spec
FORMAT_ERRORS = {"KeyError", "IndexError", "AttributeError", "TypeError", "ValueError"}


def _handler_names(h: ast.ExceptHandler) -> Set[str]:
    if h.type is None:
        return {"BaseException"}
    ts = h.type.elts if isinstance(h.type, ast.Tuple) else [h.type]
    return {norm(t).split(".")[-1] for t in ts}


def _enclosing_tries(node, stop):
    p, child = getattr(node, "_parent", None), node
    while p is not None and p is not stop:
        if isinstance(p, ast.Try) and child in p.body:
            yield p
        child, p = p, getattr(p, "_parent", None)


def _r04e(chk) -> None:
    """Rendering a template executes code the user wrote: `{{ 1 // 0 }}`, `{{ 10.0 ** 400 }}`, a macro
    that indexes a missing element, a format field `{a[5]}`.  The property wants a TMP violation, so the
    call that runs it must be covered by a handler for (at least) Exception -- a closed list of types is
    a crash for every type not on it -- whose body raises SQLTemplaterError or, on the path that renders
    speculative variants of unreached branches, abandons the variant."""
    repo = chk.repo
    sites = []  # (function, call, what, needed types, mode)
    proc = repo.fn(JINJA_T, "JinjaTemplater.process")
    for c in calls_in(proc):
        la = last_attr(c)
        if la == "slice_file" and isinstance(c.func, ast.Attribute):
            sites.append((proc, c, "render and slice the template", {"Exception"}, "translate"))
        if la == "parse" and isinstance(c.func, ast.Attribute) and norm(c.func.value).endswith("env"):
            sites.append((proc, c, "parse the template", {"Exception"}, "translate"))
    unreached = repo.fn(JINJA_T, "JinjaTemplater._handle_unreached_code")
    for c in calls_in(unreached):
        if last_attr(c) == "trace" and isinstance(c.func, ast.Attribute):
            sites.append((unreached, c, "render a speculative variant", {"Exception"}, "drop"))
    pyproc = repo.fn(PYTHON_T, "PythonTemplater.process")
    for fn in [n for n in ast.walk(pyproc) if isinstance(n, (ast.FunctionDef, ast.Lambda))]:
        if fn is pyproc:
            continue
        for c in calls_in(fn):
            if last_attr(c) in ("format", "format_map", "vformat") and isinstance(c.func, ast.Attribute) and (c.keywords or c.args):
                if any(k.arg is None for k in c.keywords) or last_attr(c) != "format":
                    need = set(FORMAT_ERRORS)
                    if last_attr(c) == "format_map":
                        # format_map is used with a mapping that answers for missing names itself (the
                        # ignore=templating fallback): a missing name is not an error on that path
                        need.discard("KeyError")
                    sites.append((fn, c, "str.format with the user's context", need, "translate"))
    chk.count("R04e.template_code_sites", len(sites))
    chk.floor("R04e.template_code_sites", 4)
    for fn, c, what, need, mode in sites:
        covered: Set[str] = set()
        bodies = []
        for t in _enclosing_tries(c, fn):
            for h in t.handlers:
                names = _handler_names(h)
                reraise_only = len(h.body) == 1 and isinstance(h.body[0], ast.Raise) and h.body[0].exc is None
                if reraise_only:
                    continue  # a pass-through arm (e.g. `except SQLFluffSkipFile: raise`) converts nothing
                covered |= names
                bodies.append((names, h))
        if "Exception" in covered or "BaseException" in covered:
            missing = set()
        else:
            missing = need - covered if need != {"Exception"} else {"Exception"}
        ok = not missing
        why = f"not covered: {sorted(missing)}" if missing else ""
        if ok:
            # the covering handlers must convert (raise SQLTemplaterError) or, for variants, go on
            for names, h in bodies:
                if not (names & (need | {"Exception", "BaseException"})):
                    continue
                raises = [r for r in ast.walk(h) if isinstance(r, ast.Raise) and r.exc is not None]
                converts = any(isinstance(r.exc, ast.Call) and norm(r.exc.func).split(".")[-1] == "SQLTemplaterError" for r in raises) or any(
                    isinstance(r.exc, ast.Name) for r in raises
                )
                if mode == "translate" and not converts:
                    ok, why = False, f"the handler for {sorted(names)} does not raise SQLTemplaterError"
                if mode == "drop" and raises:
                    ok, why = False, f"the handler for {sorted(names)} re-raises instead of abandoning the variant"
        loc_fn = getattr(fn, "name", "<lambda>")
        chk.require(
            ok, "R04e", c,
            f"{loc_fn}: `{short(c, 60)}` runs the user's template code ({what}) but {why}: an exception of another type raised by that code escapes parse/lint/fix "
            "as a traceback instead of a TMP violation",
            detail=f"{loc_fn}: {what} is inside a converting catch-all",
        )


# ---------------------------------------------------------------------------
# R04a
# ---------------------------------------------------------------------------


def _block_always_raises(body: List[ast.stmt]) -> Optional[List[ast.Raise]]:
    """Raise statements ending every path through ``body`` (None if some path falls through)."""
    if not body:
        return None
    last = body[-1]
    if isinstance(last, ast.Raise):
        return [last]
    if isinstance(last, ast.If) and last.orelse:
        a, b = _block_always_raises(last.body), _block_always_raises(last.orelse)
        if a is not None and b is not None:
            return a + b
    # if .. : raise A   (fallthrough)  raise B
    return None


def _all_exit_raises(body: List[ast.stmt]) -> Optional[List[ast.Raise]]:
    """Like _block_always_raises but also collecting early `if c: raise X` exits."""
    tail = _block_always_raises(body)
    if tail is None:
        return None
    out = list(tail)
    for s in body[:-1]:
        for n in [s] + list(walk_local(s)):
            if isinstance(n, ast.Raise):
                out.append(n)
            if isinstance(n, (ast.Return, ast.Continue, ast.Break)):
                return None
    return out


def _classify(w: World, a: Absorb) -> Tuple[str, str]:
    """(class, explanation) of the handler that absorbs ``a.site``:
    convert | translate | verdict | skip | degraded | swallowed | foreign"""
    h, t = a.handler, a.site.etype
    f = a.func.node
    cons = construct_of(h)
    if t == SKIP:
        return _classify_skip(w, a)
    if (cons, t) in VERDICT_HANDLERS:
        return "verdict", VERDICT_HANDLERS[(cons, t)]
    known = lambda n: w.et.is_exception(n)  # noqa: E731
    rs = _all_exit_raises(h.body)
    if rs is not None:
        names = [_raised_name(a.func, r, known) for r in rs]
        if all(n in TRANSLATION_TARGETS for n in names):
            return "translate", "raises " + "/".join(sorted(set(names)))
        return "foreign", "re-raises as " + "/".join(sorted({n or "?" for n in names}))
    # conversion: the caught object (or a repo error built here) goes into a list the function returns
    carriers: Set[str] = set()
    if h.name:
        carriers.add(h.name)
    for n in _walk_body(h.body):
        if isinstance(n, ast.Assign) and isinstance(n.value, ast.Call) and norm(n.value.func).split(".")[-1] in TRANSLATION_TARGETS:
            for tg in n.targets:
                if isinstance(tg, ast.Name):
                    carriers.add(tg.id)

    for _ in range(3):
        for n in _walk_body(h.body):
            if isinstance(n, ast.Assign) and isinstance(n.value, ast.Name) and n.value.id in carriers:
                for tg in n.targets:
                    if isinstance(tg, ast.Name):
                        carriers.add(tg.id)

    def is_carrier(e: ast.AST) -> bool:
        if isinstance(e, ast.Name) and e.id in carriers:
            return True
        return isinstance(e, ast.Call) and norm(e.func).split(".")[-1] in TRANSLATION_TARGETS

    lists: Set[str] = set()
    direct = False
    for n in _walk_body(h.body):
        if isinstance(n, ast.Call) and isinstance(n.func, ast.Attribute) and n.func.attr in ("append", "add") and n.args and is_carrier(n.args[0]) and isinstance(n.func.value, ast.Name):
            lists.add(n.func.value.id)
        elif isinstance(n, ast.AugAssign) and isinstance(n.target, ast.Name) and isinstance(n.value, (ast.List, ast.Tuple)) and any(is_carrier(x) for x in n.value.elts):
            lists.add(n.target.id)
        elif isinstance(n, ast.Call) and isinstance(n.func, ast.Attribute) and n.func.attr == "extend" and len(n.args) == 1 and isinstance(n.args[0], (ast.List, ast.Tuple)) \
                and any(is_carrier(x) for x in n.args[0].elts) and isinstance(n.func.value, ast.Name):
            lists.add(n.func.value.id)  # xs.extend([err])
        elif isinstance(n, ast.Assign) and len(n.targets) == 1 and isinstance(n.targets[0], ast.Name) and isinstance(n.value, ast.BinOp) and isinstance(n.value.op, ast.Add) \
                and any(isinstance(side, (ast.List, ast.Tuple)) and any(is_carrier(x) for x in side.elts) for side in (n.value.left, n.value.right)):
            lists.add(n.targets[0].id)  # xs = xs + [err]: the new list is what must be returned
        elif isinstance(n, ast.Return) and n.value is not None:
            for x in ast.walk(n.value):
                if isinstance(x, (ast.List, ast.Tuple)) and any(is_carrier(y) for y in x.elts) and isinstance(x, ast.List):
                    direct = True
    if direct:
        return "convert", "returned inside a list literal"
    for n in _walk_body(h.body):
        # handed, together with the list, to a helper: record(violations, err)
        if isinstance(n, ast.Call) and not (isinstance(n.func, ast.Attribute) and n.func.attr in ("append", "add")):
            args = list(n.args) + [k.value for k in n.keywords]
            if any(is_carrier(x) for x in args):
                for x in args:
                    if isinstance(x, ast.Name) and x.id not in carriers:
                        lists.add(x.id + "\0helper")
    for name in sorted(lists):
        via_helper = name.endswith("\0helper")
        name = name.split("\0")[0]
        if via_helper:
            # only a local that is a list display / list() somewhere in the function
            if not any(isinstance(d, (ast.Assign, ast.AnnAssign)) and isinstance(d.value, (ast.List, ast.ListComp)) and any(isinstance(t, ast.Name) and t.id == name for t in (d.targets if isinstance(d, ast.Assign) else [d.target])) for d in walk_local(f)):
                continue
        for r in walk_local(f):
            if isinstance(r, (ast.Return, ast.Yield)) and r.value is not None and any(isinstance(x, ast.Name) and x.id == name for x in ast.walk(r.value)):
                return "convert", (f"handed with `{name}` to a helper; " if via_helper else "appended to ") + f"`{name}`, which the function returns"
    if w.et.is_broad(h.type):
        return "degraded", "log-only catch-all"
    return "swallowed", "handler drops the error"


def _classify_skip(w: World, a: Absorb) -> Tuple[str, str]:
    """A skip is a per-file verdict, not a violation: the handler must leave the file
    without a result (count it / forward it / go on to the next file / return nothing).
    A handler that falls through lets the function return a result object that has
    neither a tree nor a violation — the consumers that read "no violation" as
    "parsed" (api.parse, api.fix, the render command) then fail on an assertion."""
    h = a.handler
    for s in h.body:
        if isinstance(s, ast.AugAssign) and isinstance(s.op, ast.Add) and isinstance(s.target, ast.Attribute):
            return "skip", "counted (C34 R34c checks which counter)"
        if isinstance(s, ast.Assign) and len(s.targets) == 1 and isinstance(s.targets[0], ast.Attribute) and isinstance(s.value, ast.BinOp) and isinstance(s.value.op, ast.Add) \
                and norm(s.targets[0]) in (norm(s.value.left), norm(s.value.right)):
            return "skip", "counted, spelled x = x + 1 (C34 R34c checks which counter)"
        if isinstance(s, (ast.Continue, ast.Break)):
            return "skip", "goes on to the next file"
        if isinstance(s, ast.Raise):
            return "skip", "raises"
        if isinstance(s, ast.Expr) and isinstance(s.value, ast.Call) and call_name(s.value) in ("sys.exit", "exit", "os._exit") :
            return "skip", "ends the command with an exit code"
        if isinstance(s, ast.Return):
            if s.value is None or (isinstance(s.value, ast.Constant) and s.value.value is None):
                return "skip", "returns nothing for the file"
            if isinstance(s.value, ast.Call) and h.name and any(isinstance(x, ast.Name) and x.id == h.name for x in ast.walk(s.value)):
                return "skip", "forwarded as a value to the dispatching arm (C34 R34c)"
            return "swallowed", "returns a result for the skipped file"
        if isinstance(s, ast.Expr) and isinstance(s.value, ast.Call) and h.name and any(isinstance(x, ast.Name) and x.id == h.name for x in s.value.args) and last_attr(s.value).startswith("_handle"):
            return "skip", "handed to the runners' shared funnel (C24 R24d)"
    nxt = _falls_through_to(a.func.node, h)
    if nxt == "loop":
        return "skip", "goes on to the next file (nothing of the loop body follows the handler)"
    if nxt == "exit":
        return "skip", "returns nothing for the file (the function ends after the handler)"
    return "swallowed", "the function goes on and returns a result without tree and without violation for the skipped file"


def _falls_through_to(f: ast.AST, h: ast.ExceptHandler) -> Optional[str]:
    """Where control goes when the handler body ends normally: 'loop' when every such edge leads
    straight back to the head of the innermost enclosing loop (``try: .. except Skip: log() else:
    <use the file>``: the same as ``continue``), 'exit' when it leads straight to the normal end of
    the function, else None."""
    from ..cfg import Branch, Synthetic

    if not h.body or not isinstance(h.body[-1], (ast.Expr, ast.Assign, ast.AugAssign, ast.AnnAssign, ast.Pass)):
        return None
    cfg = cfg_of(f)
    loop = None
    p = parent(h)
    while p is not None and p is not f:
        if isinstance(p, (ast.For, ast.AsyncFor, ast.While)):
            loop = p
            break
        p = parent(p)
    kinds = set()
    for n in cfg.succ.get(h.body[-1], ()):
        if n is cfg.raise_exit or (isinstance(n, Branch) and isinstance(n.stmt, ast.ExceptHandler)):
            continue  # where an exception raised by the statement itself would go
        if loop is not None and n is loop:
            kinds.add("loop")
        elif n is cfg.exit:
            kinds.add("exit")
        else:
            return None
    return kinds.pop() if len(kinds) == 1 else None


def _walk_body(body: List[ast.stmt]):
    for s in body:
        yield s
        yield from walk_local(s)


def _minimal_entries(w: World, fl: Flow, key, labels: List[str]) -> List[str]:
    """Entries from which the site escapes and whose chain passes no other such entry."""
    fq_of = {}
    for lb in labels:
        for fi in w.entry_fi(lb):
            fq_of[fi.fq] = lb
        fq_of[w.entries[lb].fq] = lb
    out = []
    for lb in labels:
        hit = False
        for start in w.entry_fi(lb):
            ch = fl.chain(start.fq, key)
            if any(fq_of.get(x) not in (None, lb) for x in ch[1:]):
                hit = True
        if not hit:
            out.append(lb)
    return out or labels


def _r04a(chk, w: World) -> None:
    known = lambda n: n in REPO_TYPES  # noqa: E731
    sites = w.sites(known)
    by_type: Dict[str, int] = {}
    for s in sites:
        by_type[s.etype] = by_type.get(s.etype, 0) + 1
    for t in REPO_TYPES:
        chk.count(f"R04a.raise_sites.{t}", by_type.get(t, 0))
    chk.floor("R04a.raise_sites.SQLParseError", 6)
    chk.floor("R04a.raise_sites.SQLLexError", 1)
    chk.floor("R04a.raise_sites.SQLTemplaterError", 6)
    chk.floor("R04a.raise_sites.SQLFluffSkipFile", 4)
    fl = Flow(w.g, w.et, sites, w.cuts())
    used = fl.cut_used
    w.flow_a = fl
    # unknown flows that involve a function which can raise one of the four types
    may = {fq for fq, d in fl.escapes.items() if d}
    rel_unknown = [u for u in w.g.unknown if any(fq in u for fq in may if fq.count(".") > 2)]
    chk.count("R04a.unmodelled_value_flows_of_raising_functions", len(rel_unknown))
    for u in rel_unknown[:5]:
        chk.note("not modelled (never alarmed on): " + u)
    chk.count("R04a.functions_that_may_raise", len(may))
    for (a, b, t) in CUTS:
        if (a, b, t) not in used:
            chk.note(f"stale CUTS entry (no such chain any more): {a} -> {b} [{t}]")

    # (i) escapes at entry points
    esc_by_site: Dict[Tuple[str, int], List[str]] = {}
    for lb in w.entries:
        for fi in w.entry_fi(lb):
            for s in fl.escaping(fi.fq):
                if (lb, s.etype) in CONTRACT:
                    chk.ok("R04a", lb, f"{s.etype} raised by contract: {CONTRACT[(lb, s.etype)]}")
                    continue
                esc_by_site.setdefault(s.key, [])
                if lb not in esc_by_site[s.key]:
                    esc_by_site[s.key].append(lb)
    n_plugin = 0
    for key, labels in esc_by_site.items():
        s = fl.sites[key]
        mins = sorted(_minimal_entries(w, fl, key, labels))
        start = w.entry_fi(mins[0])[0]
        frames = fl.chain(start.fq, key)
        chain = " -> ".join(_short_fq(x) for x in frames)
        others = sorted(set(labels) - set(mins))
        if not all(w.cg.funcs[x].relpath.startswith(CORE) for x in frames) or not s.func.relpath.startswith(CORE):
            # plugin code cannot be exercised in this sandbox (dbt / sqlmesh are not installed):
            # reported as evidence, not as a violation
            n_plugin += 1
            chk.note(f"plugin chain without handler (not alarmed, no runnable witness): {s.etype} '{s.label}' raised in {_short_fq(s.func.fq)} escapes {', '.join(mins)} via {chain}")
            chk.sample({"rule": "R04a", "plugin_chain": chain, "type": s.etype, "escapes": mins + others}, limit=8)
            continue
        chk.fail(
            "R04a", s.node,
            f"{s.etype} ('{s.label}') raised in {_short_fq(s.func.fq)} escapes {', '.join(mins)} with no handler on the chain {chain}"
            + (f"; it goes on to escape {', '.join(others)}" if others else "")
            + ": the caller gets a traceback instead of a result with a violation",
            detail=f"{s.etype} '{s.label}' escapes {', '.join(mins)}",
        )
    escaped_keys = set(esc_by_site)

    # (ii) every absorbing handler on the way is classified
    per_handler: Dict[int, Dict[str, object]] = {}
    n_conv = 0
    for a in fl.absorbed:
        kind, why = _classify(w, a)
        rec = per_handler.setdefault(id(a.handler), {"h": a.handler, "f": a.func, "kinds": {}, "sites": []})
        rec["kinds"].setdefault((a.site.etype, kind), why)
        rec["sites"].append((a.site, kind))
    for rec in per_handler.values():
        h, f = rec["h"], rec["f"]
        htxt = f"except {norm(h.type) if h.type is not None else ''}".strip()
        for (t, kind), why in sorted(rec["kinds"].items()):
            sts = [s for s, k in rec["sites"] if s.etype == t and k == kind]
            label = f"{htxt} absorbs {t}"
            if kind != "skip":
                chk.sample({"rule": "R04a", "handler": f"{h._module.relpath}:{h.lineno}", "in": _short_fq(f.fq), "type": t, "class": kind, "why": why, "raise_sites": len(sts)}, limit=8)
            if kind in ("convert", "translate", "verdict", "skip"):
                chk.ok("R04a", construct_of(h), f"{label}: {kind} ({why})")
                n_conv += kind in ("convert", "translate")
                continue
            fresh = [s for s in sts if s.key not in escaped_keys]
            plug = [s for s in fresh if not (s.func.relpath.startswith(CORE) and f.relpath.startswith(CORE))]
            if plug and len(plug) == len(fresh):
                n_plugin += 1
                chk.note(f"plugin chain ends in a non-converting handler (not alarmed): {label} in {_short_fq(f.fq)} ({kind}) from " + "; ".join(sorted({_short_fq(x.func.fq) for x in plug})))
                continue
            fresh = [s for s in fresh if s not in plug]
            if not fresh:
                chk.note(f"{_short_fq(f.fq)}: {label} only for sites already reported as escaping ({kind})")
                continue
            srcs = sorted({f"{_short_fq(s.func.fq)} '{s.label}'" for s in fresh})
            if kind == "degraded":
                # the defect is on the chain of each source: one finding per raising function
                for fn_name in sorted({_short_fq(s.func.fq) for s in fresh}):
                    mine = sorted({s.label for s in fresh if _short_fq(s.func.fq) == fn_name})
                    chk.fail("R04a", h, f"{t} raised in {fn_name} ({'; '.join(mine)}) is only caught by the log-only catch-all `{htxt}` in {_short_fq(f.fq)}: the file's result is lost and no violation is reported",
                             detail=f"{label} from {fn_name} (degraded)")
                continue
            msg = {
                "swallowed": f"`{htxt}` in {_short_fq(f.fq)} drops {t} (from {'; '.join(srcs)}): {why}",
                "foreign": f"`{htxt}` in {_short_fq(f.fq)} turns {t} into an exception type that no caller converts ({why})",
            }[kind]
            chk.fail("R04a", h, msg, detail=f"{label} ({kind})")
    chk.count("R04a.plugin_chains_unhandled", n_plugin)
    chk.count("R04a.absorbing_handlers", len(per_handler))
    chk.count("R04a.converting_handlers", n_conv)
    # non-vacuity: each of the three violation-carrying types is seen to reach a converting
    # handler of the linter.  When it is not, and nothing was reported for the type either,
    # the flow itself was lost (an unresolved call on the way) — an analysis error, not a pass.
    for t in ("SQLParseError", "SQLLexError", "SQLTemplaterError"):
        conv = [rec for rec in per_handler.values() if any(tt == t and k == "convert" for (tt, k) in rec["kinds"]) and rec["f"].relpath == LINTER]
        if conv:
            chk.ok("R04a", f"{LINTER}::Linter", f"a handler of Linter converts {t}")
        elif not any(f.rule == "R04a" and t in f.detail for f in chk.findings):
            raise AnalysisError(f"R04a: no raise of {t} is seen to reach a handler of the linter and nothing is reported for it: the exception flow was lost (unresolved call between parser/templater and linter?)")


# ---------------------------------------------------------------------------
# R04b
# ---------------------------------------------------------------------------


def _implies_tree(cfg, e: ast.expr, pol: bool, at, depth: int = 0) -> Optional[str]:
    """Does the fact (e is pol) imply that the linted file has a tree?"""
    if depth > 4:
        return None
    if isinstance(e, ast.Compare) and len(e.ops) == 1:
        l, op, r = e.left, e.ops[0], e.comparators[0]
        if isinstance(op, ast.IsNot) and const(r) is None and pol and isinstance(l, ast.Attribute) and l.attr in ("tree", "templated_file"):
            return f"{l.attr} is not None"
        if isinstance(op, ast.Is) and const(r) is None and not pol and isinstance(l, ast.Attribute) and l.attr in ("tree", "templated_file"):
            return f"{l.attr} is not None"
        c = None

        def as_call(x):
            if isinstance(x, ast.Call):
                return x
            if isinstance(x, ast.Name):
                os_ = origins(cfg, x, at)
                if os_ and len(os_) == 1 and os_[0].kind == "expr" and not os_[0].path and isinstance(os_[0].expr, ast.Call):
                    return os_[0].expr
            return None

        if as_call(l) is not None and const(r) is not None:
            c, k, o = as_call(l), const(r), op
        elif as_call(r) is not None and const(l) is not None:
            c, k = as_call(r), const(l)
            o = {ast.Lt: ast.Gt, ast.LtE: ast.GtE, ast.Gt: ast.Lt, ast.GtE: ast.LtE}.get(type(op), type(op))()
        if c is not None and last_attr(c) == "num_violations" and const(kwarg(c, "fixable")) is True and isinstance(k, int) and not isinstance(k, bool):
            positive = (isinstance(o, ast.Gt) and k >= 0) or (isinstance(o, ast.GtE) and k >= 1) or (isinstance(o, ast.NotEq) and k == 0)
            zero = (isinstance(o, ast.Eq) and k == 0) or (isinstance(o, ast.LtE) and k == 0) or (isinstance(o, ast.Lt) and k == 1)
            if (positive and pol) or (zero and not pol):
                return "fixable violations exist"
        return None
    if isinstance(e, ast.Attribute) and e.attr in ("tree", "templated_file") and pol:
        return f"{e.attr} is truthy"
    if isinstance(e, ast.Call) and last_attr(e) == "num_violations" and const(kwarg(e, "fixable")) is True and pol:
        return "fixable violations exist"
    if isinstance(e, ast.Name):
        os_ = origins(cfg, e, at)
        if not os_:
            return None
        why = None
        for o in os_:
            if o.kind != "expr" or o.path:
                return None
            got = None
            for x, p in atoms(o.expr, pol):
                got = got or _implies_tree(cfg, x, p, o.stmt, depth + 1)
            # a conjunction implies it when one conjunct does (atoms of `a and b` under True)
            if got is None:
                return None
            why = got
        return why
    return None


def _gated(f: ast.AST, call: ast.Call) -> Optional[str]:
    cfg = cfg_of(f)
    st = cfg.stmt_of(call)
    facts = list(cfg.conditions(st))
    # tests inside the statement that must have come out a certain way for the call to be evaluated:
    # ``<call> if t else x`` / ``x if t else <call>`` / ``t and <call>`` / ``t or <call>``
    child, p = call, parent(call)
    while p is not None and child is not st:
        if isinstance(p, ast.IfExp) and child is not p.test:
            facts += atoms(p.test, child is p.body)
        elif isinstance(p, ast.BoolOp) and child in p.values:
            for v in p.values[: p.values.index(child)]:
                facts += atoms(v, isinstance(p.op, ast.And))
        elif isinstance(p, (ast.Lambda, ast.GeneratorExp, ast.ListComp, ast.SetComp, ast.DictComp)):
            break
        child, p = p, parent(p)
    for e, pol in facts:
        why = _implies_tree(cfg, e, pol, st)
        if why:
            return why
    return None


def _r04b(chk, w: World) -> None:
    repo = w.repo
    repo.cls(LINTED_FILE, "LintedFile")
    sink = repo.fn(LINTED_FILE, "LintedFile.fix_string")
    asserts = [s for s in sink.body if isinstance(s, ast.Assert)]
    needs = {a.test.attr for a in asserts if isinstance(a.test, ast.Attribute)}
    chk.count("R04b.sink_preconditions", len(needs))
    if not needs:
        chk.note("LintedFile.fix_string no longer asserts a tree / templated file: R04b has no precondition to protect")
        return
    n = 0
    for m in repo.modules.values():
        if not m.relpath.startswith(("src/sqlfluff/core/", "src/sqlfluff/api/", "src/sqlfluff/cli/")) or "fix_string" not in m.text:
            continue
        for q, f in m.functions():
            for c in walk_local(f):
                if not (isinstance(c, ast.Call) and isinstance(c.func, ast.Attribute) and c.func.attr == "fix_string"):
                    continue
                n += 1
                why = _gated(f, c)
                where = "local"
                if why is None:
                    # one level up: a private helper all of whose call sites are gated
                    fi = w.cg.by_node.get(id(f))
                    sfs = [s for s in w.g.surf_to.get(fi.fq, [])] if fi is not None else []
                    if sfs and all(isinstance(s.node, ast.Call) and _gated(s.caller.node, s.node) for s in sfs):
                        why = _gated(sfs[0].caller.node, sfs[0].node)
                        where = f"all {len(sfs)} call sites of the helper"
                chk.sample({"rule": "R04b", "site": f"{m.relpath}:{c.lineno}", "in": q, "gate": why, "where": where}, limit=12)
                chk.require(
                    why is not None, "R04b", c,
                    f"{q} calls fix_string() without a dominating test that the file has a tree and a templated file "
                    f"(fix_string asserts {', '.join(sorted(needs))}); a file without a tree — fatal templating error, skipped file — ends in an AssertionError",
                    detail="fix_string() dominated by a tree-implying test",
                )
    chk.count("R04b.fix_string_call_sites", n)
    chk.floor("R04b.fix_string_call_sites", 2)


# ---------------------------------------------------------------------------
# R04c
# ---------------------------------------------------------------------------


def _self_attr(e: ast.AST) -> Optional[str]:
    if isinstance(e, ast.Attribute) and isinstance(e.value, ast.Name) and e.value.id == "self":
        return e.attr
    return None


def _limit_guard(chk, w: World, fn: ast.AST, what: str, before: str) -> None:
    """fn: `self.<counter> += ..` then `if self.<limit> > 0 and self.<counter> > self.<limit>: raise <repo error>`
    on every path to ``before`` (the yield / the normal exit)."""
    cfg = cfg_of(fn)
    # the counter is advanced: ``self.c += k`` or ``self.c = self.c + k``
    incs = [s for s in walk_local(fn) if isinstance(s, ast.AugAssign) and isinstance(s.op, ast.Add) and _self_attr(s.target)]
    incs += [
        s for s in walk_local(fn)
        if isinstance(s, ast.Assign) and len(s.targets) == 1 and _self_attr(s.targets[0]) and isinstance(s.value, ast.BinOp) and isinstance(s.value.op, ast.Add)
        and _self_attr(s.targets[0]) in (_self_attr(s.value.left), _self_attr(s.value.right))
    ]
    inc_target = lambda i: _self_attr(i.target if isinstance(i, ast.AugAssign) else i.targets[0])  # noqa: E731

    def attr_at(x, at) -> Optional[str]:
        """``self.<attr>`` read directly or through a local that holds exactly that read."""
        if _self_attr(x):
            return _self_attr(x)
        if isinstance(x, ast.Name):
            os_ = origins(cfg, x, at)
            if len(os_) == 1 and os_[0].kind == "expr" and not os_[0].path:
                return _self_attr(os_[0].expr)
        return None

    guards = []
    for s in walk_local(fn):
        if not isinstance(s, ast.If):
            continue
        for e, pol in atoms(s.test, True):
            if not (pol and isinstance(e, ast.Compare)):
                continue
            # every adjacent pair of a (possibly chained, possibly mirrored) comparison: (greater, lesser)
            terms = [e.left] + list(e.comparators)
            for op, x, y in zip(e.ops, terms, terms[1:]):
                if isinstance(op, (ast.Gt, ast.GtE)):
                    hi, lo = x, y
                elif isinstance(op, (ast.Lt, ast.LtE)):
                    hi, lo = y, x
                else:
                    continue
                a, b = _self_attr(hi), attr_at(lo, s)
                inc = [i for i in incs if inc_target(i) == a]
                if a and b and inc:
                    guards.append((s, a, b, inc))
    ok_guard = None
    for s, a, b, inc in guards:
        rs = [r for st in s.body for r in [st] + list(walk_local(st)) if isinstance(r, ast.Raise)]
        fi = w.cg.by_node[id(fn)]
        rt = [_raised_name(fi, r, lambda n: n in REPO_TYPES) for r in rs]
        if rs and all(rt) and any(cfg.dominates(i, s) for i in inc):
            ok_guard = (s, a, b)
    cons = construct_of(fn)
    if not chk.require(ok_guard is not None, "R04c", fn, f"{what}: no `if <counter> > <limit>: raise <repo error>` after the counter is advanced — the limit is not enforced (or raises a type nobody converts)",
                       detail=f"{what}: limit comparison raises a repo error after the increment", construct=cons):
        return
    s, a, b = ok_guard
    # the limit attribute is the configured one
    init = w.repo.lookup_method(module_of(fn), enclosing_class(fn), "__init__")
    from_param = False
    if init:
        ps = {x.arg for x in init[1].args.args + init[1].args.kwonlyargs}
        for st in walk_local(init[1]):
            if isinstance(st, ast.Assign) and any(_self_attr(t) == b for t in st.targets) and isinstance(st.value, ast.Name) and st.value.id in ps:
                from_param = True
    chk.require(from_param, "R04c", s, f"{what}: `self.{b}` is not the limit handed to ParseContext.__init__", detail=f"{what}: limit attribute comes from the constructor argument", construct=cons)
    # on every path to the guarded work
    if before == "yield":
        goals = [cfg.stmt_of(y) for y in walk_local(fn) if isinstance(y, ast.Yield)]
    else:
        goals = [cfg.exit]
    off = _limit_disabled_branches(cfg, b)
    chk.require(bool(goals) and all(not cfg.paths_avoiding(cfg.entry, gl, lambda n: n is s or n in off) for gl in goals), "R04c", s,
                f"{what}: the limit comparison can be bypassed on a path to the {before}", detail=f"{what}: comparison on every path to the {before}", construct=cons)


def _limit_disabled_branches(cfg, limit_attr: str) -> List[object]:
    """Branch nodes taken exactly when the limit is switched off (``self.<limit> <= 0`` / falsy)."""
    from ..cfg import Branch

    out = []
    for n in cfg.nodes:
        if not (isinstance(n, Branch) and isinstance(n.stmt, ast.If)):
            continue
        ats = atoms(n.stmt.test, n.polarity)
        for e, pol in ats:
            if _self_attr(e) == limit_attr and not pol and len(ats) == 1:
                out.append(n)
            elif isinstance(e, ast.Compare) and len(e.ops) == 1 and _self_attr(e.left) == limit_attr and const(e.comparators[0]) == 0 and len(ats) == 1:
                op = e.ops[0]
                if (isinstance(op, ast.Gt) and not pol) or (isinstance(op, (ast.LtE, ast.Eq)) and pol):
                    out.append(n)
    return out


def _r04c(chk, w: World) -> None:
    repo, cg = w.repo, w.cg
    dm = repo.fn(CONTEXT, "ParseContext.deeper_match")
    ipn = repo.fn(CONTEXT, "ParseContext.increment_parse_nodes")
    _limit_guard(chk, w, dm, "deeper_match", "yield")
    _limit_guard(chk, w, ipn, "increment_parse_nodes", "exit")
    # the token count is charged to the budget before matching
    P = repo.fn(PARSER, "Parser.parse")
    cfgP = cfg_of(P)
    seg_param = P.args.args[1].arg if len(P.args.args) > 1 else None
    seeds = []
    roots = []
    for c in walk_local(P):
        if isinstance(c, ast.Call):
            tg = {t.fq for e in cg.edges_from.get(cg.by_node[id(P)].fq, []) if e.call is c for t in e.targets}
            if any(x.endswith("ParseContext.seed_parse_nodes") or x.endswith("ParseContext.increment_parse_nodes") for x in tg):
                a0 = c.args[0] if c.args else None
                if isinstance(a0, ast.Call) and call_name(a0) == "len" and a0.args and isinstance(a0.args[0], ast.Name) and a0.args[0].id == seg_param:
                    seeds.append(c)
            if last_attr(c) == "root_parse":
                roots.append(c)
    chk.count("R04c.root_parse_calls", len(roots))
    chk.floor("R04c.root_parse_calls", 1)
    seeded = bool(seeds) and all(any(cfgP.dominates(cfgP.stmt_of(s), cfgP.stmt_of(r)) for s in seeds) for r in roots)
    PT = repo.fn(LINTER, "Linter._parse_tokens")
    cfgT = cfg_of(PT)
    tok_param = PT.args.args[0].arg
    pre = None
    for s in walk_local(PT):
        if isinstance(s, ast.If):
            for e, pol in atoms(s.test, True):
                if pol and isinstance(e, ast.Compare) and len(e.ops) == 1 and isinstance(e.ops[0], (ast.Gt, ast.GtE)) and isinstance(e.left, ast.Call) and call_name(e.left) == "len" \
                        and e.left.args and isinstance(e.left.args[0], ast.Name) and e.left.args[0].id == tok_param:
                    lim = e.comparators[0]
                    os_ = origins(cfgT, lim, s) if isinstance(lim, ast.Name) else []
                    if any(o.kind == "expr" and isinstance(o.expr, ast.Call) and last_attr(o.expr) == "get" and o.expr.args and const(o.expr.args[0]) == "max_parse_nodes" for o in os_):
                        pre = s
    chk.require(seeded or pre is not None, "R04c", P, "the token count is never charged to the node budget before matching starts (neither Parser.parse seeds it nor _parse_tokens pre-checks it)",
                detail="token count charged to the node budget before root_parse")
    if pre is not None:
        rets = [r for st in pre.body for r in [st] + list(walk_local(st)) if isinstance(r, ast.Return)]
        good = False
        for r in rets:
            v = r.value
            if not (isinstance(v, ast.Tuple) and len(v.elts) == 2):
                continue
            # the violations: a list display, directly or through a local holding exactly that display
            lst, lst_at = v.elts[1], r
            if isinstance(lst, ast.Name):
                ls_ = origins(cfgT, lst, r)
                if len(ls_) == 1 and ls_[0].kind == "expr" and not ls_[0].path and ls_[0].stmt is not None and not any(k != "append" and k != "extend" and k != "augassign" for k, _ in _mutations(PT, lst.id)):
                    lst, lst_at = ls_[0].expr, ls_[0].stmt
            if isinstance(lst, ast.List) and lst.elts:
                x = lst.elts[0]
                os_ = origins(cfgT, x, lst_at) if isinstance(x, ast.Name) else [type("O", (), {"expr": x, "kind": "expr"})()]
                if os_ and all(o.kind == "expr" and isinstance(o.expr, ast.Call) and norm(o.expr.func).split(".")[-1] == "SQLParseError" for o in os_):
                    good = True
        chk.require(bool(rets) and good and len(rets) == len([r for r in rets if r.value is not None]), "R04c", pre,
                    "the over-limit branch of _parse_tokens does not return a SQLParseError in its violations: an oversized token stream would be dropped silently (or parsed anyway)",
                    detail="pre-check returns a SQLParseError violation")
    _recursion(chk, w)


def _mutations(fn, name):
    from ..flowutil import mutations_of

    return mutations_of(fn, name)


def _narrowed_class(fn: ast.AST, call: ast.Call) -> Optional[str]:
    """``x.match(..)`` dominated by ``isinstance(x, K)``: K."""
    recv = call.func.value if isinstance(call.func, ast.Attribute) else None
    if not isinstance(recv, ast.Name):
        return None
    cfg = cfg_of(fn)
    st = cfg.stmt_of(call)
    for e, pol in cfg.conditions(st):
        if pol and isinstance(e, ast.Call) and call_name(e) == "isinstance" and len(e.args) == 2 and isinstance(e.args[0], ast.Name) and e.args[0].id == recv.id and isinstance(e.args[1], ast.Name):
            return e.args[1].id
    return None


def _is_deeper_match_call(c: ast.AST) -> bool:
    return isinstance(c, ast.Call) and isinstance(c.func, ast.Attribute) and c.func.attr == "deeper_match"


def _in_deeper_match(node: ast.AST, fn: ast.AST) -> bool:
    """Is node inside the body of ``with <ctx>.deeper_match(..)`` (the context manager
    may have been bound to a local first)?"""
    p = parent(node)
    child = node
    while p is not None and child is not fn:
        if isinstance(p, (ast.With, ast.AsyncWith)) and any(child is s for s in p.body):
            for it in p.items:
                c = it.context_expr
                if _is_deeper_match_call(c):
                    return True
                if isinstance(c, ast.Name):
                    os_ = origins(cfg_of(fn), c, p)
                    if os_ and all(o.kind == "expr" and not o.path and _is_deeper_match_call(o.expr) for o in os_):
                        return True
        child, p = p, parent(p)
    return False


def _r_nodes(w: World) -> Dict[str, object]:
    """The matching code: every ``match`` defined under core/parser + the functions of
    match_algorithms.py that take a parse context."""
    out = {}
    for fi in w.orig_funcs:
        if not fi.relpath.startswith("src/sqlfluff/core/parser/") or "rust_parser" in fi.relpath:
            continue
        f = fi.node
        ps = [a.arg for a in f.args.posonlyargs + f.args.args + f.args.kwonlyargs]
        if fi.cls is not None and f.name == "match" and enclosing_function(f) is None and "parse_context" in ps:
            out[fi.fq] = fi
        elif fi.relpath == ALGOS and fi.cls is None and enclosing_function(f) is None and "parse_context" in ps:
            out[fi.fq] = fi
    return out


def _recursion(chk, w: World) -> None:
    nodes = _r_nodes(w)
    chk.count("R04c.matching_functions", len(nodes))
    chk.floor("R04c.matching_functions", 18)
    for need in ("longest_match", "next_match", "resolve_bracket", "greedy_match", "next_ex_bracket_match", "trim_to_terminator"):
        w.repo.fn(ALGOS, need)
    plain: Dict[str, Set[str]] = {k: set() for k in nodes}
    witness: Dict[Tuple[str, str], ast.Call] = {}
    n_guarded = 0
    guarded_mods: Set[str] = set()
    for fq, fi in nodes.items():
        per_call: Dict[int, Tuple[ast.AST, List[object]]] = {}
        for sf in w.g.surf_from.get(fq, []):
            if sf.target.fq in nodes and not sf.how.startswith("callback") and isinstance(sf.node, ast.Call):
                per_call.setdefault(id(sf.node), (sf.node, []))[1].append(sf.target)
        for call, tg in per_call.values():
            k = _narrowed_class(fi.node, call)
            if k is not None:
                tg = [t for t in tg if t.cls is not None and any(c.name == k for _, c in w.repo.mro(t.module, t.cls))]
            if _in_deeper_match(call, fi.node):
                n_guarded += 1
                guarded_mods.add(fi.relpath)
                continue
            for t in tg:
                plain[fq].add(t.fq)
                witness.setdefault((fq, t.fq), call)
    chk.count("R04c.calls_inside_deeper_match", n_guarded)
    chk.count("R04c.modules_with_guarded_calls", len(guarded_mods))
    # cycles in the unguarded remainder (Tarjan)
    index: Dict[str, int] = {}
    low: Dict[str, int] = {}
    on: Set[str] = set()
    stack: List[str] = []
    sccs: List[List[str]] = []
    counter = [0]

    def strong(v: str) -> None:
        work = [(v, iter(sorted(plain[v])))]
        index[v] = low[v] = counter[0]
        counter[0] += 1
        stack.append(v)
        on.add(v)
        while work:
            node, it = work[-1]
            advanced = False
            for wv in it:
                if wv not in index:
                    index[wv] = low[wv] = counter[0]
                    counter[0] += 1
                    stack.append(wv)
                    on.add(wv)
                    work.append((wv, iter(sorted(plain[wv]))))
                    advanced = True
                    break
                elif wv in on:
                    low[node] = min(low[node], index[wv])
            if advanced:
                continue
            work.pop()
            if work:
                low[work[-1][0]] = min(low[work[-1][0]], low[node])
            if low[node] == index[node]:
                comp = []
                while True:
                    x = stack.pop()
                    on.discard(x)
                    comp.append(x)
                    if x == node:
                        break
                sccs.append(comp)

    for v in sorted(plain):
        if v not in index:
            strong(v)
    bad = [c for c in sccs if len(c) > 1 or (c[0] in plain[c[0]])]
    chk.count("R04c.unguarded_call_edges", sum(len(v) for v in plain.values()))
    chk.sample({"rule": "R04c", "matching_functions": len(nodes), "calls_inside_deeper_match": n_guarded, "unguarded_edges": sum(len(v) for v in plain.values()),
                "cyclic_components_without_guard": len(bad)}, limit=14)
    if not bad:
        # anchor floor (only when nothing is reported: a removed guard is a violation, not an analysis error)
        chk.floor("R04c.calls_inside_deeper_match", 12)
        chk.ok("R04c", ALGOS, f"the matching call graph ({len(nodes)} functions) minus the {n_guarded} calls inside `with deeper_match` is acyclic")
    for comp in bad:
        comp = sorted(comp)
        # report at one unguarded call that stays inside the component
        edge = next(((a, b) for a in comp for b in sorted(plain[a]) if b in comp), None)
        call = witness[edge]
        chk.fail(
            "R04c", call,
            f"recursion cycle of the matching code that never passes `with parse_context.deeper_match(..)`: {' -> '.join(_short_fq(x) for x in comp)} "
            f"(unguarded call {_short_fq(edge[0])} -> {_short_fq(edge[1])}): nesting depth is not counted on it, so deep input ends in RecursionError instead of a PRS violation",
            detail="unguarded recursion: " + " , ".join(_short_fq(x) for x in comp),
        )


# ---------------------------------------------------------------------------
# R04d
# ---------------------------------------------------------------------------

# module (relative to src/sqlfluff/core/), type, message head -> (class, reason)
#   invariant = cannot be reached with values the tree itself produces
#   config    = raised for an invalid configuration value (a user error reported as a builtin exception)
#   api       = misuse of a python API by the calling program, not by an input file
BUILTIN_RAISES: Dict[Tuple[str, str, str], Tuple[str, str]] = {
    # -- linter -----------------------------------------------------------------------------
    ("linter/linter.py", "ValueError", "Linter does not support setting both `config` an"): ("api", "constructor misuse by the calling program (config together with dialect/rules); every caller in the tree passes one or the other"),
    ("linter/linter.py", "ValueError", "large_file_skip_byte_limit parameter from config"): ("config", "large_file_skip_byte_limit is not an integer: an invalid configuration value is reported as a bare ValueError (traceback in the CLI) — existing behaviour, reproduced; candidate for SQLFluffUserError"),
    ("linter/linter.py", "TypeError", "failed to get large_file_skip_byte_limit paramet"): ("config", "large_file_skip_byte_limit has a non-scalar type: same path as the ValueError twin"),
    # -- parser: context / grammar ---------------------------------------------------------------
    ("parser/context.py", "TypeError", "One of the configuration keys in the `indentatio"): ("invariant", "re-raise of a TypeError from `bool(v)`; bool() of a config scalar cannot raise, the handler is defensive"),
    ("parser/grammar/base.py", "ReferenceError", "No Dialect has been provided to Ref grammar!"): ("invariant", "a ParseContext always carries the dialect of its config (Parser / validate_segment_with_reparse pass it)"),
    ("parser/grammar/conditional.py", "ValueError", "Only 'indentation' is supported as a Conditional"): ("invariant", "Conditional.__init__ rejects every other config_type when the dialect module is imported"),
    ("parser/grammar/sequence.py", "ValueError", "bracket_type {!r} not found in bracket_pairs of "): ("invariant", "a property of the dialect definition, not of the input: every bundled Bracketed() names a bracket type of its dialect (dialect completeness is C29)"),
    ("parser/match_algorithms.py", "NotImplementedError", "All matchers passed to `._next_match()` are assu"): ("invariant", "a property of the dialect definition: every bundled matcher implements simple() (first-token hints are C06's R06c)"),
    ("parser/match_result.py", "ValueError", "Segment skip ahead error. An outer match contain"): ("invariant", "overlapping child matches: MatchResult construction in the grammars keeps children disjoint and ordered; independent of the input text"),
    ("parser/parser.py", "ValueError", "Parser does not support setting both `config` an"): ("api", "constructor misuse; _parse_tokens passes config only"),
    # -- parser: lexer / segments ----------------------------------------------------------------
    ("parser/lexer.py", "NotImplementedError", "Found literal whitespace with stashed idx!"): ("invariant", "slice-walking state that the lexer's own bookkeeping excludes (a source index is only stashed inside a templated slice)"),
    ("parser/lexer.py", "NotImplementedError", "Unable to process slice:"): ("invariant", "fall-through after the slice-type dispatch of _iter_segments, which covers every slice type the templaters emit (C07 territory: slice maps are not decided statically)"),
    ("parser/lexer.py", "ValueError", "Template and lexed elements do not match. This s"): ("invariant", "the lexed elements are cut from the templated string itself, so they concatenate to it (C01 R01a: lexing is total and lossless)"),
    ("parser/markers.py", "ValueError", "Attempted to make a parent marker from multiple "): ("invariant", "all segments of one parse come from one TemplatedFile"),
    ("parser/segments/base.py", "RuntimeError", "Setting {} with a zero length segment set. This "): ("invariant", "MatchResult.apply only builds a class segment for a non-empty slice (asserted there)"),
    ("parser/segments/base.py", "ValueError", "Unable to position new segment"): ("invariant", "_position_segments is called with a parent position, which serves as start point for the first child"),
    ("parser/segments/bracketed.py", "ValueError", "Attempted to construct Bracketed segment without"): ("invariant", "resolve_bracket / from_result_segments always pass 1-tuples taken from the matched bracket tokens"),
    ("parser/segments/bracketed.py", "ValueError", "BracketedSegment requires at least 2 child segme"): ("invariant", "only on the Rust-parser path without bracket kwargs; a bracketed match always contains both brackets"),
    ("parser/segments/meta.py", "NotImplementedError", "{} has no match method, it should only be used i"): ("invariant", "meta segments are handled by Sequence before any match call (isinstance dispatch in Sequence.match)"),
    ("parser/segments/meta.py", "ValueError", "Cannot instantiate TemplateSegment without a sou"): ("invariant", "every constructor call in the tree passes a str source_str"),
    # -- parser: optional Rust extension (class exists only when sqlfluffrs is importable) -------------
    ("parser/rust_parser.py", "RuntimeError", "Grammar refers to {!r} which is registered in th"): ("invariant", "Rust tables out of sync with the Python dialect: a build defect of the optional extension, not an input"),
    ("parser/rust_parser.py", "ValueError", "Cannot extract RsToken from segment"): ("invariant", "with the Rust parser selected the tokens come from the Rust lexer and carry their RsToken"),
    ("parser/rust_parser.py", "ValueError", "RustParser does not support setting both `config"): ("api", "constructor misuse; _parse_tokens passes config only"),
    ("parser/rust_parser.py", "ValueError", "Segment skip ahead error. An outer match contain"): ("invariant", "twin of MatchResult.apply's check for the fused Rust path"),
    # -- templaters ------------------------------------------------------------------------------
    ("templaters/base.py", "ValueError", "Cannot instantiate a templated file unsliced!"): ("invariant", "templaters that change the text always pass their slices; the unsliced constructor is only used for raw text"),
    ("templaters/base.py", "ValueError", "Position Not Found"): ("invariant", "slice lookup in a contiguous slice list that covers the whole templated string (checked at construction, SQLFluffSkipFile otherwise)"),
    ("templaters/base.py", "ValueError", "Attempting a single length slice within a templa"): ("invariant", "zero-length position inside a templated slice: patch generation only asks for positions of literal segments (C10/C30 decide which patches are built)"),
    ("templaters/base.py", "ValueError", "Starting position higher than sliced file positi"): ("invariant", "index arithmetic bound of the same lookup"),
    ("templaters/jinja.py", "ValueError", "For the jinja templater, the `process()` method "): ("api", "process() called without a config object; render_string always passes one"),
    ("templaters/jinja.py", "ValueError", "Path does not exist:"): ("config", "load_macros_from_path entry vanished after it was validated at config load (SQLFluffUserError there); a race with the filesystem, not an input"),
    ("templaters/placeholder.py", "ValueError", "Either param_style or param_regex must be provid"): ("config", "invalid placeholder templater configuration is reported as a bare ValueError (traceback in the CLI) — existing behaviour, reproduced; candidate for SQLFluffUserError"),
    ("templaters/placeholder.py", "ValueError", "No param_regex nor param_style was provided to t"): ("config", "as above (reproduced with templater=placeholder and no style)"),
    ("templaters/placeholder.py", "ValueError", 'Unknown param_style "{}", available are: {}'): ("config", "as above (reproduced with param_style=nope)"),
    ("templaters/python.py", "RuntimeError", "Exhausted priorities in _coalesce_types!"): ("invariant", "the three slice types enumerated just above are the only ones the slicer produces"),
    ("templaters/slicers/tracer.py", "ValueError", "Internal error. Trace template output does not m"): ("invariant", "format of the tracer's own instrumented template output"),
    ("templaters/slicers/tracer.py", "ValueError", "Internal error. Unable to locate slice for"): ("invariant", "identifiers are generated by the analyzer for exactly the raw slices it numbered"),
}

R04D_SCOPE = ("src/sqlfluff/core/parser/", "src/sqlfluff/core/linter/", "src/sqlfluff/core/templaters/")


def _r04d(chk, w: World) -> None:
    import builtins as _b

    def known(n: str) -> bool:
        x = getattr(_b, n, None)
        return isinstance(x, type) and issubclass(x, Exception) and n not in ("StopIteration", "KeyboardInterrupt")

    sites = w.sites(known, R04D_SCOPE, factory_params=False)
    chk.count("R04d.explicit_builtin_raises_in_scope", len(sites))
    chk.floor("R04d.explicit_builtin_raises_in_scope", 30)
    fl = Flow(w.g, w.et, sites)
    lint_entries = [lb for lb in w.entries]
    seen: Dict[Tuple[str, str, str], List[Site]] = {}
    for lb in lint_entries:
        for fi in w.entry_fi(lb):
            for s in fl.escaping(fi.fq):
                k = (s.func.relpath[len("src/sqlfluff/core/"):], s.etype, s.label)
                lst = seen.setdefault(k, [])
                if all(x is not s for x in lst):
                    lst.append(s)
    chk.count("R04d.unhandled_builtin_raises_reaching_an_entry_point", len(seen))
    for k, lst in sorted(seen.items()):
        s = lst[0]
        ent = BUILTIN_RAISES.get(k)
        if ent is not None:
            chk.ok("R04d", _qual(s.func), f"{k[1]} '{k[2]}': {ent[0]} — {ent[1]}")
            continue
        reach = sorted({lb for lb in lint_entries for fi in w.entry_fi(lb) if s.key in fl.escapes.get(fi.fq, {})})
        start = w.entry_fi(reach[0])[0]
        chain = " -> ".join(_short_fq(x) for x in fl.chain(start.fq, s.key))
        chk.fail(
            "R04d", s.node,
            f"`raise {k[1]}` ('{k[2]}') in {_short_fq(s.func.fq)} can reach {', '.join(reach[:4])}{' ...' if len(reach) > 4 else ''} with no handler ({chain}) and is not in the reviewed table: "
            "either a new crash path of the parse/lint/fix entry points, or it needs a table entry with the reason why no input triggers it",
            detail=f"unreviewed {k[1]} '{k[2]}' in {k[0]}",
        )
    for k in BUILTIN_RAISES:
        if k not in seen:
            chk.note(f"stale BUILTIN_RAISES entry (no longer raised / no longer reaches an entry point unhandled): {k}")
    by_class: Dict[str, int] = {}
    for k in seen:
        if k in BUILTIN_RAISES:
            by_class[BUILTIN_RAISES[k][0]] = by_class.get(BUILTIN_RAISES[k][0], 0) + 1
    chk.extra["R04d_classes"] = by_class
    chk.sample({"rule": "R04d", "explicit_builtin_raises": len(sites), "reach_an_entry_unhandled": len(seen), "table_entries_by_class": by_class}, limit=16)


from ..selftest import Variant  # noqa: E402

LEXER = "src/sqlfluff/core/parser/lexer.py"
DELIMITED = "src/sqlfluff/core/parser/grammar/delimited.py"

TBASE = "src/sqlfluff/core/templaters/base.py"
JINJA = JINJA_T
PYT = PYTHON_T
_ELSE_OLD = (
    "                    continue\n"
    "                else:\n"
    "                    # Compute a score for the variant based on the size of initially\n"
    "                    # uncovered literal slices it hits.\n"
    "                    score = self._calculate_variant_score(\n"
    "                        raw_sliced=trace.raw_sliced,\n"
    "                        sliced_file=trace.sliced_file,\n"
    "                        uncovered_slices=uncovered_slices,\n"
    "                        original_source_slices=original_source_slices,\n"
    "                    )\n"
    "\n"
    "                    variants[variant_raw_str] = (score, trace, length_deltas)\n"
)
_ELSE_NEW = (
    "                    continue\n"
    "                # Compute a score for the variant based on the size of initially\n"
    "                # uncovered literal slices it hits.\n"
    "                score = self._calculate_variant_score(\n"
    "                    raw_sliced=trace.raw_sliced,\n"
    "                    sliced_file=trace.sliced_file,\n"
    "                    uncovered_slices=uncovered_slices,\n"
    "                    original_source_slices=original_source_slices,\n"
    "                )\n"
    "\n"
    "                variants[variant_raw_str] = (score, trace, length_deltas)\n"
)

PYTPL = "src/sqlfluff/core/templaters/python.py"

VARIANTS: List[Variant] = [
    Variant(
        "python-templater-slices-before-rendering", "src/sqlfluff/core/templaters/python.py",
        "        templated_str = render_func(raw_str)\n        templater_logger.debug(\"    Templated String: %r\", templated_str)\n        # Slice the raw file\n        raw_sliced = list(self._slice_template(raw_str))\n",
        "        # Slice the raw file\n        raw_sliced = list(self._slice_template(raw_str))\n        templated_str = render_func(raw_str)\n        templater_logger.debug(\"    Templated String: %r\", templated_str)\n",
        "R04i", "slice_file", "seeded C04-8",
    ),
    Variant(
        "alternate-variant-skipped-on-the-wrong-field", "src/sqlfluff/core/linter/linter.py",
        "                if alternate_variant is root_variant or not alternate_variant.tree:\n",
        "                if alternate_variant is root_variant or not alternate_variant.templated_file:\n",
        "R04h", "lint_parsed", "seeded C04-6: an un-taken branch with an unclosed bracket -> AttributeError out of lint",
    ),
    Variant(
        "quiet-alternate-variant-tree-tested-for-none", "src/sqlfluff/core/linter/linter.py",
        "                if alternate_variant is root_variant or not alternate_variant.tree:\n",
        "                if alternate_variant is root_variant:\n                    continue\n                if alternate_variant.tree is None:\n",
        "QUIET", None, "R04h: two early continues, `is None` instead of truthiness",
    ),
    Variant(
        "limit-error-anchor-without-default", "src/sqlfluff/core/linter/linter.py",
        "            anchor = next((seg for seg in tokens if seg.is_code), None)\n",
        "            anchor = next(seg for seg in tokens if seg.is_code)\n",
        "R04f", "_parse_tokens", "seeded C04-3 (same shape): a comment-only file that exhausts the node budget", count=2,
    ),
    Variant(
        "noqa-split-without-maxsplit", "src/sqlfluff/core/rules/noqa.py",
        '                        action, rule_part = comment_remainder.split("=", 1)\n',
        '                        action, rule_part = (part.strip() for part in comment_remainder.split("="))\n',
        "R04g", "_parse_noqa", "seeded C04-4: `-- noqa: disable=LT01 until x=1` raises ValueError out of lint",
    ),
    Variant(
        "quiet-noqa-split-keyword-maxsplit", "src/sqlfluff/core/rules/noqa.py",
        '                        action, rule_part = comment_remainder.split("=", 1)\n',
        '                        action, rule_part = comment_remainder.split("=", maxsplit=1)\n',
        "QUIET", None, "R04g: maxsplit by keyword",
    ),
    # behaviour-preserving refactors: must stay quiet
    # ---- R04a ---------------------------------------------------------------------------------
    Variant("q-parse-error-added-with-augassign", LINTER,
            "            linter_logger.info(\"PARSING FAILED! : %s\", err)\n            violations.append(err)\n            return None, violations\n",
            "            linter_logger.info(\"PARSING FAILED! : %s\", err)\n            violations += [err]\n            return None, violations\n",
            "QUIET", None, "append spelled as += [x]"),
    Variant("q-lex-error-returned-in-new-list", LINTER,
            "            linter_logger.info(\"LEXING FAILED! (%s): %s\", templated_file.fname, err)\n            violations.append(err)\n            return None, violations\n",
            "            linter_logger.info(\"LEXING FAILED! (%s): %s\", templated_file.fname, err)\n            return None, violations + [err]\n",
            "QUIET", None, "the error is returned in a concatenated list"),
    Variant("q-templater-error-extend", LINTER,
            "            templater_violations.append(templater_err)\n",
            "            templater_violations.extend([templater_err])\n",
            "QUIET", None, "append spelled as extend([x])"),
    Variant("q-templater-error-rebuilt-list", LINTER,
            "            templater_violations.append(templater_err)\n",
            "            templater_violations = templater_violations + [templater_err]\n",
            "QUIET", None, "append spelled as x = x + [e]"),
    Variant("q-templater-error-renamed-and-aliased", LINTER,
            "        except SQLTemplaterError as templater_err:\n            # Fatal templating error. Capture it and don't generate a variant.\n            templater_violations.append(templater_err)\n",
            "        except SQLTemplaterError as fatal:\n            # Fatal templating error. Capture it and don't generate a variant.\n            tmp_violation = fatal\n            templater_violations.append(tmp_violation)\n",
            "QUIET", None, "caught object renamed and passed through a local"),
    Variant("q-parse-path-skip-with-try-else", LINTER,
            "            except SQLFluffSkipFile as s:\n                linter_logger.warning(str(s))\n                continue\n            yield self.parse_string(\n                raw_file,\n                fname=fname,\n                config=config,\n                encoding=encoding,\n                parse_statistics=parse_statistics,\n            )\n",
            "            except SQLFluffSkipFile as s:\n                linter_logger.warning(str(s))\n            else:\n                yield self.parse_string(\n                    raw_file,\n                    fname=fname,\n                    config=config,\n                    encoding=encoding,\n                    parse_statistics=parse_statistics,\n                )\n",
            "QUIET", None, "continue replaced by try/else: the skipped file still yields nothing"),
    Variant("q-runner-skip-count-spelled-out", RUNNER,
            "                linter_logger.warning(str(s))\n                self.skipped_file_count += 1\n",
            "                linter_logger.warning(str(s))\n                self.skipped_file_count = self.skipped_file_count + 1\n",
            "QUIET", None, "+= 1 spelled as x = x + 1"),
    Variant("q-render-command-skip-exit-code-through-local", COMMANDS,
            "                click.echo(formatter.colorize(str(skip_file_err), Color.red), err=True)\n                sys.exit(EXIT_FAIL)\n            fname = path\n",
            "                message = formatter.colorize(str(skip_file_err), Color.red)\n                click.echo(message, err=True)\n                sys.exit(EXIT_FAIL)\n            fname = path\n",
            "QUIET", None, "message through a local"),
    # ---- R04b ---------------------------------------------------------------------------------
    Variant("q-stdin-fix-conditional-expression", COMMANDS,
            "    if result.num_violations(types=SQLLintError, fixable=True) > 0:\n        stdout = result.paths[0].files[0].fix_string()[0]\n    else:\n        stdout = stdin\n",
            "    stdout = (\n        result.paths[0].files[0].fix_string()[0]\n        if result.num_violations(types=SQLLintError, fixable=True) > 0\n        else stdin\n    )\n",
            "QUIET", None, "if/else assignment spelled as a conditional expression"),
    Variant("q-stdin-fix-two-locals", COMMANDS,
            "    if result.num_violations(types=SQLLintError, fixable=True) > 0:\n        stdout = result.paths[0].files[0].fix_string()[0]\n",
            "    n_fixable = result.num_violations(types=SQLLintError, fixable=True)\n    has_fixes = n_fixable > 0\n    if has_fixes:\n        linted_file = result.paths[0].files[0]\n        stdout = linted_file.fix_string()[0]\n",
            "QUIET", None, "count and test through two locals, receiver through a local"),
    Variant("q-persist-tree-nothing-to-fix-first", LINTED_FILE,
            "        if self.num_violations(fixable=True, filter_warning=False) > 0:\n            write_buff, success = self.fix_string()\n",
            "        if 0 < self.num_violations(fixable=True, filter_warning=False):\n            fixed = self.fix_string()\n            write_buff, success = fixed\n",
            "QUIET", None, "comparison mirrored, result pair through a local"),
    Variant("q-api-fix-gate-in-boolean-local", SIMPLE,
            "    if should_fix and result.num_violations(types=SQLLintError, fixable=True) > 0:\n        sql = result.paths[0].files[0].fix_string()[0]\n",
            "    something_to_fix = result.num_violations(types=SQLLintError, fixable=True) != 0\n    if should_fix and something_to_fix:\n        sql = result.paths[0].files[0].fix_string()[0]\n",
            "QUIET", None, "count test hoisted into a boolean local, != 0 instead of > 0"),
    # ---- R04c ---------------------------------------------------------------------------------
    Variant("q-depth-limit-through-local", CONTEXT,
            "        if self.max_parse_depth > 0 and self.match_depth > self.max_parse_depth:\n",
            "        depth_limit = self.max_parse_depth\n        if depth_limit > 0 and self.match_depth > depth_limit:\n",
            "QUIET", None, "limit read into a local first"),
    Variant("q-depth-comparison-mirrored", CONTEXT,
            "        if self.max_parse_depth > 0 and self.match_depth > self.max_parse_depth:\n",
            "        if 0 < self.max_parse_depth < self.match_depth:\n",
            "QUIET", None, "the two comparisons as one chained comparison"),
    Variant("q-depth-increment-spelled-out", CONTEXT,
            "        self.match_depth += 1\n        if self.max_parse_depth > 0",
            "        self.match_depth = self.match_depth + 1\n        if self.max_parse_depth > 0",
            "QUIET", None, "+= 1 spelled as x = x + 1"),
    Variant("q-node-limit-early-return-when-off", CONTEXT,
            "        if self.max_parse_nodes > 0 and self.current_parse_nodes > self.max_parse_nodes:\n            raise SQLParseError(\n                f\"Maximum parse node count exceeded (limit {self.max_parse_nodes}). \"\n                \"This may indicate unusually large SQL or a malicious input.\"\n            )\n",
            "        if self.max_parse_nodes <= 0:\n            return\n        if self.current_parse_nodes > self.max_parse_nodes:\n            raise SQLParseError(\n                f\"Maximum parse node count exceeded (limit {self.max_parse_nodes}). \"\n                \"This may indicate unusually large SQL or a malicious input.\"\n            )\n",
            "QUIET", None, "switched-off limit leaves early"),
    Variant("q-node-limit-error-through-local", CONTEXT,
            "            raise SQLParseError(\n                f\"Maximum parse node count exceeded (limit {self.max_parse_nodes}). \"\n                \"This may indicate unusually large SQL or a malicious input.\"\n            )\n",
            "            budget_error = SQLParseError(\n                f\"Maximum parse node count exceeded (limit {self.max_parse_nodes}). \"\n                \"This may indicate unusually large SQL or a malicious input.\"\n            )\n            raise budget_error\n",
            "QUIET", None, "error object built into a local, then raised"),
    Variant("q-precheck-error-list-through-local", LINTER,
            "            linter_logger.info(\"PARSING SKIPPED! : %s\", err)\n            return None, [err]\n",
            "            linter_logger.info(\"PARSING SKIPPED! : %s\", err)\n            too_many = [err]\n            return None, too_many\n",
            "QUIET", None, "the returned violations list through a local"),
    Variant("q-precheck-token-count-through-local", LINTER,
            "        if max_parse_nodes > 0 and len(tokens) > max_parse_nodes:\n",
            "        n_tokens = len(tokens)\n        if max_parse_nodes > 0 and n_tokens > max_parse_nodes:\n",
            "QUIET", None, "token count through a local"),
    Variant("q-parser-seed-count-through-local", PARSER,
            "        ctx.seed_parse_nodes(len(segments))\n",
            "        n_segments = len(segments)\n        ctx.seed_parse_nodes(n_segments)\n",
            "QUIET", None, "seed count through a local"),
    # ---- R04d ---------------------------------------------------------------------------------
    Variant("q-builtin-raise-message-through-local", TBASE,
            "            raise ValueError(\"Position Not Found\")\n",
            "            msg = \"Position Not Found\"\n            raise ValueError(msg)\n",
            "QUIET", None, "message literal assigned first (flake8-errmsg style)", count=1),
    # ---- R04e ---------------------------------------------------------------------------------
    Variant("q-jinja-variant-trace-try-without-else", JINJA, _ELSE_OLD, _ELSE_NEW,
            "QUIET", None, "else-arm dedented after a handler that always continues"),
    Variant("q-jinja-render-error-through-local", JINJA,
            "            templater_logger.info(\"Unrecoverable Jinja Error: %s\", err, exc_info=True)\n            raise SQLTemplaterError(\n                (\n                    \"Unrecoverable failure in Jinja templating: {}. Have you \"\n                    \"correctly configured your variables? \"\n                    \"https://docs.sqlfluff.com/en/latest/perma/variables.html\"\n                ).format(err),\n",
            "            templater_logger.info(\"Unrecoverable Jinja Error: %s\", err, exc_info=True)\n            message = (\n                \"Unrecoverable failure in Jinja templating: {}. Have you \"\n                \"correctly configured your variables? \"\n                \"https://docs.sqlfluff.com/en/latest/perma/variables.html\"\n            ).format(err)\n            raise SQLTemplaterError(\n                message,\n",
            "QUIET", None, "message through a local"),
    Variant("q-python-format-handler-types-reordered", PYT,
            "            except (AttributeError, IndexError, TypeError, ValueError) as err:\n                # A field which the context cannot satisfy",
            "            except (ValueError, TypeError, IndexError, AttributeError) as format_err:\n                err = format_err\n                # A field which the context cannot satisfy",
            "QUIET", None, "tuple of types reordered, caught object renamed"),
    # breaking twins in the spellings the QUIET sweep taught the rules to read
    Variant("templater-error-added-to-a-list-nobody-returns", LINTER,
            "            templater_violations.append(templater_err)\n",
            "            seen_errors = templater_violations + [templater_err]\n            linter_logger.info(\"templating failed: %s\", seen_errors)\n",
            "R04a", "render_string", "x = y + [e] into a list that is only logged"),
    Variant("parse-path-skip-falls-through-to-the-yield", LINTER,
            "            except SQLFluffSkipFile as s:\n                linter_logger.warning(str(s))\n                continue\n            yield self.parse_string(\n",
            "            except SQLFluffSkipFile as s:\n                linter_logger.warning(str(s))\n                raw_file, config, encoding = \"\", self.config, \"utf8\"\n            yield self.parse_string(\n",
            "R04a", "parse_path", "the handler falls through into the rest of the loop body: a result for the skipped file"),
    Variant("stdin-fix-conditional-expression-arms-swapped", COMMANDS,
            "    if result.num_violations(types=SQLLintError, fixable=True) > 0:\n        stdout = result.paths[0].files[0].fix_string()[0]\n    else:\n        stdout = stdin\n",
            "    stdout = (\n        stdin\n        if result.num_violations(types=SQLLintError, fixable=True) > 0\n        else result.paths[0].files[0].fix_string()[0]\n    )\n",
            "R04b", "_stdin_fix", "the sink sits in the arm taken when there is nothing to fix"),
    Variant("depth-limit-through-local-dead-counter", CONTEXT,
            "        if self.max_parse_depth > 0 and self.match_depth > self.max_parse_depth:\n",
            "        depth_limit = self.max_parse_depth\n        if depth_limit > 0 and self.parse_depth > depth_limit:\n",
            "R04c", "deeper_match", "limit through a local, compared with a counter that is never advanced"),
    Variant("depth-chained-comparison-wrong-way", CONTEXT,
            "        if self.max_parse_depth > 0 and self.match_depth > self.max_parse_depth:\n",
            "        if 0 < self.match_depth < self.max_parse_depth:\n",
            "R04c", "deeper_match", "chained comparison raises below the limit and never above it"),
    Variant("precheck-error-list-through-local-empty", LINTER,
            "            linter_logger.info(\"PARSING SKIPPED! : %s\", err)\n            return None, [err]\n",
            "            linter_logger.info(\"PARSING SKIPPED! : %s\", err)\n            too_many = []\n            return None, too_many\n",
            "R04c", "_parse_tokens", "the list through a local, without the error"),
    Variant("assert-turned-into-raise-message-through-local", LINTER,
            "            assert segments, \"The token sequence should never be empty.\"\n",
            "            if not segments:\n                msg = \"The token sequence should never be empty.\"\n                raise ValueError(msg)\n",
            "R04d", "_lex_templated_file", "new unhandled ValueError, message assigned first"),
    Variant("jinja-variant-handler-narrowed", "src/sqlfluff/core/templaters/jinja.py",
            "                except Exception:\n",
            "                except (TemplateError, TypeError, ValueError):\n",
            "R04e", "_handle_unreached_code", "seeded C04-2: a ZeroDivisionError in a forced, unreached branch escapes lint"),
    Variant("jinja-render-handler-closed-list", "src/sqlfluff/core/templaters/jinja.py",
            "        except Exception as err:\n            # Rendering runs the user's template code, which can raise anything:",
            "        except (TypeError, ValueError) as err:\n            # Rendering runs the user's template code, which can raise anything:",
            "R04e", "process", "the defect repaired by 40279a3: `select {{ 1 // 0 }}` raised ZeroDivisionError"),
    Variant("python-format-handler-keyerror-only", "src/sqlfluff/core/templaters/python.py",
            "            except (AttributeError, IndexError, TypeError, ValueError) as err:\n                # A field which the context cannot satisfy",
            "            except (AttributeError,) as err:\n                # A field which the context cannot satisfy",
            "R04e", "render_func", "the defect repaired by 5e0bd3a: `select {a[5]}` raised IndexError"),
    # ---- R04a: exception flow ---------------------------------------------------------------
    Variant("fix-validation-verdict-handler-narrowed", "src/sqlfluff/core/linter/fix.py",
            "            except SQLParseError as err:\n                # The edited segment no longer fits",
            "            except KeyError as err:\n                # The edited segment no longer fits",
            "R04a", "increment_parse_nodes", "the original defect F-A (fixed by 6dfcb95 + 97cdee7): the budget seeding of fix validation raises out of lint_string(fix=True)"),
    Variant("parse-handler-narrowed", LINTER,
            "        except SQLParseError as err:\n            if err.segment is None:",
            "        except SQLLexError as err:\n            if err.segment is None:",
            "R04a", "deeper_match", "handler narrowed to the wrong type: the depth limit error escapes parse_string"),
    Variant("parse-error-not-recorded", LINTER,
            "            linter_logger.info(\"PARSING FAILED! : %s\", err)\n            violations.append(err)\n",
            "            linter_logger.info(\"PARSING FAILED! : %s\", err)\n",
            "R04a", "_parse_tokens", "handler keeps logging but no longer records the PRS violation"),
    Variant("templater-error-only-logged", LINTER,
            "            templater_violations.append(templater_err)\n",
            "            linter_logger.warning(str(templater_err))\n",
            "R04a", "render_string", "fatal templating error is logged, not reported as TMP"),
    Variant("render-command-skip-escapes", COMMANDS,
            "            try:\n                raw_sql, file_config, _ = lnt.load_raw_file_and_config(path, lnt.config)\n            except SQLFluffSkipFile as skip_file_err:",
            "            try:\n                raw_sql, file_config, _ = lnt.load_raw_file_and_config(path, lnt.config)\n            except OSError as skip_file_err:",
            "R04a", "load_raw_file_and_config", "the original defect F-B (fixed by b62dd7a)"),
    Variant("reparse-after-fix-outside-try", LINTER,
            "                            new_tree, _, _, _valid = apply_fixes(\n",
            "                            Parser(config=config).parse(tuple(tree.raw_segments), fname=fname)\n                            new_tree, _, _, _valid = apply_fixes(\n",
            "R04a", None, "new call into the parser from linter code outside any handler"),
    Variant("loader-raises-templater-error", LINTER,
            "        # Scan the raw file for config commands.\n        file_config.process_raw_file_for_config(raw_file, fname)\n        # Return the raw file and config\n",
            "        if \"\\x00\" in raw_file:\n            raise SQLTemplaterError(f\"Binary file {fname!r}\")\n        # Scan the raw file for config commands.\n        file_config.process_raw_file_for_config(raw_file, fname)\n        # Return the raw file and config\n",
            "R04a", "load_raw_file_and_config", "new raise of a repo error type on a path whose callers only handle the skip"),
    Variant("worker-raises-into-funnel", RUNNER,
            "                linter.templater = task.root_config.get_templater()\n",
            "                linter.templater = task.root_config.get_templater()\n                if linter.templater is None:\n                    raise SQLTemplaterError(\"templater not available in worker\")\n",
            "R04a", "_apply", "only the log-only catch-all sees it: degraded, not converted"),
    # ---- R04b: fix sinks ------------------------------------------------------------------------------
    Variant("api-fix-gate-dropped", SIMPLE,
            "    if should_fix and result.num_violations(types=SQLLintError, fixable=True) > 0:\n",
            "    if should_fix:\n",
            "R04b", "fix", "the original defect F-D (fixed by c3af960)"),
    Variant("stdin-fix-gate-weakened", COMMANDS,
            "    if result.num_violations(types=SQLLintError, fixable=True) > 0:\n        stdout =",
            "    if not templater_error:\n        stdout =",
            "R04b", "_stdin_fix"),
    Variant("persist-tree-any-violation", LINTED_FILE,
            "        if self.num_violations(fixable=True, filter_warning=False) > 0:\n",
            "        if self.num_violations(filter_warning=False) > 0:\n",
            "R04b", "persist_tree", "a file with only a PRS error has violations but no tree"),
    # ---- R04c: limits and recursion ------------------------------------------------------------------------
    Variant("depth-test-on-dead-counter", CONTEXT,
            "if self.max_parse_depth > 0 and self.match_depth > self.max_parse_depth:",
            "if self.max_parse_depth > 0 and self.parse_depth > self.max_parse_depth:",
            "R04c", "deeper_match", "compares a counter that is never advanced"),
    Variant("node-limit-raises-valueerror", CONTEXT,
            "            raise SQLParseError(\n                f\"Maximum parse node count exceeded",
            "            raise ValueError(\n                f\"Maximum parse node count exceeded",
            "R04c", "increment_parse_nodes", "the limit error is of a type no handler converts"),
    Variant("delimited-terminator-lookahead-unguarded", DELIMITED,
            "            with parse_context.deeper_match(name=\"Delimited-Term\") as ctx:\n",
            "            ctx = parse_context\n            if ctx:\n",
            "R04c", "unguarded recursion", "recursion into the matchers without counting depth"),
    Variant("bracket-recursion-unguarded", ALGOS,
            "        with parse_context.deeper_match(name=\"Bracket\"):\n",
            "        if parse_context:\n",
            "R04c", "resolve_bracket", "nested brackets no longer count towards max_parse_depth"),
    Variant("precheck-drops-the-error", LINTER,
            "            return None, [err]\n",
            "            return None, []\n",
            "R04c", "_parse_tokens", "oversized token stream silently yields nothing"),
    # ---- R04d: builtin raises ---------------------------------------------------------------------------------
    Variant("assert-turned-into-raise", LINTER,
            "            assert segments, \"The token sequence should never be empty.\"\n",
            "            if not segments:\n                raise ValueError(\"The token sequence should never be empty.\")\n",
            "R04d", "_lex_templated_file", "new unhandled ValueError on the lint path"),
    # ---- behaviour-preserving edits: the check must stay quiet ------------------------------------------------------
    Variant("q-rename-caught-skip", LINTER, "skip_file_err", "skipped", "QUIET", None, "local renamed", count=2),
    Variant("q-append-through-alias", LINTER,
            "            linter_logger.info(\"PARSING FAILED! : %s\", err)\n            violations.append(err)\n            return None, violations\n",
            "            linter_logger.info(\"PARSING FAILED! : %s\", err)\n            found = violations\n            found.append(err)\n            return None, found\n",
            "QUIET", None, "violations list passed through a second local"),
    Variant("q-fix-string-in-nested-helper", COMMANDS,
            "        stdout = result.paths[0].files[0].fix_string()[0]\n    else:\n        stdout = stdin\n",
            "        def _fixed() -> str:\n            return result.paths[0].files[0].fix_string()[0]\n\n        stdout = _fixed()\n    else:\n        stdout = stdin\n",
            "QUIET", None, "sink extracted into a helper that is only called under the gate"),
    Variant("q-depth-increment-first", CONTEXT,
            "        self._match_stack.append(self.match_segment)\n        self.match_segment = name\n        self.match_depth += 1\n",
            "        self.match_depth += 1\n        self._match_stack.append(self.match_segment)\n        self.match_segment = name\n",
            "QUIET", None, "independent statements reordered"),
    Variant("q-context-manager-through-local", ALGOS,
            "        with parse_context.deeper_match(name=\"Bracket\"):\n",
            "        deeper = parse_context.deeper_match(name=\"Bracket\")\n        with deeper:\n",
            "QUIET", None, "context manager bound to a local before the with"),
    Variant("q-depth-test-nested-ifs", CONTEXT,
            "        if self.max_parse_depth > 0 and self.match_depth > self.max_parse_depth:\n            raise SQLParseError(\n                f\"Maximum parse depth exceeded (limit {self.max_parse_depth}). \"\n                \"This may indicate deeply nested SQL or a malicious input.\"\n            )\n",
            "        if self.max_parse_depth > 0:\n            if self.match_depth > self.max_parse_depth:\n                raise SQLParseError(\n                    f\"Maximum parse depth exceeded (limit {self.max_parse_depth}). \"\n                    \"This may indicate deeply nested SQL or a malicious input.\"\n                )\n",
            "QUIET", None, "conjunction split into nested ifs"),
    Variant("q-record-through-helper", LINTER,
            "            templater_violations.append(templater_err)\n",
            "            self._note_violation(templater_violations, templater_err)\n",
            "QUIET", None, "conversion handed to a helper together with the returned list"),
    Variant("q-fixable-count-in-local", COMMANDS,
            "    if result.num_violations(types=SQLLintError, fixable=True) > 0:\n        stdout =",
            "    n_fixable = result.num_violations(types=SQLLintError, fixable=True)\n    if n_fixable > 0:\n        stdout =",
            "QUIET", None, "gate count bound to a local first"),
    Variant("q-api-gate-early-return", SIMPLE,
            "    if should_fix and result.num_violations(types=SQLLintError, fixable=True) > 0:\n        sql = result.paths[0].files[0].fix_string()[0]\n    return sql\n",
            "    if not should_fix:\n        return sql\n    if result.num_violations(types=SQLLintError, fixable=True) == 0:\n        return sql\n    return result.paths[0].files[0].fix_string()[0]\n",
            "QUIET", None, "if/else turned into early returns"),
    # R04i: behaviour-preserving refactors: must stay quiet
    Variant(
        "quiet-r04i-slicer-argument-by-keyword", PYTPL,
        '        raw_sliced = list(self._slice_template(raw_str))\n',
        "        raw_sliced = list(self._slice_template(in_str=raw_str))\n",
        "QUIET", None, "R04i: the string handed to the slicer by keyword",
    ),
    Variant(
        "quiet-r04i-render-through-alias-and-local-source", PYTPL,
        '        templated_str = render_func(raw_str)\n',
        "        render = render_func\n        source_str = raw_str\n        templated_str = render(source_str)\n",
        "QUIET", None, "R04i: the render callable and the raw string each through one more local",
    ),
    Variant(
        "quiet-r04i-slices-collected-by-comprehension-on-the-class", PYTPL,
        '        raw_sliced = list(self._slice_template(raw_str))\n',
        "        raw_sliced = [raw_slice for raw_slice in PythonTemplater._slice_template(raw_str)]\n",
        "QUIET", None, "R04i: list(...) spelled as a comprehension, classmethod called on the class",
    ),
    Variant(
        "quiet-r04i-slicer-behind-a-forwarding-helper", PYTPL,
        '        templater_logger.debug("    Templated String: %r", templated_str)\n        # Slice the raw file\n        raw_sliced = list(self._slice_template(raw_str))\n',
        "        raw_sliced = self._raw_slices(raw_str)\n        templater_logger.debug(\"    Raw Sliced:\")\n        for idx, raw_slice in enumerate(raw_sliced):\n            templater_logger.debug(\"        %s: %r\", idx, raw_slice)\n        return self._slice_rendered(raw_str, templated_str, raw_sliced, config)\n\n    def _raw_slices(self, source: str) -> list[RawFileSlice]:\n        \"\"\"Slice the raw file.\"\"\"\n        return list(self._slice_template(source))\n\n    def _slice_rendered(self, raw_str, templated_str, raw_sliced, config):\n        \"\"\"Match the raw slices up with the rendered string.\"\"\"\n",
        "QUIET", None, "R04i: the slicer call extracted into a helper that slice_file calls after rendering",
    ),
    Variant(
        "quiet-r04i-formatter-inline-iterator-named", PYTPL,
        "        fmt = Formatter()\n        in_idx = 0\n        for literal_text, field_name, format_spec, conversion in fmt.parse(in_str):\n",
        "        in_idx = 0\n        fields = Formatter().parse(in_str)\n        for literal_text, field_name, format_spec, conversion in fields:\n",
        "QUIET", None, "R04i: Formatter() used inline, the parse iterator named before the loop",
    ),
    # breaking twins in the same spellings
    Variant(
        "r04i-twin-helper-called-before-render", PYTPL,
        '        templated_str = render_func(raw_str)\n        templater_logger.debug("    Templated String: %r", templated_str)\n        # Slice the raw file\n        raw_sliced = list(self._slice_template(raw_str))\n',
        "        raw_sliced = self._raw_slices(raw_str)\n        templated_str = render_func(raw_str)\n        templater_logger.debug(\"    Templated String: %r\", templated_str)\n        templater_logger.debug(\"    Raw Sliced:\")\n        for idx, raw_slice in enumerate(raw_sliced):\n            templater_logger.debug(\"        %s: %r\", idx, raw_slice)\n        return self._slice_rendered(raw_str, templated_str, raw_sliced, config)\n\n    def _raw_slices(self, source: str) -> list[RawFileSlice]:\n        \"\"\"Slice the raw file.\"\"\"\n        return list(self._slice_template(source))\n\n    def _slice_rendered(self, raw_str, templated_str, raw_sliced, config):\n        \"\"\"Match the raw slices up with the rendered string.\"\"\"\n",
        "R04i", "slice_file", "helper spelling, but the helper is called before the render step",
    ),
    Variant(
        "r04i-twin-render-alias-of-another-string", PYTPL,
        '        templated_str = render_func(raw_str)\n',
        "        render = render_func\n        templated_str = render(append_to_templated)\n",
        "R04i", "slice_file", "alias spelling, but what is rendered is not the string that gets sliced",
    ),
    Variant(
        "r04i-twin-keyword-slicer-before-render", PYTPL,
        '        templated_str = render_func(raw_str)\n        templater_logger.debug("    Templated String: %r", templated_str)\n        # Slice the raw file\n        raw_sliced = list(self._slice_template(raw_str))\n',
        "        # Slice the raw file\n        raw_sliced = list(self._slice_template(in_str=raw_str))\n        templated_str = render_func(raw_str)\n        templater_logger.debug(\"    Templated String: %r\", templated_str)\n",
        "R04i", "slice_file", "keyword spelling, slicer first",
    ),
]
