"""C27 — configuration precedence and isolation.

R27a  precedence is the argument order of the merge calls, decided by *where each
      argument comes from* (provenance), never by the names of locals:
      * ``load_config_up_to_path`` returns ``nested_combine(...)`` whose arguments are,
        in this order, derived from: the user app-dir loader, the home (``~``) loader,
        the stack between ``~`` and the path (parents), the stack between the working
        directory and the path, the explicitly given extra config file;
      * the stacks keep the yield order of ``iter_intermediate_paths`` (no reversal /
        sorting / stepped slice) and ``iter_intermediate_paths`` yields outer -> inner:
        the last yield on every path derives from ``inner_path`` only, every earlier
        yield derives from ``outer_path`` (directly or through the common path), the
        walk starts at the common path and advances by the *first* remaining component;
      * ``FluffConfig.__init__`` merges (plugin defaults, ``configs``, ``overrides``) in
        this order, ``overrides`` wrapped under ``core``; the constructor keeps
        overrides / extra_config_path / ignore_local_config for children;
      * ``make_child_from_path`` forwards the three stored values; ``from_path`` /
        ``from_root`` pass file config as ``configs`` and overrides as ``overrides``;
        the CLI ``get_config`` hands the command line to ``overrides``.
R27b  fresh-receiver typestate: outside ``FluffConfig`` the receiver of
      ``process_raw_file_for_config`` / ``process_inline_config`` / ``set_value`` /
      ``_handle_comma_separated_values`` / ``_initialise_dialect`` is, on every path, a
      value created in the same function by ``.copy()``, ``make_child_from_path``,
      ``from_path/from_root/from_string(s)/from_kwargs``, the constructor, or by a
      function of the tree whose returned value (at that tuple position) is fresh in
      the same sense; a parameter is accepted when every caller in the tree passes a
      fresh value.  Reviewed exceptions: table ``R27B_REVIEWED`` (one symbol each).
R27c  cache-escape taint: a value returned by an ``@cache``/``@lru_cache`` loader of
      ``core/config`` (or by a function that forwards such a value) is cache-owned (T);
      sub-objects reached by ``[...]``/``.get``/iteration are cache-owned; ``.copy()`` /
      ``dict()`` / ``list()`` / displays give a fresh container of cache-owned elements
      (C); ``nested_combine`` / ``deepcopy`` give a clean value.  A cache-owned value is
      never the target of a store / ``del`` / in-place operator / mutating method, never
      passed to a function of the tree whose summary mutates or stores that parameter,
      never stored in an attribute.  ``nested_combine`` itself: every store into the
      result is ``deepcopy(...)`` or the recursive merge, the result is a fresh dict,
      and no input is ever returned.
      Accepted: mutating the fresh dict *inside* the cached function before it is
      returned; calls to functions outside the tree are assumed not to mutate.

Spellings that are the same fact for these rules (each has a QUIET self-test variant, and a
breaking variant written in the same spelling where one is possible):
  * a value read through plain locals (merge layers, ``self._x`` forwarded to the child, the
    dict handed to ``deepcopy``, the copy / recursive merge stored into the merge result, the
    object ``copy()`` returns): decided on reaching definitions, never on the local's name;
  * ``nested_combine(*layers)`` where ``layers`` is one list/tuple display that nothing grows,
    re-orders or stores into == the elements of the display as arguments;
  * a comprehension spelled as a loop that ``append``s / ``extend``s to an initially empty
    list (loader stacks; ``insert`` is not accepted), and the CLI options dict filled by
    ``d[k] = v`` / ``d.update`` from an iteration over ``kwargs`` as a whole (one picked
    option such as ``kwargs.pop("library_path")`` does not count);
  * the walked path yielded through a local (``x = p.resolve(); yield x``) and the first
    remaining component hoisted (``parts = ...parts; first = parts[0]; p / first``);
  * ``a or b`` / ``x if c else y`` stored in a local before the merge == written in the call;
  * a tuple kept whole and indexed (``t = f(); t[1]``) == unpacked, in the caller and (the
    result tuple built in a local before ``return``) in the callee.
  * the ``if overrides:`` test hoisted into a local (``flag = bool(overrides); if flag:``)
    while ``overrides`` is not re-bound in between; a creating method called through a
    bound-method local (``mk = cfg.make_child_from_path; mk(fname)``).
"""

from __future__ import annotations

import ast
from typing import Dict, List, Optional, Tuple

from ..cfg import cfg_of, origins
from ..flow import (
    Src, bind_args, cone, cone_calls, cone_has_param, is_method_bound, is_param_value, is_self_attr,
    returns_of, single_sources, sources,
)
from ..index import (
    AnalysisError, FuncNode, call_name, calls_in, enclosing_class, enclosing_function, last_attr,
    module_of, norm, short, walk_local,
)
from ..report import construct_of

LOADER = "src/sqlfluff/core/config/loader.py"
CFILE = "src/sqlfluff/core/config/file.py"
FLUFF = "src/sqlfluff/core/config/fluffconfig.py"
HDICT = "src/sqlfluff/core/helpers/dict.py"
HFILE = "src/sqlfluff/core/helpers/file.py"
LINTER = "src/sqlfluff/core/linter/linter.py"
CLI = "src/sqlfluff/cli/commands.py"
DISC = "src/sqlfluff/core/linter/discovery.py"

MUTATORS_27B = (
    "process_raw_file_for_config", "process_inline_config", "set_value",
    "_handle_comma_separated_values", "_initialise_dialect",
)
FRESH_METHODS = ("copy", "make_child_from_path", "from_path", "from_root", "from_string", "from_strings", "from_kwargs")

# Reviewed exceptions of R27b: (construct, mutator, receiver source, reason).  One
# symbol per entry; an entry only applies while the call is not inside a loop.
R27B_REVIEWED = [
    (
        "src/sqlfluff/cli/commands.py::render", "process_raw_file_for_config", "lnt.config",
        "single-shot command, processes one input and exits",
    ),
]


# ---------------------------------------------------------------------------
# helpers
# ---------------------------------------------------------------------------


def _resolved(repo, call: ast.Call):
    return repo.resolve_name(module_of(call), call_name(call))


def _is_call_to(repo, call, rel: str, name: str) -> bool:
    if not isinstance(call, ast.Call):
        return False
    r = _resolved(repo, call)
    return bool(r) and r[0].relpath == rel and getattr(r[1], "name", None) == name


def _is_nested_combine(repo, call) -> bool:
    return _is_call_to(repo, call, HDICT, "nested_combine")


def _is_home(n: ast.AST) -> bool:
    if not isinstance(n, ast.Call):
        return False
    nm = call_name(n)
    if nm.endswith("expanduser") and n.args and isinstance(n.args[0], ast.Constant) and n.args[0].value == "~":
        return True
    return nm in ("Path.home", "pathlib.Path.home")


def _is_cwd(n: ast.AST) -> bool:
    return isinstance(n, ast.Call) and call_name(n) in ("Path.cwd", "pathlib.Path.cwd", "os.getcwd", "os.getcwdu")


def _in_loop(node: ast.AST) -> bool:
    p = getattr(node, "_parent", None)
    while p is not None and not isinstance(p, FuncNode):
        if isinstance(p, (ast.For, ast.While, ast.AsyncFor) + (ast.ListComp, ast.SetComp, ast.GeneratorExp, ast.DictComp)):
            return True
        p = getattr(p, "_parent", None)
    return False


def _empty_literal(e: ast.AST) -> bool:
    return (isinstance(e, ast.Dict) and not e.keys) or (isinstance(e, (ast.List, ast.Tuple)) and not e.elts)


def _growers(cfg, f, methods: tuple, subscript_stores: bool) -> list:
    """(node, origin ids of the container, value expression, statement) for every statement of
    ``f`` that puts a value into a local container: ``x.<method>(v)`` and, when asked,
    ``x[k] = v``."""
    out = []
    for c in calls_in(f):
        if isinstance(c.func, ast.Attribute) and c.func.attr in methods and isinstance(c.func.value, ast.Name) and c.args and not c.keywords:
            at_c = cfg.stmt_of(c)
            if at_c is not None:
                out.append((c, _origin_ids(cfg, c.func.value, at_c), c.args[-1], at_c))
    if subscript_stores:
        for n in walk_local(f):
            if isinstance(n, ast.Assign):
                for t in n.targets:
                    if isinstance(t, ast.Subscript) and isinstance(t.value, ast.Name):
                        out.append((n, _origin_ids(cfg, t.value, n), n.value, n))
    return out


def _cone_with_growth(cfg, f, e, at, growers: list, *, resolve_call=None, depth: int = 0) -> list:
    """Derivation cone of ``e`` in which a local container also derives from what the
    ``growers`` put into it (a display / comprehension spelled as a loop that fills an
    initially empty container).  The container is identified by its definitions
    (reaching definitions shared between the name read and the name grown), not by name."""
    nodes = cone(cfg, e, at, resolve_call=resolve_call, depth=depth)
    seen_nodes = {id(n) for n in nodes}
    used = set()
    i = 0
    while i < len(nodes):
        n = nodes[i]
        i += 1
        if not (isinstance(n, ast.Name) and isinstance(getattr(n, "ctx", None), ast.Load) and enclosing_function(n) is f):
            continue
        at_n = cfg.stmt_of(n)
        if at_n is None:
            continue
        ids = _origin_ids(cfg, n, at_n)
        for g, rids, val, at_g in growers:
            if id(g) in used or not (ids & rids):
                continue
            used.add(id(g))
            for m in cone(cfg, val, at_g, resolve_call=resolve_call, depth=depth):
                if id(m) not in seen_nodes:
                    seen_nodes.add(id(m))
                    nodes.append(m)
    return nodes


def _uses_whole_mapping(cfg, nodes, param: str) -> bool:
    """Some node of the cone reads the mapping parameter ``param`` as a whole (iterates it,
    passes it on, ``.items()``...) rather than picking one constant key out of it."""
    for n in nodes:
        if not (isinstance(n, ast.Name) and isinstance(getattr(n, "ctx", None), ast.Load)):
            continue
        at_n = cfg.stmt_of(n)
        ss = sources(cfg, n, at_n) if at_n is not None else []
        if not ss or not all(x.kind == "param" and x.expr.arg == param for x in ss):
            continue
        par = getattr(n, "_parent", None)
        if isinstance(par, ast.Subscript) and par.value is n and isinstance(par.slice, ast.Constant):
            continue
        if isinstance(par, ast.Attribute) and par.value is n and par.attr in ("pop", "get", "setdefault", "__getitem__"):
            call = getattr(par, "_parent", None)
            if isinstance(call, ast.Call) and call.func is par and call.args and isinstance(call.args[0], ast.Constant):
                continue
        return True
    return False


def _origin_ids(cfg, name: ast.Name, at) -> set:
    """Identity of the definitions a plain local may hold at ``at`` (two names with a common
    element may denote the same object)."""
    return {id(s.expr) for s in sources(cfg, name, at)}


def _self_attr_value(cfg, e: ast.AST, attr: str, at) -> bool:
    """``e`` is ``self.<attr>``, written directly or read through plain locals (every
    source); through a local only while the function never re-binds ``self.<attr>``."""
    if is_self_attr(e, attr):
        return True
    if not isinstance(e, ast.Name):
        return False
    ss = sources(cfg, e, at)
    if not ss or not all(s.kind == "expr" and not s.path and is_self_attr(s.expr, attr) for s in ss):
        return False
    for n in walk_local(cfg.func):
        tgts = n.targets if isinstance(n, ast.Assign) else [n.target] if isinstance(n, (ast.AnnAssign, ast.AugAssign)) else []
        if any(is_self_attr(t, attr) for t in tgts):
            return False
    return True


def _indexed_sources(cfg, e: ast.AST, at) -> list:
    """``single_sources`` that also reads ``t[<int>]`` of a local ``t`` as position <int> of
    what ``t`` was bound to (a tuple kept whole and indexed == the tuple unpacked)."""
    out = []
    for s in single_sources(cfg, e, at):
        x = s.expr
        if (
            s.kind == "expr" and isinstance(x, ast.Subscript) and isinstance(x.value, ast.Name)
            and isinstance(x.slice, ast.Constant) and isinstance(x.slice.value, int) and not isinstance(x.slice.value, bool)
            and x.slice.value >= 0
        ):
            sub = sources(cfg, x.value, s.stmt, (x.slice.value,) + tuple(s.path))
            if sub and all(y.kind in ("expr", "param") for y in sub):
                out += sub
                continue
        out.append(s)
    return out


def _r27f(chk) -> None:
    import configparser
    import os

    from ..index import kwarg, norm, short

    repo = chk.repo
    m = repo.mod(CLI)
    cfgp = os.path.join(repo.root, "src/sqlfluff/core/default_config.cfg")
    cp = configparser.ConfigParser(interpolation=None)
    cp.read(cfgp)
    if not cp.has_section("sqlfluff"):
        raise AnalysisError("R27f: default_config.cfg has no [sqlfluff] section")
    core_keys = set(cp.options("sqlfluff"))
    # names get_config drops when falsy
    gc = repo.fn(CLI, "get_config")
    dropped = set()
    for st in ast.walk(gc):
        if isinstance(st, ast.Delete):
            for t in st.targets:
                if isinstance(t, ast.Subscript) and isinstance(t.slice, ast.Constant):
                    dropped.add(t.slice.value)
    # the filter itself: overrides = {k: v ... if v is not None}
    has_filter = any(isinstance(x, ast.DictComp) and x.generators and x.generators[0].ifs and "is not None" in norm(x.generators[0].ifs[0]) for x in ast.walk(gc))
    if not has_filter:
        # the same filter as a loop: `for k, v in kwargs.items(): if v is not None: overrides[k] = v`
        from ..idioms import conditions_at as _ca

        gcfg = cfg_of(gc)
        for l in [l for l in ast.walk(gc) if isinstance(l, ast.For) and "kwargs" in norm(l.iter)]:
            stores = [st for b in l.body for st in ast.walk(b) if isinstance(st, ast.Assign) and any(isinstance(t, ast.Subscript) for t in st.targets)]
            if stores and all(any(pol and isinstance(e, ast.Compare) and len(e.ops) == 1 and isinstance(e.ops[0], ast.IsNot) and isinstance(e.comparators[0], ast.Constant) and e.comparators[0].value is None
                                  for e, pol in _ca(gcfg, st)) for st in stores):
                has_filter = True
    chk.require(has_filter, "R27f", gc, "get_config no longer filters the command-line values by `is not None` before using them as overrides", detail="get_config: only given options become overrides")
    n = 0
    for c in [c for c in ast.walk(m.tree) if isinstance(c, ast.Call) and isinstance(c.func, ast.Attribute) and c.func.attr == "option" and norm(c.func.value) == "click"]:
        names = [a.value for a in c.args if isinstance(a, ast.Constant) and isinstance(a.value, str)]
        dest = None
        plain = [x for x in names if not x.startswith("-")]
        if plain:
            dest = plain[0]
        else:
            longs = [x for x in names if x.startswith("--")]
            if longs:
                dest = longs[0].split("/")[0].lstrip("-").replace("-", "_")
        if dest is None or dest not in core_keys:
            continue
        n += 1
        d = kwarg(c, "default")
        ok = (isinstance(d, ast.Constant) and d.value is None) or dest in dropped
        chk.require(
            ok, "R27f", c,
            f"the option {names[-1]!r} (config key `{dest}`) has the default {short(d, 20) if d is not None else 'of a flag (False)'}: without the option on the command line that value still "
            f"becomes a top-priority override, so `{dest}` set in a .sqlfluff / pyproject.toml file is ignored",
            detail=f"option for config key {dest} defaults to None",
        )
    chk.count("R27f.options_for_config_keys", n)
    chk.floor("R27f.options_for_config_keys", 6)


def run(chk) -> None:
    chk.rule("R27a", "merge calls receive their arguments in precedence order, by provenance (user app-dir < home < parents < cwd..file < extra file; defaults < files < overrides); children inherit overrides / extra path / ignore-local")
    chk.rule("R27b", "outside FluffConfig the receiver of an in-place config update is a config created for that file in the same function (reviewed exceptions listed one by one)")
    chk.rule("R27c", "dicts returned by cached config loaders are never mutated, never passed to a mutating function, never stored in an attribute before passing through nested_combine/deepcopy; nested_combine copies leaves and recurses")
    _r27a_loader(chk)
    _r27a_iter(chk)
    _r27a_fluffconfig(chk)
    _r27b(chk)
    _r27c(chk)
    chk.rule("R27d", "FluffConfig.copy() hands out an object whose _configs is a deep copy (deepcopy / nested_combine) of the original's: what R27b calls a fresh per-file config shares no nested dict with the config it was copied from")
    chk.rule("R27e", "nested_combine lets the later dict win for every key: each key of each later dict is stored into the result (or merged recursively, or rejected by a raise) on every path through the merge loop")
    _r27d(chk)
    _r27e(chk)
    chk.rule("R27f", "a command-line option that is not given does not override the configuration files: every click option whose destination is a key of the [sqlfluff] section of default_config.cfg has default=None (get_config turns every non-None value into a top-priority override), or get_config removes it when it is falsy")
    _r27f(chk)


# ---------------------------------------------------------------------------
# R27d / R27e
# ---------------------------------------------------------------------------


def _r27d(chk) -> None:
    repo = chk.repo
    cp = repo.fn(FLUFF, "FluffConfig.copy")
    cfg = cfg_of(cp)
    rets = [r for r in returns_of(cp) if r.value is not None]
    chk.count("R27d.copy_returns", len(rets))
    if not rets:
        raise AnalysisError("FluffConfig.copy has no return (anchor changed?)")
    for r in rets:
        ok, why = False, "the returned object's _configs is never assigned in copy()"
        srcs = single_sources(cfg, r.value, r)
        for s in srcs:
            if s.kind == "expr" and isinstance(s.expr, ast.Call):
                rr = _resolved(repo, s.expr)
                if rr and isinstance(rr[1], ast.ClassDef) and _is_fluffconfig_class(repo, rr[1]):
                    ok = True  # built by the constructor, which merges through nested_combine (R27a)
        if not ok and isinstance(r.value, ast.Name):
            # the object returned, by the definitions it may come from (not by the local's name):
            # `x._configs = ...` counts when x may be that same object
            ret_ids = {id(s.expr) for s in srcs}
            stores, covered = [], set()
            for n in walk_local(cp):
                if not isinstance(n, ast.Assign):
                    continue
                for t in n.targets:
                    if isinstance(t, ast.Attribute) and t.attr == "_configs" and isinstance(t.value, ast.Name) and t.value.id != "self":
                        ids = _origin_ids(cfg, t.value, n)
                        if ids & ret_ids:
                            stores.append(n)
                            covered |= ids
            if stores:
                ok = True
                for st in stores:
                    vs = single_sources(cfg, st.value, st)
                    good = bool(vs) and all(
                        v.kind == "expr" and not v.path and isinstance(v.expr, ast.Call) and last_attr(v.expr) in SANITISERS
                        and v.expr.args and _self_attr_value(cfg, v.expr.args[0], "_configs", v.stmt)
                        for v in vs
                    )
                    if not good:
                        ok, why = False, f"`{short(st, 70)}`: the value is not deepcopy(self._configs, ..) / nested_combine(self._configs)"
                if ok and not ret_ids <= covered:
                    ok, why = False, "one of the objects copy() may return never gets a copied _configs"
                if ok and not any(cfg.dominates(st, r) for st in stores):
                    ok, why = False, "a return of copy() is not preceded by the store of the copied _configs"
        chk.require(
            ok, "R27d", r,
            f"FluffConfig.copy() returns a config that shares nested dicts with the original ({why}): set_value()/inline directives applied to the "
            "per-file copy write through to the linter's own config and leak into every later file",
            detail="copy() deep-copies _configs",
        )


def _r27e(chk) -> None:
    repo = chk.repo
    nc = repo.fn(HDICT, "nested_combine")
    cfg = cfg_of(nc)
    fors = [n for n in walk_local(nc) if isinstance(n, ast.For)]
    # the loop over the keys of one input dict: `for k in d` / `for k, v in d.items()` nested in the loop over the inputs
    key_loops = [n for n in fors if any(isinstance(p, ast.For) for p in _parents(n, nc))]
    chk.count("R27e.key_loops", len(key_loops))
    if not key_loops:
        raise AnalysisError("nested_combine: loop over the keys of each input dict not found (anchor changed?)")
    for loop in key_loops:
        stores = set()
        for n in walk_local(loop):
            if isinstance(n, ast.Assign) and any(isinstance(t, ast.Subscript) for t in n.targets):
                stores.add(n)
        first = loop.body[0]
        # a pass through the body that comes back to the loop head (or leaves the loop) without a store
        skips = cfg.paths_avoiding(first, loop, lambda n: n in stores) if first not in stores else False
        chk.require(
            bool(stores) and not skips, "R27e", loop,
            "nested_combine has a path through its key loop that neither stores the later dict's value into the result, nor merges it recursively, "
            "nor raises: for such keys an earlier (lower-precedence) source wins over a later one",
            detail="every key of a later dict is stored",
        )


def _parents(n, stop):
    p = getattr(n, "_parent", None)
    while p is not None and p is not stop:
        yield p
        p = getattr(p, "_parent", None)


# ---------------------------------------------------------------------------
# R27a
# ---------------------------------------------------------------------------

ORDER = ["APPDIR", "HOME", "PARENT", "CWD", "EXTRA"]
WHAT = {
    "APPDIR": "user app-dir config",
    "HOME": "home directory (~) config",
    "PARENT": "directories between ~ and the path",
    "CWD": "directories between the working directory and the path",
    "EXTRA": "explicit extra config file",
}


def _r27a_loader(chk) -> None:
    repo = chk.repo
    f = repo.fn(LOADER, "load_config_up_to_path")
    mod = repo.mod(LOADER)
    cfg = cfg_of(f)
    iter_fn = repo.fn(HFILE, "iter_intermediate_paths")

    def rc(call):
        r = repo.resolve_name(mod, call_name(call))
        return r[1] if r and isinstance(r[1], FuncNode) and r[0].relpath == LOADER else None

    merges = []
    for r in returns_of(f):
        for s in single_sources(cfg, r.value, r):
            if s.kind == "expr" and _is_nested_combine(repo, s.expr):
                merges.append(s.expr)
            else:
                chk.fail("R27a", r, "load_config_up_to_path returns a value that is not the result of nested_combine(...): precedence is no longer decided by one merge call", detail="return value is the merge of all sources")
    chk.count("R27a.loader_merge_calls", len(merges))
    if not merges:
        chk.fail("R27a", f, "no final nested_combine(...) merge found in load_config_up_to_path", detail="return value is the merge of all sources")
        return

    # `stack.append(v)` / `stack.extend(vs)` on a local list: the list derives from v as well (a
    # comprehension spelled as a loop).  append/extend keep the order of the loop; insert() is
    # deliberately not recognised (such a stack has "no recognised provenance").
    growers = _growers(cfg, f, ("append", "extend"), subscript_stores=False)

    def full_cone(e, at) -> list:
        return _cone_with_growth(cfg, f, e, at, growers, resolve_call=rc, depth=2)

    def flat_args(args, at, depth=0) -> list:
        """Positional arguments of the merge; `*xs` where xs is (only) a list/tuple display that
        nothing grows or re-orders stands for the elements of that display, in order."""
        out = []
        for a in args:
            if isinstance(a, ast.Starred) and depth < 4:
                ss = single_sources(cfg, a.value, at)
                if len(ss) == 1 and ss[0].kind == "expr" and not ss[0].path and isinstance(ss[0].expr, (ast.List, ast.Tuple)) and ss[0].expr.elts:
                    disp = ss[0].expr
                    touched = False
                    for c in calls_in(f):
                        if isinstance(c.func, ast.Attribute) and c.func.attr in MUT_METHODS and isinstance(c.func.value, ast.Name):
                            at_c = cfg.stmt_of(c)
                            if at_c is not None and id(disp) in _origin_ids(cfg, c.func.value, at_c):
                                touched = True
                    for n in walk_local(f):
                        tg = n.targets if isinstance(n, ast.Assign) else [n.target] if isinstance(n, ast.AugAssign) else n.targets if isinstance(n, ast.Delete) else []
                        for t in tg:
                            if isinstance(t, ast.Subscript) and isinstance(t.value, ast.Name) and id(disp) in _origin_ids(cfg, t.value, n):
                                touched = True
                    if not touched:
                        out += flat_args(disp.elts, ss[0].stmt, depth + 1)
                        continue
            out.append(a)
        return out

    def classify(arg) -> Tuple[set, list]:
        e = arg.value if isinstance(arg, ast.Starred) else arg
        nodes = full_cone(e, cfg.stmt_of(arg))
        calls = cone_calls(nodes)
        classes = set()
        iters = [c for c in calls if _is_call_to(repo, c, HFILE, "iter_intermediate_paths")]
        for c in iters:
            ccfg = cfg_of(enclosing_function(c))
            b = bind_args(c, iter_fn, bound=False)
            outer, inner = b.get("outer_path"), b.get("inner_path")
            oc = cone(ccfg, outer, ccfg.stmt_of(c)) if outer is not None else []
            ic = cone(ccfg, inner, ccfg.stmt_of(c)) if inner is not None else []
            if any(_is_cwd(x) for x in oc):
                classes.add("CWD")
            elif any(_is_home(x) for x in oc):
                classes.add("PARENT")
            else:
                classes.add("ITER(unknown outer)")
            chk.require(
                cone_has_param(ic, "path"), "R27a", c,
                "the directory walk does not end at the target path (inner argument of iter_intermediate_paths does not derive from parameter 'path')",
                detail=f"walk {'cwd' if 'CWD' in classes else 'home'}..path ends at path",
            )
        if not iters:
            if any(_is_call_to(repo, c, LOADER, "_get_user_config_dir_path") or call_name(c).startswith("platformdirs.") for c in calls):
                classes.add("APPDIR")
            elif any(_is_home(c) for c in calls):
                classes.add("HOME")
            elif cone_has_param(nodes, "extra_config_path"):
                classes.add("EXTRA")
        return classes, nodes

    for merge in merges:
        if any(k.arg is None for k in merge.keywords) or merge.keywords:
            chk.fail("R27a", merge, "final merge has keyword arguments; cannot establish order", detail="merge arguments positional")
        seq = []
        for a in flat_args(merge.args, cfg.stmt_of(merge)):
            classes, nodes = classify(a)
            seq.append((a, classes, nodes))
            # order-changing transforms between the walk and the merge
            for n in nodes:
                bad = None
                if isinstance(n, ast.Call) and call_name(n) in ("reversed", "sorted"):
                    bad = call_name(n)
                if isinstance(n, ast.Subscript) and isinstance(n.slice, ast.Slice) and n.slice.step is not None:
                    bad = "stepped slice"
                if bad:
                    chk.fail("R27a", n, f"config stack is re-ordered ({bad}) between the directory walk and the merge: nearer directories no longer win", detail=f"stack order kept: {short(a, 60)}")
            if not classes:
                leaves = [s for s in single_sources(cfg, a.value if isinstance(a, ast.Starred) else a, cfg.stmt_of(a))]
                if not all(s.kind == "expr" and _empty_literal(s.expr) for s in leaves):
                    chk.fail("R27a", a, f"merge argument {short(a, 60)!r} has no recognised provenance (app-dir / home / parents / cwd stack / extra file)", detail=f"provenance of {short(a, 60)}")
        for n in walk_local(f):
            if isinstance(n, ast.Call) and isinstance(n.func, ast.Attribute) and n.func.attr in ("reverse", "sort"):
                chk.fail("R27a", n, "a config stack is re-ordered in place before the merge", detail="stack order kept (in-place)")
        # the explicit file is never dropped: an EMPTY value may stand in for the EXTRA layer only where no
        # extra config path was given (an explicitly named file that silently loses to a nested config
        # breaks the documented precedence for exactly the users who asked for it)
        for a, classes, nodes in seq:
            if classes != {"EXTRA"} or not isinstance(a, ast.Name):
                continue
            for d in cfg.reaching().defs_at(cfg.stmt_of(merge), a.id):
                if getattr(d, "kind", "") != "assign" or d.value is None or not _empty_literal(d.value) or d.stmt is None:
                    continue
                foreign = []
                for g in cfg.guards(d.stmt):
                    if not isinstance(g.stmt, (ast.If, ast.While)):
                        continue
                    for nm in {x.id for x in ast.walk(g.stmt.test) if isinstance(x, ast.Name)}:
                        if nm == "extra_config_path":
                            continue
                        os_ = origins(cfg, next(x for x in ast.walk(g.stmt.test) if isinstance(x, ast.Name) and x.id == nm), g.stmt)
                        only_extra = bool(os_) and all(
                            o.kind == "expr" and o.expr is not None and {x.id for x in ast.walk(o.expr) if isinstance(x, ast.Name)} - {"extra_config_path", "os", "Path", "str"} == set()
                            and any(isinstance(x, ast.Name) and x.id == "extra_config_path" for x in ast.walk(o.expr))
                            for o in os_
                        )
                        if not only_extra and nm not in ("os", "Path", "str", "len", "bool"):
                            foreign.append(nm)
                chk.require(
                    not foreign, "R27a", d.stmt,
                    f"the explicitly given config file is replaced by an empty layer under a condition on {sorted(set(foreign))} (not only on whether a path was given): "
                    "when that condition holds the file is merged, if at all, at a lower position and a nested config wins over it",
                    detail="explicit config layer is empty only when no path was given",
                )
        pos: Dict[str, int] = {}
        for want in ORDER:
            idx = [i for i, (_, cl, _) in enumerate(seq) if cl == {want}]
            if chk.require(len(idx) == 1, "R27a", merge, f"final merge does not receive exactly one argument derived only from the {WHAT[want]} (found {len(idx)})", detail=f"merge source present: {want}"):
                pos[want] = idx[0]
        for a, b in zip(ORDER, ORDER[1:]):
            if a in pos and b in pos:
                chk.require(
                    pos[a] < pos[b], "R27a", merge,
                    f"precedence inverted: {WHAT[b]} is merged before {WHAT[a]}, so the lower-precedence source wins",
                    detail=f"merge order: {a} < {b}",
                )
        chk.sample({"rule": "R27a", "site": f"{LOADER}:{merge.lineno}", "order": [sorted(cl) for _, cl, _ in seq]})
    chk.floor("R27a.loader_merge_calls", 1)


def _truthy_names(cfg, e: ast.AST, depth: int = 0) -> set:
    """Locals known to be truthy when the branch condition atom ``e`` holds: ``e`` itself when it
    is a name, and -- the test hoisted into a local (``flag = bool(x)`` / ``flag = x``; ``if
    flag:``) -- the name tested there, provided it still holds the same value at the branch."""
    if isinstance(e, ast.Call) and call_name(e) == "bool" and len(e.args) == 1 and not e.keywords:
        return _truthy_names(cfg, e.args[0], depth + 1)
    if not isinstance(e, ast.Name) or depth > 4:
        return set()
    out = {e.id}
    at = cfg.stmt_of(e)
    rd = cfg.reaching()
    defs = list(rd.defs_at(at, e.id)) if at is not None else []
    if len(defs) == 1 and defs[0].kind == "assign" and not defs[0].path:
        d = defs[0]
        for inner in _truthy_names(cfg, d.value, depth + 1):
            probe = next((n for n in ast.walk(d.value) if isinstance(n, ast.Name) and n.id == inner), None)
            if probe is None:
                continue
            same = {id(x.node) for x in rd.defs_at(d.stmt, inner)} == {id(x.node) for x in rd.defs_at(at, inner)}
            if same:
                out.add(inner)
    return out


def _choice_leaves(cfg, e: ast.AST, at, via=None, depth: int = 0) -> list:
    """(name through which it was read or None, Src) for every value ``e`` may evaluate to."""
    if depth > 10:
        return []
    if isinstance(e, ast.Name):
        out = []
        for s in sources(cfg, e, at):
            if s.kind == "expr" and not s.path and isinstance(s.expr, (ast.BoolOp, ast.IfExp)):
                out += _choice_leaves(cfg, s.expr, s.stmt, e, depth + 1)
            else:
                out.append((e, s))
        return out
    if isinstance(e, ast.BoolOp):
        return [x for v in e.values for x in _choice_leaves(cfg, v, at, via, depth + 1)]
    if isinstance(e, ast.IfExp):
        return _choice_leaves(cfg, e.body, at, via, depth + 1) + _choice_leaves(cfg, e.orelse, at, via, depth + 1)
    if isinstance(e, ast.Dict):
        return [(via, Src(e, (), "expr", at, cfg))]  # a display written in place: a value of its own
    out = []
    for n in ast.walk(e):  # any other expression: every name it mentions (conservative)
        if isinstance(n, ast.Name) and isinstance(n.ctx, ast.Load):
            out += _choice_leaves(cfg, n, at, via, depth + 1)
    return out


def _base_name(e: ast.AST) -> Optional[ast.Name]:
    while isinstance(e, (ast.Attribute, ast.Call, ast.Subscript)):
        e = e.func if isinstance(e, ast.Call) else e.value
    return e if isinstance(e, ast.Name) else None


def _r27a_iter(chk) -> None:
    repo = chk.repo
    g = repo.fn(HFILE, "iter_intermediate_paths")
    cfg = cfg_of(g)
    params = [a.arg for a in g.args.args]
    if "inner_path" not in params or "outer_path" not in params:
        raise AnalysisError("iter_intermediate_paths no longer has parameters inner_path/outer_path")
    ystmts = {}
    for n in walk_local(g):
        if isinstance(n, (ast.Yield, ast.YieldFrom)):
            ystmts[cfg.stmt_of(n)] = n
    chk.count("R27a.iter_yields", len(ystmts))
    chk.floor("R27a.iter_yields", 1)
    final = [s for s in ystmts if cfg.reachable(s) and cfg.paths_avoiding(s, cfg.exit, lambda n, s=s: n in ystmts and n is not s)]
    chk.require(
        bool(final) and not cfg.paths_avoiding(cfg.entry, cfg.exit, lambda n: n in final), "R27a", g,
        "iter_intermediate_paths can finish without a last yield", detail="every path ends with a final yield",
    )
    for s, y in ystmts.items():
        c = cone(cfg, y.value, s) if y.value is not None else []
        has_in, has_out = cone_has_param(c, "inner_path"), cone_has_param(c, "outer_path")
        if s in final:
            chk.require(
                has_in and not has_out, "R27a", y,
                "the last path yielded is not the inner path: the config nearest to the file would not be merged last",
                detail="last yield derives from inner_path only",
            )
        else:
            chk.require(
                has_out, "R27a", y,
                "a path yielded before the last one does not derive from the outer/common path: order is no longer outer -> inner",
                detail=f"earlier yield derives from outer_path: {short(y, 50)}",
            )
    # the walk: starts at the common path, advances by the first remaining component
    loop_yields = [(s, y) for s, y in ystmts.items() if _in_loop(y)]
    chk.require(bool(loop_yields), "R27a", g, "intermediate directories are not yielded (no yield inside the walk loop)", detail="walk loop yields intermediate directories")
    for s, y in loop_yields:
        v = _base_name(y.value)
        if v is None:
            chk.fail("R27a", y, "cannot identify the walked path variable", detail="walk variable")
            continue
        loop = s
        while loop is not None and not isinstance(loop, (ast.While, ast.For)):
            loop = getattr(loop, "_parent", None)
        srcs = _walk_leaves(cfg, y.value, s)
        outside = [x for x in srcs if x.stmt is not None and not _inside(x.stmt, loop)]
        inside = [x for x in srcs if x.stmt is not None and _inside(x.stmt, loop)]
        starts_common = any(
            any(isinstance(n, ast.Call) and call_name(n).endswith("commonpath") for n in cone(cfg, x.expr, x.stmt)) for x in outside
        )
        chk.require(starts_common, "R27a", y, "the walk does not start at the common path (it is advanced before the first yield, or starts elsewhere)", detail="walk starts at the common path")
        ok_adv = False
        for x in inside:
            for n in cone(cfg, x.expr, x.stmt):
                if isinstance(n, ast.BinOp) and isinstance(n.op, ast.Div):
                    # the component appended: `<...>.parts[i]`, written in place or hoisted into locals;
                    # every such pick feeding the division must be the first one (i == 0)
                    picks = [m for m in cone(cfg, n.right, cfg.stmt_of(n)) if _is_parts_pick(cfg, m)]
                    if picks and all(isinstance(m.slice, ast.Constant) and m.slice.value == 0 and not isinstance(m.slice.value, bool) for m in picks):
                        ok_adv = True
        chk.require(ok_adv, "R27a", y, "the walk is not advanced by the first remaining component of inner_path (outer -> inner order is lost)", detail="walk advances by first remaining component")


def _is_parts_pick(cfg, m: ast.AST) -> bool:
    """``m`` is ``X[...]`` where X is ``<path>.parts``, directly or through plain locals."""
    if not isinstance(m, ast.Subscript):
        return False
    at = cfg.stmt_of(m)
    ss = single_sources(cfg, m.value, at)
    return bool(ss) and all(s.kind == "expr" and not s.path and isinstance(s.expr, ast.Attribute) and s.expr.attr == "parts" for s in ss)


def _walk_leaves(cfg, e: ast.AST, at, _seen=None) -> list:
    """Definitions the *walked path* yielded as ``e`` may come from.  A method / attribute
    chain on a local (``x.resolve()``, also when first stored in another local) is still that
    local's path, so it is looked through; the advance (``x / part``) and the start value
    (``Path(commonpath(..))``) are leaves.  Deliberately not transitive through the advance:
    what matters is which definition reaches the yield *directly* (first iteration: the start)."""
    _seen = _seen if _seen is not None else set()
    base = _base_name(e)
    if base is None:
        return []
    out = []
    for s in sources(cfg, base, at):
        if id(s.expr) in _seen:
            continue
        _seen.add(id(s.expr))
        x = s.expr
        if s.kind == "expr" and not s.path and isinstance(x, (ast.Attribute, ast.Call, ast.Subscript)):
            b2 = _base_name(x)
            if b2 is not None and any(z.kind in ("expr", "param", "for", "aug") for z in sources(cfg, b2, s.stmt)):
                out += _walk_leaves(cfg, x, s.stmt, _seen)
                continue
        out.append(s)
    return out


def _inside(node: ast.AST, root: Optional[ast.AST]) -> bool:
    p = node
    while p is not None:
        if p is root:
            return True
        p = getattr(p, "_parent", None)
    return False


def _r27a_fluffconfig(chk) -> None:
    repo = chk.repo
    init = repo.fn(FLUFF, "FluffConfig.__init__")
    cfg = cfg_of(init)
    stores = {}
    for n in walk_local(init):
        if isinstance(n, (ast.Assign, ast.AnnAssign)):
            tgts = n.targets if isinstance(n, ast.Assign) else [n.target]
            for t in tgts:
                if isinstance(t, ast.Attribute) and isinstance(t.value, ast.Name) and t.value.id == "self" and n.value is not None:
                    stores.setdefault(t.attr, []).append(n)
    # every value stored in self._configs is (directly or through plain locals) a nested_combine(...) call
    merges, all_merges = [], bool(stores.get("_configs"))
    for n in stores.get("_configs", []):
        for s in single_sources(cfg, n.value, n):
            if s.kind == "expr" and isinstance(s.expr, ast.Call) and _is_nested_combine(repo, s.expr):
                merges.append((s.stmt, s.expr))
            else:
                all_merges = False
    chk.count("R27a.init_merge", len(merges))
    chk.require(bool(merges) and all_merges, "R27a", init, "FluffConfig.__init__ no longer builds self._configs by a single nested_combine(...)", detail="self._configs is the merge")
    for st, call in merges:
        args = list(call.args)
        cones = [cone(cfg, a, st) for a in args]

        def has_hook(c):
            return any(isinstance(n, ast.Call) and last_attr(n) == "load_default_config" for n in c)

        roles = []
        for c in cones:
            r = set()
            if has_hook(c):
                r.add("defaults")
            if cone_has_param(c, "configs"):
                r.add("configs")
            if cone_has_param(c, "overrides"):
                r.add("overrides")
            roles.append(r)
        want = [{"defaults"}, {"configs"}, {"overrides"}]
        for i, (w, what) in enumerate(zip(want, ("plugin defaults", "file configs", "overrides"))):
            chk.require(
                len(roles) == 3 and roles[i] == w, "R27a", call,
                f"FluffConfig.__init__ merge: argument {i + 1} must be the {what} (got {[sorted(r) for r in roles]}); later arguments win",
                detail=f"init merge position {i + 1}: {what}",
            )
        chk.sample({"rule": "R27a", "site": f"{FLUFF}:{call.lineno}", "order": [sorted(r) for r in roles]})
        # overrides wrapped under core
        if len(args) == 3:
            wrapped, raw_ok = False, True
            # the values the third argument may be: names are read through their definitions,
            # `a or b` / `a and b` / `x if c else y` through their operands (also when such an
            # expression was first stored in a local)
            for nm, s in _choice_leaves(cfg, args[2], st):
                if s.kind == "param" and s.expr.arg == "overrides":
                    # the raw parameter may only reach the merge when it is falsy
                    rewr = [
                        a for a in walk_local(init)
                        if isinstance(a, ast.Assign) and any(isinstance(t, ast.Name) and t.id == nm.id for t in a.targets)
                        and any(pol and nm.id in _truthy_names(cfg, e) for e, pol in cfg.conditions(a))
                    ]
                    raw_ok = raw_ok and bool(rewr)
                elif s.kind == "expr" and isinstance(s.expr, ast.Dict):
                    d = s.expr
                    if len(d.keys) == 1 and isinstance(d.keys[0], ast.Constant) and d.keys[0].value == "core" and cone_has_param(cone(cfg, d.values[0], s.stmt), "overrides"):
                        wrapped = True
            chk.require(wrapped and raw_ok, "R27a", call, "overrides are not wrapped under the 'core' section before the merge (they would not override [sqlfluff] values)", detail="overrides wrapped under core")
    for attr, param in (("_overrides", "overrides"), ("_extra_config_path", "extra_config_path"), ("_ignore_local_config", "ignore_local_config")):
        sts = stores.get(attr, [])
        ok = bool(sts) and all(cone_has_param(cone(cfg, s.value, s), param) for s in sts)
        chk.require(ok, "R27a", init, f"FluffConfig.__init__ does not keep parameter {param!r} in self.{attr} for child configs", detail=f"self.{attr} keeps {param}")

    # make_child_from_path forwards
    mk = repo.fn(FLUFF, "FluffConfig.make_child_from_path")
    from_path = repo.fn(FLUFF, "FluffConfig.from_path")
    mcfg = cfg_of(mk)
    rets = returns_of(mk)
    chk.count("R27a.make_child_returns", len(rets))
    chk.floor("R27a.make_child_returns", 1)
    for r in rets:
        for s in single_sources(mcfg, r.value, r):
            call = s.expr
            if not (s.kind == "expr" and isinstance(call, ast.Call) and last_attr(call) == "from_path"):
                chk.fail("R27a", r, "make_child_from_path does not build the child through from_path(...)", detail="child built by from_path")
                continue
            b = bind_args(call, from_path, bound=True)
            for pname, attr in (("overrides", "_overrides"), ("extra_config_path", "_extra_config_path"), ("ignore_local_config", "_ignore_local_config")):
                a = b.get(pname)
                chk.require(
                    a is not None and _self_attr_value(mcfg, a, attr, s.stmt), "R27a", call,
                    f"child config does not inherit {pname} (make_child_from_path must pass {pname}=self.{attr})",
                    detail=f"child inherits {pname}",
                )
            a = b.get("path")
            chk.require(a is not None and is_param_value(mcfg, a, "path", s.stmt), "R27a", call, "child config is not loaded for the given path", detail="child loaded for path")

    # from_path / from_root: file config -> configs, overrides -> overrides
    up = repo.fn(LOADER, "load_config_up_to_path")
    for name in ("from_path", "from_root"):
        fn = repo.fn(FLUFF, f"FluffConfig.{name}")
        c = cfg_of(fn)
        rets = returns_of(fn)
        chk.count(f"R27a.{name}_returns", len(rets))
        chk.floor(f"R27a.{name}_returns", 1)
        for r in rets:
            for s in single_sources(c, r.value, r):
                call = s.expr
                is_ctor = s.kind == "expr" and isinstance(call, ast.Call) and (norm(call.func) == "cls" or norm(call.func) == "FluffConfig")
                if not chk.require(is_ctor, "R27a", r, f"{name} does not return a newly constructed config", detail=f"{name}: constructs the config"):
                    continue
                b = bind_args(call, init, bound=True)
                for p in ("overrides", "extra_config_path", "ignore_local_config"):
                    a = b.get(p)
                    chk.require(
                        a is not None and is_param_value(c, a, p, s.stmt), "R27a", call,
                        f"{name}: parameter {p!r} is not handed to the constructor as {p!r}", detail=f"{name}: passes {p}",
                    )
                a = b.get("configs")
                loads = [n for n in cone(c, a, s.stmt)] if a is not None else []
                lcalls = [n for n in loads if _is_call_to(repo, n, LOADER, "load_config_up_to_path")]
                ok = bool(lcalls) and not cone_has_param(loads, "overrides")
                for lc in lcalls:
                    lb = bind_args(lc, up, bound=False)
                    for p in ("extra_config_path", "ignore_local_config"):
                        ok = ok and lb.get(p) is not None and is_param_value(c, lb[p], p, c.stmt_of(lc))
                    if name == "from_path":
                        ok = ok and lb.get("path") is not None and is_param_value(c, lb["path"], "path", c.stmt_of(lc))
                chk.require(ok, "R27a", call, f"{name}: 'configs' is not the file configuration loaded by load_config_up_to_path with the given path / extra_config_path / ignore_local_config", detail=f"{name}: configs from load_config_up_to_path")

    # CLI: command line -> overrides
    gc = repo.fn(CLI, "get_config")
    c = cfg_of(gc)
    from_root = repo.fn(FLUFF, "FluffConfig.from_root")
    n_ok = 0
    for r in returns_of(gc):
        for s in single_sources(c, r.value, r):
            call = s.expr
            if s.kind == "expr" and isinstance(call, ast.Call) and last_attr(call) == "from_root":
                n_ok += 1
                b = bind_args(call, from_root, bound=True)
                a = b.get("overrides")
                # the options dict: a display / comprehension over kwargs, or an empty dict filled
                # by `d[k] = v` / `d.update(..)` from kwargs
                # (then what is filled in must range over kwargs as a whole, not be one picked option)
                fill = _growers(c, gc, ("update",), subscript_stores=True)
                from_cli = a is not None and (
                    cone_has_param(cone(c, a, s.stmt), "kwargs")
                    or _uses_whole_mapping(c, _cone_with_growth(c, gc, a, s.stmt, fill), "kwargs")
                )
                chk.require(from_cli, "R27a", call, "CLI options are not passed as overrides", detail="cli: options are overrides")
                for p in ("extra_config_path", "ignore_local_config"):
                    a = b.get(p)
                    chk.require(a is not None and is_param_value(c, a, p, s.stmt), "R27a", call, f"CLI {p} is not passed on", detail=f"cli: passes {p}")
    chk.require(n_ok >= 1, "R27a", gc, "cli get_config no longer builds the config through FluffConfig.from_root", detail="cli: from_root")


# ---------------------------------------------------------------------------
# R27b
# ---------------------------------------------------------------------------


class _Names:
    """Index of function definitions of the tree by simple name."""

    def __init__(self, repo):
        self.repo = repo
        self.idx: Dict[str, List[Tuple[object, ast.AST]]] = {}
        for m in repo.modules.values():
            for q, n in m.functions():
                self.idx.setdefault(n.name, []).append((m, n))

    def get(self, name: str):
        return self.idx.get(name, [])


def _is_fluffconfig_class(repo, c: Optional[ast.ClassDef]) -> bool:
    if c is None:
        return False
    m = module_of(c)
    return any(cc.name == "FluffConfig" for _, cc in repo.mro(m, c))


def _fresh(repo, names: _Names, cfg, s, depth: int = 2) -> Tuple[bool, str]:
    """Is the source ``s`` a config object created here (see module docstring)?"""
    e = s.expr
    if s.kind != "expr" or not isinstance(e, ast.Call):
        if s.kind == "param":
            return False, f"parameter {e.arg!r}"
        return False, norm(e) if isinstance(e, ast.AST) else str(e)
    la = last_attr(e)
    is_method_call = isinstance(e.func, ast.Attribute)
    if isinstance(e.func, ast.Name):
        # a bound method first stored in a local: `mk = cfg.make_child_from_path; mk(fname)`
        al = sources(cfg, e.func, s.stmt) if s.stmt is not None else []
        if al and all(x.kind == "expr" and not x.path and isinstance(x.expr, ast.Attribute) for x in al) and len({x.expr.attr for x in al}) == 1:
            la, is_method_call = al[0].expr.attr, True
    if not s.path:
        if is_method_call and la in FRESH_METHODS:
            return True, la
        r = _resolved(repo, e)
        if r and isinstance(r[1], ast.ClassDef) and _is_fluffconfig_class(repo, r[1]):
            return True, "constructor"
    if depth <= 0:
        return False, norm(e)
    # a function of the tree that returns a fresh config at this tuple position
    cands = names.get(la)
    r = _resolved(repo, e)
    if r and isinstance(r[1], FuncNode):
        cands = [(r[0], r[1])]
    if not cands:
        return False, norm(e)
    for m, fn in cands:
        rets = returns_of(fn)
        if not rets:
            return False, norm(e)
        fcfg = cfg_of(fn)
        for ret in rets:
            v, path = ret.value, tuple(s.path)
            while path and isinstance(v, (ast.Tuple, ast.List)) and isinstance(path[0], int) and path[0] < len(v.elts):
                v, path = v.elts[path[0]], path[1:]
            if path and isinstance(v, ast.Name):
                # the tuple was first stored in a local: position <path> of what the local holds
                inner = sources(fcfg, v, ret, path)
                for s2 in inner:
                    ok, why = _fresh(repo, names, fcfg, s2, depth - 1)
                    if not ok:
                        return False, f"{norm(e)} -> {why}"
                if not inner:
                    return False, norm(e)
                continue
            if path:
                return False, norm(e)
            for s2 in _indexed_sources(fcfg, v, ret):
                ok, why = _fresh(repo, names, fcfg, s2, depth - 1)
                if not ok:
                    return False, f"{norm(e)} -> {why}"
    return True, f"{la}()"


def _r27b(chk) -> None:
    repo = chk.repo
    names = _Names(repo)
    used_rows = set()
    n_sites = 0
    for m in repo.modules.values():
        if not any(x in m.text for x in MUTATORS_27B):
            continue
        for q, f in m.functions():
            for call in calls_in(f):
                la = last_attr(call)
                if la not in MUTATORS_27B or not isinstance(call.func, ast.Attribute):
                    continue
                recv = call.func.value
                ec = enclosing_class(f)
                if isinstance(recv, ast.Name) and recv.id in ("self", "cls") and _is_fluffconfig_class(repo, ec):
                    continue
                n_sites += 1
                chk.count("R27b.external_mutation_sites")
                cfg = cfg_of(f)
                st = cfg.stmt_of(call)
                construct = construct_of(call)
                verdicts = []
                for s in _indexed_sources(cfg, recv, st):
                    ok, why = _fresh(repo, names, cfg, s)
                    if not ok and s.kind == "param":
                        ok, why = _callers_pass_fresh(repo, names, f, s.expr.arg)
                    verdicts.append((ok, why, s))
                chk.sample({"rule": "R27b", "site": f"{m.relpath}:{call.lineno}", "call": short(call, 70), "receiver_sources": [f"{'fresh' if ok else 'NOT fresh'}: {why}" for ok, why, _ in verdicts]})
                for ok, why, s in verdicts:
                    if ok:
                        chk.ok("R27b", construct, f"{la} on {why}")
                        continue
                    src_text = norm(s.expr) if isinstance(s.expr, ast.AST) and not isinstance(s.expr, ast.arg) else why
                    row = next((r for r in R27B_REVIEWED if r[0] == construct and r[1] == la and r[2] == src_text), None)
                    if row is not None and not _in_loop(call):
                        used_rows.add(row)
                        chk.ok("R27b", construct, f"{la} on {src_text} (reviewed: {row[3]})")
                        chk.count("R27b.reviewed_exceptions")
                        continue
                    chk.fail(
                        "R27b", call,
                        f"{la}() updates a config in place that was not created for this file here (receiver may be {why}): "
                        f"inline directives of one file would persist for the files processed afterwards",
                        detail=f"{la} on {src_text}",
                    )
    for row in R27B_REVIEWED:
        if row not in used_rows:
            chk.note(f"R27b: reviewed exception no longer matched (stale table row): {row[0]} {row[1]} {row[2]}")
    chk.floor("R27b.external_mutation_sites", 2)


def _callers_pass_fresh(repo, names: _Names, f, param: str) -> Tuple[bool, str]:
    """A parameter receiver is accepted when every caller passes a fresh value."""
    n_call = 0
    for m in repo.modules.values():
        if f.name not in m.text:
            continue
        for q, g in m.functions():
            for call in calls_in(g):
                if last_attr(call) != f.name or g is f:
                    continue
                b = bind_args(call, f, bound=is_method_bound(call, f))
                a = b.get(param)
                if a is None:
                    return False, f"parameter {param!r} (caller {q} passes no value)"
                n_call += 1
                gcfg = cfg_of(g)
                for s in _indexed_sources(gcfg, a, gcfg.stmt_of(call)):
                    ok, why = _fresh(repo, names, gcfg, s, depth=1)
                    if not ok:
                        return False, f"parameter {param!r} (caller {q} passes {why})"
    if not n_call:
        return False, f"parameter {param!r} (no caller in the tree)"
    return True, f"parameter {param!r} (fresh at all {n_call} call sites)"


# ---------------------------------------------------------------------------
# R27c
# ---------------------------------------------------------------------------

CLEAN, CONT, OWNED = 0, 1, 2  # clean / fresh container of cache-owned elements / cache-owned
MUT_METHODS = (
    "update", "pop", "popitem", "setdefault", "clear", "append", "extend", "insert", "remove",
    "sort", "reverse", "add", "discard", "__setitem__", "__delitem__",
)
SUB_METHODS = ("get", "setdefault", "pop", "__getitem__")
VIEW_METHODS = ("values", "items")
REWRAP = ("dict", "list", "tuple", "set", "sorted", "reversed", "frozenset", "OrderedDict", "chain", "filter")
SANITISERS = ("nested_combine", "deepcopy")
# methods of dict / list / str / Path: never resolved to a same-named method of the tree
BUILTIN_METHODS = MUT_METHODS + SUB_METHODS + VIEW_METHODS + (
    "copy", "keys", "split", "strip", "rstrip", "lstrip", "join", "format", "lower", "upper", "startswith", "endswith",
    "replace", "index", "count", "read", "write", "resolve", "absolute", "exists", "encode", "decode", "splitlines",
)


class Event:
    def __init__(self, kind, node, text):
        self.kind, self.node, self.text = kind, node, text


class Summary:
    def __init__(self):
        self.ret = CLEAN
        self.events: List[Event] = []


class CacheTaint:
    def __init__(self, repo, names: _Names):
        self.repo = repo
        self.names = names
        self.tainted: Dict[str, str] = {}  # function name -> why
        self.memo: Dict[tuple, Summary] = {}
        self.active: set = set()
        self.assume: Dict[tuple, int] = {}
        self.done_iter: set = set()
        self.changed = False
        self.unresolved = 0
        self.unresolved_calls: List[str] = []

    # -- sources ---------------------------------------------------------
    def cached_defs(self):
        out = []
        for m in self.repo.iter_modules("src/sqlfluff/core/config/"):
            for q, f in m.functions():
                for d in f.decorator_list:
                    t = d.func if isinstance(d, ast.Call) else d
                    nm = norm(t)
                    head = nm.split(".")[0]
                    fq = m.imports.get(head, head)
                    full = fq + nm[len(head):]
                    if full in ("functools.cache", "functools.lru_cache"):
                        ann = norm(f.returns) if f.returns is not None else ""
                        if ann in ("str", "int", "bool", "float", "None", "Optional[str]", "Path"):
                            continue
                        out.append((m, f))
        return out

    def is_sanitiser(self, call: ast.Call) -> bool:
        la = last_attr(call)
        return la in SANITISERS

    # -- expression taint ----------------------------------------------------
    def level(self, cfg, e, at, seeds, _depth=0) -> int:
        if e is None or _depth > 40:
            return CLEAN
        if isinstance(e, ast.Name):
            lv = CLEAN
            for s in sources(cfg, e, at):
                if s.kind == "param":
                    if s.cfg is cfg:
                        lv = max(lv, seeds.get(s.expr.arg, CLEAN))
                elif s.kind in ("expr", "aug"):
                    x = self._memo_level(s.cfg, s.expr, s.stmt, seeds if s.cfg is cfg else {}, _depth + 1)
                    if s.kind == "aug":
                        x = CONT if x else CLEAN
                    elif s.path and x:
                        x = OWNED
                    lv = max(lv, x)
                elif s.kind in ("for", "comp"):
                    x = self._memo_level(s.cfg, s.expr, s.stmt, seeds if s.cfg is cfg else {}, _depth + 1)
                    lv = max(lv, OWNED if x else CLEAN)
            return lv
        if isinstance(e, ast.Call):
            if self.is_sanitiser(e):
                return CLEAN
            la = last_attr(e)
            if la in self.tainted:
                return OWNED
            if isinstance(e.func, ast.Attribute):
                r = self.level(cfg, e.func.value, at, seeds, _depth + 1)
                if r:
                    if la in SUB_METHODS:
                        return OWNED
                    if la in VIEW_METHODS or la == "copy":
                        return CONT
                    return CLEAN
            if call_name(e) in REWRAP or la in ("chain",):
                lv = max([self.level(cfg, a.value if isinstance(a, ast.Starred) else a, at, seeds, _depth + 1) for a in e.args] or [CLEAN])
                return CONT if lv else CLEAN
            # a function of the tree that returns (part of) its argument
            callee = self.resolve(e)
            if callee is not None:
                fn, bound = callee
                sd = self.actual_seeds(cfg, e, fn, bound, at, seeds, _depth)
                if any(sd.values()):
                    return self.summary(fn, sd).ret
            return CLEAN
        if isinstance(e, ast.Subscript):
            b = self.level(cfg, e.value, at, seeds, _depth + 1)
            if not b:
                return CLEAN
            if isinstance(e.slice, ast.Slice):
                return CONT
            return OWNED
        if isinstance(e, (ast.BoolOp,)):
            return max(self.level(cfg, v, at, seeds, _depth + 1) for v in e.values)
        if isinstance(e, ast.IfExp):
            return max(self.level(cfg, e.body, at, seeds, _depth + 1), self.level(cfg, e.orelse, at, seeds, _depth + 1))
        if isinstance(e, ast.NamedExpr):
            return self.level(cfg, e.value, at, seeds, _depth + 1)
        if isinstance(e, ast.Starred):
            return self.level(cfg, e.value, at, seeds, _depth + 1)
        if isinstance(e, ast.BinOp) and isinstance(e.op, (ast.BitOr, ast.Add)):
            lv = max(self.level(cfg, e.left, at, seeds, _depth + 1), self.level(cfg, e.right, at, seeds, _depth + 1))
            return CONT if lv else CLEAN
        if isinstance(e, (ast.List, ast.Tuple, ast.Set)):
            lv = max([self.level(cfg, x, at, seeds, _depth + 1) for x in e.elts] or [CLEAN])
            return CONT if lv else CLEAN
        if isinstance(e, ast.Dict):
            lv = max([self.level(cfg, x, at, seeds, _depth + 1) for x in e.values if x is not None] + [self.level(cfg, v, at, seeds, _depth + 1) for k, v in zip(e.keys, e.values) if k is None] or [CLEAN])
            return CONT if lv else CLEAN
        if isinstance(e, (ast.ListComp, ast.SetComp, ast.GeneratorExp)):
            return CONT if self.level(cfg, e.elt, at, seeds, _depth + 1) else CLEAN
        if isinstance(e, ast.DictComp):
            return CONT if self.level(cfg, e.value, at, seeds, _depth + 1) else CLEAN
        if isinstance(e, ast.Await):
            return self.level(cfg, e.value, at, seeds, _depth + 1)
        return CLEAN

    def _memo_level(self, cfg, e, at, seeds, depth):
        """Level of a defining expression at its own statement.  Memoised; cyclic
        (loop-carried) definitions are solved by the caller's fixpoint iteration:
        a node met again while it is being computed answers with the value assumed
        so far, and ``changed`` asks for another round when an assumption grew."""
        key = (id(cfg), id(e), tuple(sorted(seeds.items())))
        if key in self.done_iter:
            return self.assume.get(key, CLEAN)
        if key in self.active:
            return self.assume.get(key, CLEAN)
        self.active.add(key)
        try:
            v = self.level(cfg, e, at, seeds, depth)
        finally:
            self.active.discard(key)
        if v > self.assume.get(key, CLEAN):
            self.assume[key] = v
            self.changed = True
        self.done_iter.add(key)
        return self.assume.get(key, CLEAN)

    def new_round(self) -> None:
        self.memo.clear()
        self.done_iter.clear()
        self.changed = False

    # -- callees ---------------------------------------------------------------
    def resolve(self, call: ast.Call):
        """(function def, bound?) for a call to a function of the tree, else None."""
        m = module_of(call)
        nm = call_name(call)
        r = self.repo.resolve_name(m, nm) if nm and "(" not in nm and "?" not in nm else None
        if r:
            if isinstance(r[1], FuncNode):
                return r[1], is_method_bound(call, r[1]) and isinstance(call.func, ast.Attribute) and norm(call.func.value) in ("self", "cls")
            if isinstance(r[1], ast.ClassDef):
                init = self.repo.lookup_method(r[0], r[1], "__init__")
                return (init[1], True) if init else None
        if isinstance(call.func, ast.Attribute) and isinstance(call.func.value, ast.Name) and call.func.value.id in ("self", "cls"):
            c = enclosing_class(call)
            if c is not None:
                mm = self.repo.lookup_method(module_of(c), c, call.func.attr)
                if mm:
                    return mm[1], is_method_bound(call, mm[1])
        if isinstance(call.func, ast.Name) and call.func.id == "cls":
            c = enclosing_class(call)
            if c is not None:
                init = self.repo.lookup_method(module_of(c), c, "__init__")
                if init:
                    return init[1], True
        if isinstance(call.func, ast.Attribute) and call.func.attr not in BUILTIN_METHODS:
            # unique method of that name among the config / helper modules
            cands = [
                (mm, fn) for mm, fn in self.names.get(call.func.attr)
                if mm.relpath.startswith(("src/sqlfluff/core/config/", "src/sqlfluff/core/helpers/"))
            ]
            if len(cands) == 1:
                return cands[0][1], is_method_bound(call, cands[0][1])
        return None

    def actual_seeds(self, cfg, call, fn, bound, at, seeds, depth=0) -> Dict[str, int]:
        b = bind_args(call, fn, bound=bound)
        sd: Dict[str, int] = {}
        pos = [x.arg for x in fn.args.posonlyargs + fn.args.args]
        if bound and pos:
            pos = pos[1:]
        for k, v in b.items():
            if k == "*":
                lv = max(self.level(cfg, x, at, seeds, depth + 1) for x in v)
                if lv:
                    for p in pos:
                        if p not in b:
                            sd[p] = OWNED
                    if fn.args.vararg:
                        sd[fn.args.vararg.arg] = CONT
            elif k == "**":
                continue
            elif k.startswith("*"):
                lv = max(self.level(cfg, x, at, seeds, depth + 1) for x in v)
                if lv:
                    sd[k[1:]] = CONT
            else:
                lv = self.level(cfg, v, at, seeds, depth + 1)
                if lv:
                    sd[k] = lv
        return sd

    # -- function summaries -------------------------------------------------------
    def summary(self, fn, seeds: Dict[str, int]) -> Summary:
        key = (id(fn), tuple(sorted(seeds.items())))
        if key in self.memo:
            return self.memo[key]
        s = Summary()
        self.memo[key] = s  # recursion: assume nothing yet
        cfg = cfg_of(fn)
        lv = lambda e, at: self.level(cfg, e, at, seeds)  # noqa: E731
        for n in walk_local(fn):
            if not isinstance(n, ast.stmt) and not isinstance(n, ast.Call):
                continue
            at = cfg.stmt_of(n)
            if at is None or not cfg.reachable(at):
                continue
            if isinstance(n, (ast.Assign, ast.AnnAssign, ast.AugAssign)):
                tgts = n.targets if isinstance(n, ast.Assign) else [n.target]
                val = n.value
                for t in tgts:
                    for tt in (t.elts if isinstance(t, (ast.Tuple, ast.List)) else [t]):
                        if isinstance(tt, ast.Subscript):
                            if lv(tt.value, at) == OWNED:
                                s.events.append(Event("mutate", n, f"store into {norm(tt.value)}[...]"))
                            root = tt.value
                            while isinstance(root, ast.Subscript):
                                root = root.value
                            if isinstance(root, ast.Attribute) and val is not None and lv(val, at):
                                s.events.append(Event("escape", n, f"stored under {norm(root)}"))
                        elif isinstance(tt, ast.Attribute):
                            if val is not None and lv(val, at):
                                s.events.append(Event("escape", n, f"stored in attribute {norm(tt)}"))
                        elif isinstance(tt, ast.Name) and isinstance(n, ast.AugAssign):
                            if lv(ast.copy_location(ast.Name(id=tt.id, ctx=ast.Load()), tt), at) == OWNED:
                                s.events.append(Event("mutate", n, f"in-place operator on {tt.id}"))
            elif isinstance(n, ast.Delete):
                for t in n.targets:
                    if isinstance(t, ast.Subscript) and lv(t.value, at) == OWNED:
                        s.events.append(Event("mutate", n, f"del {norm(t.value)}[...]"))
            elif isinstance(n, ast.Return) and n.value is not None:
                s.ret = max(s.ret, lv(n.value, at))
            elif isinstance(n, ast.Expr) and isinstance(n.value, (ast.Yield, ast.YieldFrom)) and n.value.value is not None:
                if lv(n.value.value, at):
                    s.ret = max(s.ret, CONT)
            if isinstance(n, ast.Call):
                la = last_attr(n)
                if self.is_sanitiser(n):
                    continue
                if isinstance(n.func, ast.Attribute) and la in MUT_METHODS and lv(n.func.value, at) == OWNED:
                    s.events.append(Event("mutate", n, f"{norm(n.func.value)}.{la}(...)"))
                    continue
                callee = self.resolve(n)
                if callee is None:
                    if any(lv(a.value if isinstance(a, ast.Starred) else a, at) for a in n.args) or any(lv(k.value, at) for k in n.keywords):
                        self.unresolved += 1
                        self.unresolved_calls.append(short(n, 60))
                    continue
                g, bound = callee
                sd = self.actual_seeds(cfg, n, g, bound, at, seeds)
                if not any(sd.values()):
                    continue
                sub = self.summary(g, sd)
                if sub is s:
                    continue  # direct recursion: nothing new
                have = {(e.kind, id(e.node)) for e in s.events}
                for ev in list(sub.events):
                    if (ev.kind, id(n)) in have:
                        continue
                    have.add((ev.kind, id(n)))
                    inner = ev.text.split(" which does: ")[-1]
                    s.events.append(Event(ev.kind, n, f"passed to {g.name}({', '.join(sorted(sd))}) which does: {inner}"))
        return s


def _r27c(chk) -> None:
    repo = chk.repo
    names = _Names(repo)
    ct = CacheTaint(repo, names)
    cached = ct.cached_defs()
    chk.count("R27c.cached_loaders", len(cached))
    chk.floor("R27c.cached_loaders", 3)
    for m, f in cached:
        ct.tainted[f.name] = "cached"
    cached_ids = {id(f) for _, f in cached}
    # forwarders: functions returning a cache-owned value (fixpoint over names)
    analysed: Dict[int, Tuple[object, ast.AST]] = {}
    changed = True
    rounds = 0
    while changed and rounds < 8:
        changed = False
        rounds += 1
        ct.new_round()
        for m in repo.modules.values():
            if not any(nm in m.text for nm in ct.tainted):
                continue
            for q, f in m.functions():
                if id(f) in cached_ids:
                    analysed[id(f)] = (m, f)
                    continue
                if not any(isinstance(c, ast.Call) and last_attr(c) in ct.tainted for c in ast.walk(f)):
                    continue
                analysed[id(f)] = (m, f)
                s = ct.summary(f, {})
                if s.ret and f.name not in ct.tainted:
                    ct.tainted[f.name] = f"forwards a cached value ({m.relpath}::{q})"
                    changed = True
        changed = changed or ct.changed
    chk.count("R27c.taint_sources", len(ct.tainted))
    chk.count("R27c.functions_with_cached_values", len(analysed))
    chk.floor("R27c.functions_with_cached_values", 6)
    ct.new_round()
    ct.unresolved = 0
    ct.unresolved_calls = []
    n_events = 0
    for fid, (m, f) in analysed.items():
        s = ct.summary(f, {})
        seen = set()
        for ev in s.events:
            key = (id(ev.node), ev.text)
            if key in seen:
                continue
            seen.add(key)
            n_events += 1
            what = "mutated in place" if ev.kind == "mutate" else "kept beyond the call"
            chk.fail(
                "R27c", ev.node,
                f"a dict owned by the loader cache is {what} ({ev.text}): every later file that hits the same cache entry sees the change",
                detail=f"{ev.kind}: {ev.text}",
            )
        if not s.events:
            chk.ok("R27c", f"{m.relpath}::{getattr(f, '_qualname', f.name)}", "no cache-owned value mutated / stored")
        chk.sample({"rule": "R27c", "function": f"{m.relpath}::{getattr(f, '_qualname', f.name)}", "returns": ["clean", "container-of-owned", "cache-owned"][s.ret], "events": len(s.events)})
    chk.note(
        f"R27c: cache-owned sources = {sorted(ct.tainted)}; {ct.unresolved} call(s) with a cache-owned argument go to "
        f"functions outside the tree (assumed non-mutating): {sorted(set(ct.unresolved_calls))}."
    )

    # nested_combine body
    nc = repo.fn(HDICT, "nested_combine")
    cfg = cfg_of(nc)
    stores = []
    for n in walk_local(nc):
        if isinstance(n, ast.Assign):
            for t in n.targets:
                if isinstance(t, ast.Subscript) and isinstance(t.value, ast.Name):
                    srcs = sources(cfg, t.value, n)
                    if srcs and all(s.kind == "expr" and _empty_literal(s.expr) for s in srcs):
                        stores.append(n)
    chk.count("R27c.nested_combine_stores", len(stores))
    n_copy = n_rec = 0
    for st in stores:
        # the stored value, directly or through plain locals: every definition it may come from
        vs = [s for s in single_sources(cfg, st.value, st)]
        kinds = [
            "copy" if s.kind == "expr" and not s.path and isinstance(s.expr, ast.Call) and last_attr(s.expr) == "deepcopy"
            else "rec" if s.kind == "expr" and not s.path and isinstance(s.expr, ast.Call) and _is_nested_combine(repo, s.expr)
            else "other"
            for s in vs
        ]
        is_copy = bool(kinds) and all(k == "copy" for k in kinds)
        is_rec = bool(kinds) and all(k == "rec" for k in kinds)
        n_copy += is_copy
        n_rec += is_rec
        chk.require(bool(kinds) and "other" not in kinds, "R27c", st, "nested_combine stores a value into its result without deepcopy / recursive merge: the result shares structure with its (cached) inputs", detail=f"result store is a copy: {short(st, 80)}")
    chk.require(n_copy >= 1, "R27c", nc, "nested_combine has no deepcopy(...) of leaf values", detail="leaves are deep-copied")
    chk.require(n_rec >= 1, "R27c", nc, "nested_combine does not merge nested dicts recursively through itself", detail="dict values merged recursively")
    # mutating methods on the result with an input as argument (r[k].update(d[k]) / r.update(d))
    for c in calls_in(nc):
        if isinstance(c.func, ast.Attribute) and c.func.attr in ("update", "setdefault", "extend", "append") and not _is_nested_combine(repo, c):
            chk.fail("R27c", c, "nested_combine merges by an in-place/shallow operation: values of the inputs are shared with the result", detail=f"no shallow merge: {short(c, 60)}")
    for r in returns_of(nc):
        srcs = single_sources(cfg, r.value, r)
        chk.require(
            bool(srcs) and all(s.kind == "expr" and _empty_literal(s.expr) for s in srcs), "R27c", r,
            "nested_combine may return one of its inputs (or a non-fresh object) instead of a fresh dict", detail="returns the fresh result",
        )
    chk.floor("R27c.nested_combine_stores", 1)


from ..selftest import Variant  # noqa: E402

_NC_BODY = (
    "    r: NestedStringDict[T] = {}\n"
    "    for d in dicts:\n"
    "        for k in d:\n"
    "            if k in r and isinstance(r[k], dict):\n"
    "                if isinstance(d[k], dict):\n"
    "                    # NOTE: The cast functions here are to appease mypy which doesn't\n"
    "                    # pick up on the `isinstance` calls above.\n"
    "                    r[k] = nested_combine(\n"
    "                        cast(NestedStringDict[T], r[k]), cast(NestedStringDict[T], d[k])\n"
    "                    )\n"
    "                else:  # pragma: no cover\n"
    "                    raise ValueError(\n"
    "                        \"Key {!r} is a dict in one config but not another! PANIC: \"\n"
    "                        \"{!r}\".format(k, d[k])\n"
    "                    )\n"
    "            else:\n"
    "                # In normal operation, these nested dicts should only contain\n"
    "                # immutable objects like strings, or contain lists or dicts\n"
    "                # which are simple to copy. We use deep copy to make sure that\n"
    "                # and dicts or lists within the value are also copied. This should\n"
    "                # also protect in future in case more exotic objects get added to\n"
    "                # the dict.\n"
    "                r[k] = deepcopy(d[k])\n"
    "    return r\n"
)

_LOADER_HEAD = (
    "    if not ignore_local_config:\n"
    "        user_appdir_config = _load_user_appdir_config()\n"
    "        user_config = load_config_at_path(os.path.expanduser(\"~\"))\n"
    "    else:\n"
    "        user_config, user_appdir_config = {}, {}\n"
    "\n"
    "    # 3) Local project config\n"
    "    parent_config_stack = []\n"
    "    config_stack = []\n"
    "    if not ignore_local_config:\n"
    "        # Finding all paths between here and the home\n"
    "        # directory. We could start at the root of the filesystem,\n"
    "        # but depending on the user's setup, this might result in\n"
    "        # permissions errors.\n"
    "        parent_config_paths = list(\n"
    "            iter_intermediate_paths(\n"
    "                Path(path).absolute(), Path(os.path.expanduser(\"~\"))\n"
    "            )\n"
    "        )\n"
)

_WALK_TAIL = (
    "    if not common_path:\n"
    "        yield outer_path.resolve()\n"
    "    else:\n"
    "        # we have a sub path! We can load nested paths\n"
    "        path_to_visit = common_path\n"
    "        while path_to_visit != inner_path:\n"
    "            yield path_to_visit.resolve()\n"
    "            next_path_to_visit = (\n"
    "                path_to_visit / inner_path.relative_to(path_to_visit).parts[0]\n"
    "            )\n"
    "            if next_path_to_visit == path_to_visit:  # pragma: no cover\n"
    "                # we're not making progress...\n"
    "                # [prevent infinite loop]\n"
    "                break\n"
    "            path_to_visit = next_path_to_visit\n"
    "\n"
    "    yield inner_path.resolve()\n"
)

_INIT_MID = (
    "        if overrides:\n"
    "            overrides = {\"core\": overrides}\n"
    "            validate_config_dict(overrides, \"<provided overrides>\")\n"
    "        # Stash overrides so we can pass them to child configs\n"
    "        core_overrides = overrides[\"core\"] if overrides else None\n"
    "        assert isinstance(core_overrides, dict) or core_overrides is None\n"
    "        self._overrides = core_overrides\n"
    "\n"
    "        # Fetch a fresh plugin manager if we weren't provided with one\n"
    "        self._plugin_manager = plugin_manager or get_plugin_manager()\n"
    "\n"
    "        defaults = nested_combine(*self._plugin_manager.hook.load_default_config())\n"
    "        # If any existing configs are provided. Validate them:\n"
    "        if configs:\n"
    "            validate_config_dict(configs, \"<provided configs>\")\n"
    "        empty_config: ConfigMappingType = {\"core\": {}}\n"
    "        empty_overrides: ConfigMappingType = {}\n"
    "        self._configs = nested_combine(\n"
    "            defaults, configs or empty_config, overrides or empty_overrides\n"
    "        )\n"
)

VARIANTS = [
    Variant(
        "disable-noqa-flag-defaults-to-false", CLI,
        '        "--disable-noqa",\n        is_flag=True,\n        default=None,\n',
        '        "--disable-noqa",\n        is_flag=True,\n        default=False,\n',
        "R27f", None, "seeded C27-6: `disable_noqa = True` in a config file is overridden by the flag that was not given",
    ),
    # behaviour-preserving refactors: must stay quiet
    Variant(
        "quiet-copy-through-temp", FLUFF,
        "        config_copy = copy(self)\n        config_copy._configs = configs_attribute_copy\n        return config_copy\n",
        "        duplicate = copy(self)\n        fresh_configs = configs_attribute_copy\n        duplicate._configs = fresh_configs\n        return duplicate\n",
        "QUIET", None, "copied dict passed through another local, result renamed",
    ),
    Variant(
        "quiet-copy-deepcopy-of-local", FLUFF,
        "        configs_attribute_copy = deepcopy(self._configs, memo)\n",
        "        own_configs = self._configs\n        configs_attribute_copy = deepcopy(own_configs, memo)\n",
        "QUIET", None, "R27d: the dict handed to deepcopy is self._configs read through a local",
    ),
    Variant(
        "quiet-copy-returned-through-alias", FLUFF,
        "        config_copy._configs = configs_attribute_copy\n        return config_copy\n",
        "        config_copy._configs = configs_attribute_copy\n        isolated = config_copy\n        return isolated\n",
        "QUIET", None, "R27d: the copy is returned through one more local",
    ),
    Variant(
        "quiet-merge-leaf-copy-through-local", HDICT,
        "                r[k] = deepcopy(d[k])\n",
        "                leaf_copy = deepcopy(d[k])\n                r[k] = leaf_copy\n",
        "QUIET", None, "R27c/R27e nested_combine: the deep copy is made into a local, then stored",
    ),
    Variant(
        "quiet-merge-recursive-through-local", HDICT,
        "                    r[k] = nested_combine(\n                        cast(NestedStringDict[T], r[k]), cast(NestedStringDict[T], d[k])\n                    )\n",
        "                    merged_section = nested_combine(\n                        cast(NestedStringDict[T], r[k]), cast(NestedStringDict[T], d[k])\n                    )\n                    r[k] = merged_section\n",
        "QUIET", None, "R27c/R27e nested_combine: the recursive merge is made into a local, then stored",
    ),
    Variant(
        "quiet-merge-early-continue-items", HDICT,
        _NC_BODY,
        "    combined: NestedStringDict[T] = {}\n"
        "    for layer in dicts:\n"
        "        for key, value in layer.items():\n"
        "            if key not in combined or not isinstance(combined[key], dict):\n"
        "                combined[key] = deepcopy(value)\n"
        "                continue\n"
        "            if not isinstance(value, dict):  # pragma: no cover\n"
        "                raise ValueError(\n"
        "                    \"Key {!r} is a dict in one config but not another! PANIC: \"\n"
        "                    \"{!r}\".format(key, value)\n"
        "                )\n"
        "            combined[key] = nested_combine(\n"
        "                cast(NestedStringDict[T], combined[key]), cast(NestedStringDict[T], value)\n"
        "            )\n"
        "    return combined\n",
        "QUIET", None, "R27e/R27c nested_combine rewritten with .items(), renamed locals, De Morgan + early continue / raise instead of if/else nesting",
    ),
    Variant(
        "quiet-loader-layers-list-then-star", LOADER,
        "    return nested_combine(\n        user_appdir_config,\n        user_config,\n        *parent_config_stack,\n        *config_stack,\n        extra_config,\n    )",
        "    layers = [\n        user_appdir_config,\n        user_config,\n        *parent_config_stack,\n        *config_stack,\n        extra_config,\n    ]\n    return nested_combine(*layers)",
        "QUIET", None, "R27a loader: the precedence order is written as a list display which is then splatted into the merge",
    ),
    Variant(
        "quiet-loader-merged-if-home-local", LOADER,
        _LOADER_HEAD,
        "    parent_config_stack = []\n"
        "    config_stack = []\n"
        "    if ignore_local_config:\n"
        "        user_config, user_appdir_config = {}, {}\n"
        "    else:\n"
        "        home_dir = os.path.expanduser(\"~\")\n"
        "        user_appdir_config = _load_user_appdir_config()\n"
        "        user_config = load_config_at_path(home_dir)\n"
        "        target = Path(path).absolute()\n"
        "        parent_config_paths = list(\n"
        "            iter_intermediate_paths(inner_path=target, outer_path=Path(home_dir))\n"
        "        )\n",
        "QUIET", None, "R27a loader: the two `if not ignore_local_config` blocks merged into one if/else with swapped arms, home dir and target path through locals, keyword arguments to the walk",
    ),
    Variant(
        "quiet-loader-stack-built-by-loop", LOADER,
        "        config_stack = [load_config_at_path(str(p.resolve())) for p in config_paths]\n",
        "        for config_dir in config_paths:\n            config_stack.append(load_config_at_path(str(config_dir.resolve())))\n",
        "QUIET", None, "R27a loader / R27c: comprehension spelled as a loop appending to the (already initialised) empty list",
    ),
    Variant(
        "quiet-walk-yield-through-local", HFILE,
        "            yield path_to_visit.resolve()\n",
        "            resolved_step = path_to_visit.resolve()\n            yield resolved_step\n",
        "QUIET", None, "R27a walk: the yielded intermediate directory goes through a local",
    ),
    Variant(
        "quiet-walk-first-component-hoisted", HFILE,
        "            next_path_to_visit = (\n                path_to_visit / inner_path.relative_to(path_to_visit).parts[0]\n            )\n",
        "            remaining_parts = inner_path.relative_to(path_to_visit).parts\n            first_component = remaining_parts[0]\n            next_path_to_visit = path_to_visit / first_component\n",
        "QUIET", None, "R27a walk: the first remaining component is hoisted into locals before the division",
    ),
    Variant(
        "quiet-walk-no-common-path-early-return", HFILE,
        _WALK_TAIL,
        "    if not common_path:\n"
        "        yield outer_path.resolve()\n"
        "        yield inner_path.resolve()\n"
        "        return\n"
        "\n"
        "    # we have a sub path! We can load nested paths\n"
        "    path_to_visit = common_path\n"
        "    while path_to_visit != inner_path:\n"
        "        yield path_to_visit.resolve()\n"
        "        next_path_to_visit = (\n"
        "            path_to_visit / inner_path.relative_to(path_to_visit).parts[0]\n"
        "        )\n"
        "        if next_path_to_visit == path_to_visit:  # pragma: no cover\n"
        "            # we're not making progress...\n"
        "            # [prevent infinite loop]\n"
        "            break\n"
        "        path_to_visit = next_path_to_visit\n"
        "\n"
        "    yield inner_path.resolve()\n",
        "QUIET", None, "R27a walk: the no-common-path arm yields both ends and returns early; the walk is dedented out of the else arm",
    ),
    Variant(
        "quiet-init-merge-layers-hoisted", FLUFF,
        "        self._configs = nested_combine(\n            defaults, configs or empty_config, overrides or empty_overrides\n        )\n",
        "        file_layer = configs or empty_config\n        override_layer = overrides or empty_overrides\n        merged = nested_combine(defaults, file_layer, override_layer)\n        self._configs = merged\n",
        "QUIET", None, "R27a __init__: the three merge layers and the merge result go through locals",
    ),
    Variant(
        "quiet-init-wrapped-overrides-own-local", FLUFF,
        _INIT_MID,
        "        wrapped_overrides: ConfigMappingType = {}\n"
        "        if overrides:\n"
        "            wrapped_overrides = {\"core\": overrides}\n"
        "            validate_config_dict(wrapped_overrides, \"<provided overrides>\")\n"
        "        # Stash overrides so we can pass them to child configs\n"
        "        core_overrides = wrapped_overrides[\"core\"] if wrapped_overrides else None\n"
        "        assert isinstance(core_overrides, dict) or core_overrides is None\n"
        "        self._overrides = core_overrides\n"
        "\n"
        "        # Fetch a fresh plugin manager if we weren't provided with one\n"
        "        self._plugin_manager = plugin_manager or get_plugin_manager()\n"
        "\n"
        "        defaults = nested_combine(*self._plugin_manager.hook.load_default_config())\n"
        "        # If any existing configs are provided. Validate them:\n"
        "        if configs:\n"
        "            validate_config_dict(configs, \"<provided configs>\")\n"
        "        empty_config: ConfigMappingType = {\"core\": {}}\n"
        "        self._configs = nested_combine(\n"
        "            defaults, configs or empty_config, wrapped_overrides\n"
        "        )\n",
        "QUIET", None, "R27a __init__: the wrapped overrides live in their own local (initialised empty) instead of re-binding the parameter; `x or {}` is then not needed",
    ),
    Variant(
        "quiet-child-inherits-through-locals-positional", FLUFF,
        "        return self.from_path(\n            path,\n            extra_config_path=self._extra_config_path,\n            ignore_local_config=self._ignore_local_config,\n            overrides=self._overrides,\n",
        "        inherited_overrides = self._overrides\n        inherited_extra = self._extra_config_path\n        child_path = path\n        return self.from_path(\n            child_path,\n            inherited_extra,\n            self._ignore_local_config,\n            overrides=inherited_overrides,\n",
        "QUIET", None, "R27a make_child_from_path: inherited values read into locals first, two of them passed positionally",
    ),
    Variant(
        "quiet-from-root-positional-inline", FLUFF,
        "        configs = load_config_up_to_path(\n            path=\".\",\n            extra_config_path=extra_config_path,\n            ignore_local_config=ignore_local_config,\n        )\n        return cls(\n            configs=configs,\n            extra_config_path=extra_config_path,\n            ignore_local_config=ignore_local_config,\n            overrides=overrides,\n            require_dialect=require_dialect,\n        )\n",
        "        extra = extra_config_path\n        root_config = cls(\n            load_config_up_to_path(\".\", extra, ignore_local_config),\n            extra,\n            ignore_local_config,\n            overrides,\n            require_dialect=require_dialect,\n        )\n        return root_config\n",
        "QUIET", None, "R27a from_root: loader call inlined, positional arguments, parameter alias, result through a local",
    ),
    Variant(
        "quiet-get-config-return-after-try", CLI,
        "    try:\n        return FluffConfig.from_root(\n            extra_config_path=extra_config_path,\n            ignore_local_config=ignore_local_config,\n            overrides=overrides,\n            require_dialect=kwargs.pop(\"require_dialect\", True),\n        )\n    except SQLFluffUserError as err:  # pragma: no cover\n",
        "    try:\n        root_cfg = FluffConfig.from_root(\n            extra_config_path=extra_config_path,\n            ignore_local_config=ignore_local_config,\n            overrides=overrides,\n            require_dialect=kwargs.pop(\"require_dialect\", True),\n        )\n        return root_cfg\n    except SQLFluffUserError as err:  # pragma: no cover\n",
        "QUIET", None, "R27a cli get_config: the built config goes through a local before being returned",
    ),
    Variant(
        "quiet-render-loaded-tuple-indexed", CLI,
        "                raw_sql, file_config, _ = lnt.load_raw_file_and_config(path, lnt.config)\n",
        "                loaded = lnt.load_raw_file_and_config(path, lnt.config)\n                raw_sql = loaded[0]\n                file_config = loaded[1]\n",
        "QUIET", None, "R27b render: the (raw, config, encoding) tuple is kept whole and indexed instead of unpacked",
    ),
    Variant(
        "quiet-file-config-scanned-by-nested-helper", LINTER,
        "        file_config.process_raw_file_for_config(raw_file, fname)\n",
        "        def _scan_inline_directives(per_file_config: FluffConfig) -> None:\n            per_file_config.process_raw_file_for_config(raw_file, fname)\n\n        _scan_inline_directives(file_config)\n",
        "QUIET", None, "R27b load_raw_file_and_config: the in-place update moved into a nested helper whose only caller passes the fresh child config",
    ),
    Variant(
        "quiet-parse-string-copy-per-branch", LINTER,
        "        config = (config or self.config).copy()\n",
        "        if config:\n            local_config = config.copy()\n        else:\n            local_config = self.config.copy()\n        config = local_config\n",
        "QUIET", None, "R27b parse_string: `(a or b).copy()` spelled as if/else with a copy on each arm",
    ),
    Variant(
        "quiet-load-raw-returns-tuple-through-local", LINTER,
        "        return raw_file, file_config, encoding\n",
        "        loaded = (raw_file, file_config, encoding)\n        return loaded\n",
        "QUIET", None, "R27b: the callee (load_raw_file_and_config) builds its result tuple in a local before returning it; the render command's receiver is still position 1 of it",
    ),
    Variant(
        "quiet-get-config-overrides-loop", CLI,
        "    overrides = {k: kwargs[k] for k in kwargs if kwargs[k] is not None}\n",
        "    overrides = {}\n    for option, value in kwargs.items():\n        if value is not None:\n            overrides[option] = value\n",
        "QUIET", None, "R27a cli get_config: the dict comprehension over the options spelled as a loop filling an empty dict",
    ),
    Variant(
        "quiet-loader-appdir-helper-inlined", LOADER,
        "        user_appdir_config = _load_user_appdir_config()\n",
        "        appdir = _get_user_config_dir_path(sys.platform)\n        user_appdir_config = load_config_at_path(appdir) if os.path.exists(appdir) else {}\n",
        "QUIET", None, "R27a loader: the app-dir helper inlined as a conditional expression",
    ),
    Variant(
        "quiet-discovery-core-section-by-subscript", DISC,
        "    ignore_section = config_dict.get(\"core\", {})\n    if not isinstance(ignore_section, dict):\n        return None  # pragma: no cover\n    patterns = ignore_section.get(\"ignore_paths\", [])\n",
        "    ignore_section = config_dict[\"core\"] if \"core\" in config_dict else {}\n    if not isinstance(ignore_section, dict):\n        return None  # pragma: no cover\n    patterns = []\n    if \"ignore_paths\" in ignore_section:\n        patterns = ignore_section[\"ignore_paths\"]\n",
        "QUIET", None, "R27c: read-only access to the cached dict by membership test + subscript instead of .get()",
    ),
    Variant(
        "quiet-merge-get-isinstance", HDICT,
        "            if k in r and isinstance(r[k], dict):\n",
        "            existing = r.get(k)\n            if isinstance(existing, dict):\n",
        "QUIET", None, "R27e/R27c nested_combine: `k in r and isinstance(r[k], dict)` as isinstance(r.get(k), dict) through a local",
    ),
    Variant(
        "quiet-walk-while-true-break", HFILE,
        "        while path_to_visit != inner_path:\n            yield path_to_visit.resolve()\n",
        "        while True:\n            if path_to_visit == inner_path:\n                break\n            yield path_to_visit.resolve()\n",
        "QUIET", None, "R27a walk: loop condition moved into the body as an early break",
    ),
    Variant(
        "quiet-init-overrides-test-hoisted", FLUFF,
        "        if overrides:\n            overrides = {\"core\": overrides}\n",
        "        has_overrides = bool(overrides)\n        if has_overrides:\n            overrides = {\"core\": overrides}\n",
        "QUIET", None, "R27a __init__: the `if overrides:` test hoisted into a boolean local",
    ),
    Variant(
        "quiet-file-config-bound-method-alias", LINTER,
        "        file_config = root_config.make_child_from_path(fname)\n",
        "        make_child = root_config.make_child_from_path\n        file_config = make_child(fname)\n",
        "QUIET", None, "R27b load_raw_file_and_config: the creating method called through a bound-method local",
    ),
    # breaking edits
    Variant(
        "copy-shallow-sections", FLUFF,
        "        configs_attribute_copy = deepcopy(self._configs, memo)\n",
        "        configs_attribute_copy = {k: dict(v) if isinstance(v, dict) else v for k, v in self._configs.items()}\n",
        "R27d", "copy", "seeded C27-1: nested rule sections shared between the linter's config and the per-file copy",
    ),
    Variant(
        "merge-skips-none-values", HDICT,
        "            else:\n                # In normal operation, these nested dicts should only contain\n",
        "            elif d[k] is None and k in r:\n                continue\n            else:\n                # In normal operation, these nested dicts should only contain\n",
        "R27e", "nested_combine", "seeded C27-2: a nearer `key = None` no longer overrides a farther value",
    ),
    # ---- R27a ------------------------------------------------------------------
    Variant(
        "appdir-after-home", LOADER,
        "        user_appdir_config,\n        user_config,\n",
        "        user_config,\n        user_appdir_config,\n",
        "R27a", "load_config_up_to_path",
    ),
    Variant(
        "cwd-stack-before-parent-stack", LOADER,
        "        *parent_config_stack,\n        *config_stack,\n",
        "        *config_stack,\n        *parent_config_stack,\n",
        "R27a", "load_config_up_to_path",
    ),
    Variant(
        "extra-config-merged-first", LOADER,
        "    return nested_combine(\n        user_appdir_config,\n        user_config,\n        *parent_config_stack,\n        *config_stack,\n        extra_config,\n    )",
        "    return nested_combine(\n        extra_config,\n        user_appdir_config,\n        user_config,\n        *parent_config_stack,\n        *config_stack,\n    )",
        "R27a", "load_config_up_to_path",
    ),
    Variant(
        "cwd-stack-reversed", LOADER,
        "config_stack = [load_config_at_path(str(p.resolve())) for p in config_paths]",
        "config_stack = [load_config_at_path(str(p.resolve())) for p in reversed(list(config_paths))]",
        "R27a", "load_config_up_to_path",
    ),
    Variant(
        "walk-advances-by-last-component", HFILE,
        "path_to_visit / inner_path.relative_to(path_to_visit).parts[0]",
        "path_to_visit / inner_path.relative_to(path_to_visit).parts[-1]",
        "R27a", "iter_intermediate_paths",
    ),
    Variant(
        "walk-last-yield-is-outer", HFILE,
        "    yield inner_path.resolve()\n",
        "    yield outer_path.resolve()\n",
        "R27a", "iter_intermediate_paths",
    ),
    Variant(
        "walk-advanced-before-first-yield", HFILE,
        "        while path_to_visit != inner_path:\n            yield path_to_visit.resolve()\n            next_path_to_visit = (\n                path_to_visit / inner_path.relative_to(path_to_visit).parts[0]\n            )\n",
        "        while path_to_visit != inner_path:\n            next_path_to_visit = (\n                path_to_visit / inner_path.relative_to(path_to_visit).parts[0]\n            )\n            path_to_visit = next_path_to_visit\n            yield path_to_visit.resolve()\n",
        "R27a", "iter_intermediate_paths", "common path (cwd) skipped, inner yielded twice",
    ),
    Variant(
        "overrides-merged-before-configs", FLUFF,
        "            defaults, configs or empty_config, overrides or empty_overrides\n",
        "            defaults, overrides or empty_overrides, configs or empty_config\n",
        "R27a", "FluffConfig.__init__",
    ),
    Variant(
        "overrides-not-wrapped-under-core", FLUFF,
        '            overrides = {"core": overrides}\n',
        "            overrides = dict(overrides)\n",
        "R27a", "FluffConfig.__init__",
    ),
    Variant(
        "child-loses-overrides", FLUFF,
        "            overrides=self._overrides,\n",
        "",
        "R27a", "FluffConfig.make_child_from_path",
    ),
    Variant(
        "child-loses-extra-config-path", FLUFF,
        "            extra_config_path=self._extra_config_path,\n",
        "            extra_config_path=None,\n",
        "R27a", "FluffConfig.make_child_from_path",
    ),
    Variant(
        "from-path-drops-overrides", FLUFF,
        "            overrides=overrides,\n            plugin_manager=plugin_manager,\n            require_dialect=require_dialect,\n        )\n\n    @classmethod\n    def from_kwargs",
        "            plugin_manager=plugin_manager,\n            require_dialect=require_dialect,\n        )\n\n    @classmethod\n    def from_kwargs",
        "R27a", "FluffConfig.from_path",
    ),
    # ---- R27b ------------------------------------------------------------------
    Variant(
        "parse-string-no-copy", LINTER,
        "        config = (config or self.config).copy()\n",
        "        config = config or self.config\n",
        "R27b", "Linter.parse_string",
    ),
    Variant(
        "file-config-is-root-config", LINTER,
        "        file_config = root_config.make_child_from_path(fname)\n",
        "        file_config = root_config\n",
        "R27b", "Linter.load_raw_file_and_config",
    ),
    Variant(
        "lint-string-updates-shared-config", LINTER,
        "        rule_pack = self.get_rulepack(config=parsed.config)\n        # Lint the file and return the LintedFile",
        "        config.process_raw_file_for_config(in_str, fname)\n        rule_pack = self.get_rulepack(config=config)\n        # Lint the file and return the LintedFile",
        "R27b", "Linter.lint_string", "the tempting wrong way to give lint_string the inline config: update the shared config in place",
    ),
    Variant(
        "render-string-updates-callers-config", LINTER,
        "        config.verify_dialect_specified()\n        if not config.get(\"templater_obj\") == self.templater:",
        "        config.process_raw_file_for_config(in_str, fname)\n        config.verify_dialect_specified()\n        if not config.get(\"templater_obj\") == self.templater:",
        "R27b", "Linter.render_string",
    ),
    Variant(
        "parse-command-sets-value-on-linter-config", CLI,
        "            file_config = lnt.config\n            if stdin_filename:",
        "            file_config = lnt.config\n            file_config.set_value([\"core\", \"encoding\"], \"utf-8\")\n            if stdin_filename:",
        "R27b", "::parse",
    ),
    # ---- R27c ------------------------------------------------------------------
    Variant(
        "load-config-file-updates-cached-dict", LOADER,
        "    raw_config = load_config_file_as_dict(file_path)\n    # We always run `nested_combine()` because it has the side effect\n    # of making a copy of the objects provided. This prevents us\n    # from editing items which also sit within the cache.\n    return nested_combine(configs or {}, raw_config)",
        "    raw_config = load_config_file_as_dict(file_path)\n    raw_config.update(configs or {})\n    return raw_config",
        "R27c", "load_config_file",
    ),
    Variant(
        "discovery-setdefault-on-cached-section", DISC,
        '    patterns = ignore_section.get("ignore_paths", [])\n',
        '    patterns = ignore_section.setdefault("ignore_paths", [])\n',
        "R27c", "_load_configfile",
    ),
    Variant(
        "defaults-validated-in-place", FLUFF,
        "        defaults = nested_combine(*self._plugin_manager.hook.load_default_config())\n",
        "        defaults = self._plugin_manager.hook.load_default_config()[0]\n        validate_config_dict(defaults, \"<defaults>\")\n",
        "R27c", "FluffConfig.__init__",
    ),
    Variant(
        "cached-defaults-kept-in-attribute", FLUFF,
        "        defaults = nested_combine(*self._plugin_manager.hook.load_default_config())\n",
        "        self._default_layers = self._plugin_manager.hook.load_default_config()\n        defaults = nested_combine(*self._default_layers)\n",
        "R27c", "FluffConfig.__init__",
    ),
    Variant(
        "cache-added-to-load-config-up-to-path", LOADER,
        "def load_config_up_to_path(\n",
        "@cache\ndef load_config_up_to_path(\n",
        "R27c", "FluffConfig.from_", "the cached merged dict reaches validate_config_dict (mutates) through the constructor",
    ),
    Variant(
        "nested-combine-shares-leaves", HDICT,
        "                r[k] = deepcopy(d[k])\n",
        "                r[k] = d[k]\n",
        "R27c", "nested_combine",
    ),
    Variant(
        "nested-combine-shallow-update", HDICT,
        "                    r[k] = nested_combine(\n                        cast(NestedStringDict[T], r[k]), cast(NestedStringDict[T], d[k])\n                    )\n",
        "                    cast(dict, r[k]).update(cast(dict, d[k]))\n",
        "R27c", "nested_combine",
    ),
    Variant(
        "nested-combine-single-input-shortcut", HDICT,
        "    r: NestedStringDict[T] = {}\n    for d in dicts:\n",
        "    if len(dicts) == 1:\n        return dicts[0]\n    r: NestedStringDict[T] = {}\n    for d in dicts:\n",
        "R27c", "nested_combine",
    ),
    # ---- breaking edits written in the refactored spellings the rules now accept ----
    Variant(
        "stack-loop-inserts-at-front", LOADER,
        "        config_stack = [load_config_at_path(str(p.resolve())) for p in config_paths]\n",
        "        for config_dir in config_paths:\n            config_stack.insert(0, load_config_at_path(str(config_dir.resolve())))\n",
        "R27a", "load_config_up_to_path", "loop form, but each nearer directory is put *before* the farther ones",
    ),
    Variant(
        "layers-list-extra-inserted-first", LOADER,
        "    return nested_combine(\n        user_appdir_config,\n        user_config,\n        *parent_config_stack,\n        *config_stack,\n        extra_config,\n    )",
        "    layers = [\n        user_appdir_config,\n        user_config,\n        *parent_config_stack,\n        *config_stack,\n    ]\n    layers.insert(0, extra_config)\n    return nested_combine(*layers)",
        "R27a", "load_config_up_to_path", "list-then-star form, but the list is changed after the display",
    ),
    Variant(
        "walk-hoisted-component-is-last", HFILE,
        "            next_path_to_visit = (\n                path_to_visit / inner_path.relative_to(path_to_visit).parts[0]\n            )\n",
        "            remaining_parts = inner_path.relative_to(path_to_visit).parts\n            first_component = remaining_parts[-1]\n            next_path_to_visit = path_to_visit / first_component\n",
        "R27a", "iter_intermediate_paths",
    ),
    Variant(
        "render-indexed-wrong-tuple-position", CLI,
        "                raw_sql, file_config, _ = lnt.load_raw_file_and_config(path, lnt.config)\n",
        "                loaded = lnt.load_raw_file_and_config(path, lnt.config)\n                raw_sql = loaded[0]\n                file_config = loaded[2]\n",
        "R27b", "::render", "indexed form: position 2 of the loaded tuple is not the per-file config",
    ),
    Variant(
        "cli-options-dropped-one-key-kept", CLI,
        "    overrides = {k: kwargs[k] for k in kwargs if kwargs[k] is not None}\n",
        "    overrides = {}\n",
        "R27a", "get_config", "only library_path (one picked option) still reaches the overrides",
    ),
    Variant(
        "cli-overrides-not-passed", CLI,
        "            overrides=overrides,\n            require_dialect=kwargs.pop(\"require_dialect\", True),\n",
        "            require_dialect=kwargs.pop(\"require_dialect\", True),\n",
        "R27a", "get_config",
    ),
    Variant(
        "merge-leaf-local-sometimes-shared", HDICT,
        "                r[k] = deepcopy(d[k])\n",
        "                leaf_copy = deepcopy(d[k])\n                if isinstance(leaf_copy, str):\n                    leaf_copy = d[k]\n                r[k] = leaf_copy\n",
        "R27c", "nested_combine", "through-a-local form: one definition of the stored local is not a copy",
    ),
    Variant(
        "copy-alias-one-origin-unstored", FLUFF,
        "        config_copy._configs = configs_attribute_copy\n        return config_copy\n",
        "        isolated = config_copy\n        if memo:\n            isolated = copy(self)\n        config_copy._configs = configs_attribute_copy\n        return isolated\n",
        "R27d", "copy", "alias form: one object copy() may return keeps the shared _configs",
    ),
    Variant(
        "child-inherits-wrong-attribute-through-local", FLUFF,
        "        return self.from_path(\n            path,\n            extra_config_path=self._extra_config_path,\n            ignore_local_config=self._ignore_local_config,\n            overrides=self._overrides,\n",
        "        inherited_overrides = self._configs\n        inherited_extra = self._extra_config_path\n        return self.from_path(\n            path,\n            inherited_extra,\n            self._ignore_local_config,\n            overrides=inherited_overrides,\n",
        "R27a", "FluffConfig.make_child_from_path", "through-a-local form: the local holds the whole config dict instead of the stored overrides",
    ),
    Variant(
        "init-hoisted-test-is-stale", FLUFF,
        "        if overrides:\n            overrides = {\"core\": overrides}\n",
        "        has_overrides = bool(overrides)\n        overrides = overrides or configs\n        if has_overrides:\n            overrides = {\"core\": overrides}\n",
        "R27a", "FluffConfig.__init__", "hoisted-test form: the tested name is re-bound between the test and the branch, raw file configs can reach the merge as overrides",
    ),
    Variant(
        "file-config-alias-of-non-creating-method", LINTER,
        "        file_config = root_config.make_child_from_path(fname)\n",
        "        make_child = root_config.get_section\n        file_config = make_child(fname)\n",
        "R27b", "load_raw_file_and_config", "bound-method-alias form: the aliased method does not create a config",
    ),
]
