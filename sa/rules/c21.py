"""C21 — rule selection is exact and rules are independent.

Independence in lint mode, by construction:

R21a  the rules that run are the members of the rule pack and nothing else: the
      receiver of every ``.crawl(...)`` in ``Linter.lint_fix_parsed`` is an element of
      ``<RulePack parameter>.rules`` (possibly filtered by a comprehension, wrapped
      in ``tqdm`` / ``list`` / ``sorted`` …); everything that ends up in the returned
      error list is position 0 of such a crawl, position 1 of
      ``IgnoreMask.from_tree`` (the noqa parser), or a ``self``/``cls`` filter of the
      list itself; every ``SQLLintError`` built in core/rules/base.py carries the
      rule object that is running (``rule=self`` / the ``rule`` parameter).
R21b  in lint mode every rule sees the tree it was given: every definition of the
      tree handed to ``crawl`` (and of the tree returned) other than the parameter
      is dominated by the ``fix`` parameter being true, and so is every call of
      ``apply_fixes``; the ``fix`` parameter is what the rules are told.
R21c  field-write ownership: a store to a field of a segment object (the instance
      fields of the classes in core/parser/segments, derived from the source; also
      ``__dict__`` pokes, ``setattr``, ``object.__setattr__``) and a call of an
      in-place segment mutator (``set_parent``, ``invalidate_caches`` …, derived) is
      allowed in core/parser/segments itself and at the rows of ``FIELD_WRITERS`` /
      ``MUTATOR_CALLERS`` only.  Receivers are classified without a type checker:
      ``self`` of a class that is not a segment class, and names annotated with /
      constructed from a non-segment class of the tree, are not segment writes;
      everything else is.
R21d  rule selection (the structural half of "exact"): ``RuleSet.get_rulepack``
      instantiates exactly the registered codes that are *in* the expansion of the
      allow-list and *not in* the expansion of the deny-list, both expansions made
      by the one expander over the one reference map, which is also the map handed
      to the pack; the allow-/deny-list keys are the ones ``FluffConfig`` fills from
      ``rules`` / ``exclude_rules``; the expander only ever adds ``reference_map[...]``
      of a direct reference or of a glob match over the map's own keys; each rule
      is built from the register entry of its own code and is told that code; the
      noqa parser is given a map derived from the pack's own reference map.
R21e  rule objects carry no state from one evaluation to the next: every store to
      / in-place mutation of ``self.<attr>`` in a method of a rule class other than
      ``__init__`` is a row of ``RULE_INSTANCE_STATE`` (memo of config-derived values,
      or scratch that ``_eval`` resets before use).
R21f  RS-state (sa/state.py) over rule classes and the rule helper packages: no
      class attribute of a rule class and no module-/class-level object of rules/,
      utils/, core/rules/ has a mutation site (``RULES_REVIEWED_STATE`` is empty today).

Not decided: the arithmetic of selector expansion on run-time sets beyond the
shape above (e.g. that ``fnmatch`` is the right glob), re-parenting of tree
children when a rule builds a new parent segment around them, state a rule keeps
in objects it creates (helper instances), results of rules in *fix* mode.
"""

from __future__ import annotations

import ast
from typing import Dict, List, Optional, Set, Tuple

from ..cfg import atoms, cfg_of, origins
from ..flow import bind_args
from ..index import AnalysisError, FuncNode, call_name, calls_in, const, enclosing_class, enclosing_function, last_attr, norm, short, walk_local
from ..iohelpers import fq, param_of
from ..report import construct_of
from ..state import _param_names, chain_of, inventory, mutation_shapes

LINTER = "src/sqlfluff/core/linter/linter.py"
BASE = "src/sqlfluff/core/rules/base.py"
NOQA = "src/sqlfluff/core/rules/noqa.py"
FLUFF = "src/sqlfluff/core/config/fluffconfig.py"
FIXMOD = "src/sqlfluff/core/linter/fix.py"
SEGPKG = "src/sqlfluff/core/parser/segments/"

ELEMENT_WRAPPERS = {"tqdm.tqdm": 0, "tqdm": 0, "list": 0, "tuple": 0, "sorted": 0, "reversed": 0, "iter": 0, "filter": 1}

# (function, field) -> why this is not a write to a segment another rule can see
FIELD_WRITERS = {
    ("src/sqlfluff/core/linter/fix.py::apply_fixes", "pos_marker"): "position hand-over onto the freshly created edit segment (fix mode only, R21b)",
    ("src/sqlfluff/core/rules/fix.py::LintFix.__init__", "pos_marker"): "strips markers from the copies made two lines above (`edit = [s.copy() for s in edit]`)",
    ("src/sqlfluff/rules/structure/ST05.py::Rule_ST05._eval", "segments"): "member of the rule's own clone map (SegmentCloneMap copies the statement)",
    ("src/sqlfluff/rules/structure/ST05.py::SegmentCloneMap._build", "pos_marker"): "builds the clone map: writes onto the copy",
    ("src/sqlfluff/rules/structure/ST05.py::_CTEBuilder.ensure_space_after_from", "segments"): "from-clause of the cloned output select",
    ("src/sqlfluff/core/parser/rust_parser.py::RustParser.parse", "_rs_tree"): "the parser attaches the arena to the root it has just built (before any rule runs)",
    ("src/sqlfluff/core/parser/grammar/base.py::cached_method_for_parse_context.wrapped_method", "__dict__"): "memo on *grammar* objects (the receiver named self is a grammar, not a segment)",
}
MUTATOR_CALLERS = {
    ("src/sqlfluff/core/linter/fix.py::apply_fixes", "invalidate_caches"): "fix applier, runs under `fix` only (R21b)",
}

# (class, attribute) -> why the value cannot carry information from one evaluation to the next
RULE_INSTANCE_STATE = {
    ("src/sqlfluff/rules/capitalisation/CP01.py::Rule_CP01", "cap_policy"): "memo of a value derived from the rule's own config",
    ("src/sqlfluff/rules/capitalisation/CP01.py::Rule_CP01", "cap_policy_opts"): "memo of a value derived from the config-info table",
    ("src/sqlfluff/rules/capitalisation/CP01.py::Rule_CP01", "ignore_words_list"): "memo of a value derived from the rule's own config",
    ("src/sqlfluff/rules/capitalisation/CP01.py::Rule_CP01", "ignore_templated_areas"): "memo of a core config value (one config per rule pack)",
    ("src/sqlfluff/rules/convention/CV09.py::Rule_CV09", "blocked_words_list"): "memo of a value derived from the rule's own config",
    ("src/sqlfluff/rules/references/RF02.py::Rule_RF02", "ignore_words_list"): "memo of a value derived from the rule's own config",
    ("src/sqlfluff/rules/references/RF04.py::Rule_RF04", "ignore_words_list"): "memo of a value derived from the rule's own config",
    ("src/sqlfluff/rules/references/RF05.py::Rule_RF05", "ignore_words_list"): "memo of a value derived from the rule's own config",
    ("src/sqlfluff/rules/references/RF03.py::Rule_RF03", "_is_struct_dialect"): "latch derived from the dialect name (one dialect per rule pack)",
    ("src/sqlfluff/rules/structure/ST06.py::Rule_ST06", "seen_band_elements"): "scratch, re-created at the start of every _eval",
    ("src/sqlfluff/rules/structure/ST06.py::Rule_ST06", "current_element_band"): "scratch, reset at the start of every _eval",
    ("src/sqlfluff/rules/structure/ST06.py::Rule_ST06", "violation_exists"): "scratch, reset at the start of every _eval",
}

EXTRA_MUTATORS = ("set_as_parent",)
# code that handles the tree being linted (a computed-name setattr elsewhere cannot hit a segment)
TREE_SCOPES = (
    "src/sqlfluff/rules/", "src/sqlfluff/utils/", "src/sqlfluff/core/rules/", "src/sqlfluff/core/linter/",
    "src/sqlfluff/core/parser/", "src/sqlfluff/api/", "src/sqlfluff/cli/", "plugins/sqlfluff-plugin-example/",
)

RULES_REVIEWED_STATE: Dict[str, Tuple[str, Tuple[str, ...]]] = {}
RULE_STATE_SCOPES = ("src/sqlfluff/rules/", "src/sqlfluff/utils/", "src/sqlfluff/core/rules/")


# ---------------------------------------------------------------------------
# small helpers
# ---------------------------------------------------------------------------


def _resolves_to(repo, m, name: Optional[str], rel: str, cls: str) -> bool:
    if not name:
        return False
    r = repo.resolve_name(m, name)
    return bool(r) and isinstance(r[1], ast.ClassDef) and r[1].name == cls and r[0].relpath == rel


def _ann_name(a: Optional[ast.AST]) -> Optional[str]:
    from ..callgraph import _strip_annotation

    return _strip_annotation(a)


def _param_of_class(repo, f, rel: str, cls: str, fallback: str) -> str:
    m = f._module
    for a in f.args.posonlyargs + f.args.args + f.args.kwonlyargs:
        if _resolves_to(repo, m, _ann_name(a.annotation), rel, cls):
            return a.arg
    if fallback in _param_names(f):
        return fallback
    raise AnalysisError(f"{m.relpath}::{f._qualname}: no parameter of type {cls} (anchor changed)")


def _is_param_attr(cfg, e: ast.AST, at, param: str, attr: str) -> bool:
    """``e`` is ``<param>.<attr>`` (through plain aliases of the parameter)."""
    return isinstance(e, ast.Attribute) and e.attr == attr and isinstance(e.value, ast.Name) and param_of(cfg, e.value, at) == param


class Ctx:
    """A function being looked at: its CFG, and (for a callee) how its parameters were
    bound at the call site in the parent context."""

    def __init__(self, cfg, module, argmap=None, parent=None, at=None):
        self.cfg, self.m, self.argmap, self.parent, self.at = cfg, module, argmap, parent, at


class Elements:
    """Where do the *elements* of an iterable expression come from?

    Follows plain locals, ``tqdm`` / ``list`` / ``sorted`` … wrappers, filtering
    comprehensions (``[x for x in S if ..]``), ``+`` / conditional expressions, slices,
    and one or two levels of helper functions of the tree (the elements of a call are
    the elements of what the callee returns, its parameters bound to the actuals)."""

    def __init__(self, cfg, module, repo=None):
        self.root = Ctx(cfg, module)
        self.repo = repo

    def _callee(self, ctx: Ctx, call: ast.Call):
        if self.repo is None:
            return None
        f = call.func
        fn = None
        bound = False
        if isinstance(f, ast.Name):
            r = self.repo.resolve_name(ctx.m, f.id)
            if r and isinstance(r[1], FuncNode):
                fn = r[1]
        elif isinstance(f, ast.Attribute) and isinstance(f.value, ast.Name) and f.value.id in ("self", "cls"):
            c = enclosing_class(ctx.cfg.func)
            if c is not None:
                r = self.repo.lookup_method(ctx.m, c, f.attr)
                if r:
                    fn = r[1]
                    bound = not any(norm(d) == "staticmethod" for d in fn.decorator_list)
        if fn is None:
            return None
        return fn, bind_args(call, fn, bound=bound)

    def of(self, e: ast.AST, at, depth: int = 0, ctx: Optional[Ctx] = None) -> List[Tuple[ast.AST, object, Ctx]]:
        """Leaves (expression, statement, context): base iterables whose elements flow into ``e``."""
        ctx = ctx or self.root
        if depth > 14:
            return [(e, at, ctx)]
        if isinstance(e, ast.Name):
            out = []
            for o in origins(ctx.cfg, e, at):
                if o.kind == "expr" and not o.path and isinstance(o.expr, ast.List) and not o.expr.elts and self._fills(ctx, e.id):
                    # ``xs = []`` filled by ``for x in S: .. xs.append(x)`` / ``xs.extend(S)``: the elements of S
                    for kind, val, st in self._fills(ctx, e.id):
                        if kind == "all":
                            out += self.of(val, st, depth + 1, ctx)
                        else:
                            out += self._element_sources(ctx, val, st, depth + 1)
                elif o.kind == "aug" and not o.path and isinstance(o.expr, ast.AST):
                    out += self.of(o.expr, o.stmt, depth + 1, ctx)  # ``xs += S``
                elif o.kind == "expr" and not o.path:
                    out += self.of(o.expr, o.stmt, depth + 1, ctx)
                elif o.kind == "param" and ctx.parent is not None and not o.path and o.expr.arg in (ctx.argmap or {}):
                    out += self.of(ctx.argmap[o.expr.arg], ctx.at, depth + 1, ctx.parent)
                else:
                    out.append((o.expr if isinstance(o.expr, ast.AST) else e, o.stmt, ctx))
            return out or [(e, at, ctx)]
        if isinstance(e, ast.Call):
            name = fq(e)
            if name in ELEMENT_WRAPPERS and len(e.args) > ELEMENT_WRAPPERS[name]:
                return self.of(e.args[ELEMENT_WRAPPERS[name]], at, depth + 1, ctx)
            cal = self._callee(ctx, e) if depth < 8 else None
            if cal is not None:
                fn, b = cal
                sub = Ctx(cfg_of(fn), fn._module, b, ctx, at)
                rets = [r for r in walk_local(fn) if isinstance(r, ast.Return) and r.value is not None]
                if rets and not any(isinstance(n, (ast.Yield, ast.YieldFrom)) for n in walk_local(fn)):
                    out = []
                    for r in rets:
                        out += self.of(r.value, r, depth + 4, sub)
                    return out
            return [(e, at, ctx)]
        if isinstance(e, (ast.ListComp, ast.GeneratorExp, ast.SetComp)):
            if len(e.generators) == 1 and isinstance(e.elt, ast.Name) and isinstance(e.generators[0].target, ast.Name) and e.generators[0].target.id == e.elt.id:
                return self.of(e.generators[0].iter, at, depth + 1, ctx)
            return [(e, at, ctx)]
        if isinstance(e, ast.BinOp) and isinstance(e.op, ast.Add):
            return self.of(e.left, at, depth + 1, ctx) + self.of(e.right, at, depth + 1, ctx)
        if isinstance(e, ast.IfExp):
            return self.of(e.body, at, depth + 1, ctx) + self.of(e.orelse, at, depth + 1, ctx)
        if isinstance(e, ast.BoolOp):
            return [x for v in e.values for x in self.of(v, at, depth + 1, ctx)]
        if isinstance(e, ast.Subscript) and isinstance(e.slice, ast.Slice):
            return self.of(e.value, at, depth + 1, ctx)
        return [(e, at, ctx)]

    def _fills(self, ctx: Ctx, name: str):
        """In-place additions to the list local ``name``: ('one', value, stmt) for append/insert,
        ('all', iterable, stmt) for extend."""
        out = []
        for sh in mutation_shapes(ctx.cfg.func):
            if isinstance(sh.recv, ast.Name) and sh.recv.id == name and isinstance(sh.node, ast.Call) and sh.node.args:
                if sh.method in ("append", "insert", "add"):
                    out.append(("one", sh.node.args[-1], ctx.cfg.stmt_of(sh.node)))
                elif sh.method in ("extend", "update"):
                    out.append(("all", sh.node.args[0], ctx.cfg.stmt_of(sh.node)))
        return out

    def _element_sources(self, ctx: Ctx, recv: ast.AST, at, depth: int = 0) -> List[Tuple[ast.AST, object, Ctx]]:
        """Base iterables the single object ``recv`` is an element of (in context ``ctx``)."""
        if isinstance(recv, ast.Subscript) and not isinstance(recv.slice, ast.Slice):
            return self.of(recv.value, at, depth, ctx)
        if isinstance(recv, ast.Name):
            out = []
            for o in origins(ctx.cfg, recv, at):
                if o.kind == "for" and not o.path:
                    out += self.of(o.expr, o.stmt, depth, ctx)
                elif o.kind == "for" and tuple(o.path) == (1,) and isinstance(o.expr, ast.Call) and fq(o.expr) == "enumerate" and o.expr.args:
                    out += self.of(o.expr.args[0], o.stmt, depth, ctx)  # ``for i, x in enumerate(S)``
                elif o.kind == "expr" and isinstance(o.expr, ast.Subscript) and not isinstance(o.expr.slice, ast.Slice) and not o.path:
                    out += self.of(o.expr.value, o.stmt, depth, ctx)
                else:
                    out.append((o.expr if isinstance(o.expr, ast.AST) else recv, o.stmt, ctx))
            return out or [(recv, at, ctx)]
        return [(recv, at, ctx)]

    def element_receiver(self, recv: ast.AST, at) -> List[Tuple[ast.AST, object, Ctx]]:
        """Base iterables the object ``recv`` is an element of."""
        ctx = self.root
        if isinstance(recv, ast.Subscript) and not isinstance(recv.slice, ast.Slice):
            return self.of(recv.value, at)
        if isinstance(recv, ast.Name):
            out = []
            for o in origins(ctx.cfg, recv, at):
                if o.kind == "for" and not o.path:
                    out += self.of(o.expr, o.stmt)
                elif o.kind == "for" and tuple(o.path) == (1,) and isinstance(o.expr, ast.Call) and fq(o.expr) == "enumerate" and o.expr.args:
                    out += self.of(o.expr.args[0], o.stmt)  # ``for i, x in enumerate(S)``
                elif o.kind == "expr" and isinstance(o.expr, ast.Subscript) and not isinstance(o.expr.slice, ast.Slice) and not o.path:
                    out += self.of(o.expr.value, o.stmt)
                else:
                    out.append((o.expr if isinstance(o.expr, ast.AST) else recv, o.stmt, ctx))
            return out or [(recv, at, ctx)]
        return [(recv, at, ctx)]

    def is_root_param_attr(self, leaf, param: str, attr: str) -> bool:
        """The leaf is ``<param>.<attr>`` of the *root* function, possibly spelled inside a
        helper whose own parameter was bound to that parameter."""
        e, at, ctx = leaf
        if not (isinstance(e, ast.Attribute) and e.attr == attr and isinstance(e.value, ast.Name)):
            return False
        name, guard = e.value, 0
        while guard < 6:
            guard += 1
            p = param_of(ctx.cfg, name, at)
            if p is None:
                return False
            if ctx.parent is None:
                return p == param
            actual = (ctx.argmap or {}).get(p)
            if not isinstance(actual, ast.Name):
                return False
            name, at, ctx = actual, ctx.at, ctx.parent
        return False


# ---------------------------------------------------------------------------
# R21a / R21b
# ---------------------------------------------------------------------------


def _crawl_calls(f) -> List[ast.Call]:
    return [c for c in calls_in(f) if isinstance(c.func, ast.Attribute) and c.func.attr == "crawl"]


def _r21ab(chk) -> None:
    repo = chk.repo
    f = repo.fn(LINTER, "Linter.lint_fix_parsed")
    m = repo.mod(LINTER)
    cfg = cfg_of(f)
    pack = _param_of_class(repo, f, BASE, "RulePack", "rule_pack")
    crawl_def = repo.fn(BASE, "BaseRule.crawl")
    el = Elements(cfg, m, repo)
    crawls = _crawl_calls(f)
    chk.count("R21a.crawl_sites", len(crawls))
    chk.floor("R21a.crawl_sites", 1)

    def from_pack(recv, at) -> Tuple[bool, str]:
        leaves = el.element_receiver(recv, at)
        bad = [short(lf[0], 50) for lf in leaves if not el.is_root_param_attr(lf, pack, "rules")]
        return (not bad and bool(leaves)), ", ".join(bad)

    ok_crawls = set()
    for c in crawls:
        st = cfg.stmt_of(c)
        ok, bad = from_pack(c.func.value, st)
        if ok:
            ok_crawls.add(id(c))
        chk.require(
            ok, "R21a", c,
            f"a rule is run that is not (only) a member of {pack}.rules: the receiver of crawl() may come from {bad or 'an unknown place'}; "
            "rules outside the configured selection would report violations",
            detail="crawl receiver is an element of the rule pack",
        )
        chk.sample({"rule": "R21a", "site": f"{LINTER}:{c.lineno}", "receiver": norm(c.func.value), "element_of": [short(lf[0], 40) for lf in el.element_receiver(c.func.value, st)]})

    # ---- the returned error list --------------------------------------------
    rets = [r for r in walk_local(f) if isinstance(r, ast.Return) and isinstance(r.value, ast.Tuple) and len(r.value.elts) >= 2]
    chk.count("R21a.returns", len(rets))
    chk.floor("R21a.returns", 1)
    seen: Set[int] = set()
    problems: List[Tuple[ast.AST, str]] = []
    n_sources = [0]

    def accept_value(e: ast.AST, at, path=(), depth=0) -> None:
        """``e`` (tuple position ``path``) contributes to the error list."""
        if depth > 10 or (id(e), path) in seen:
            return
        seen.add((id(e), path))
        if isinstance(e, ast.Name):
            for o in origins(cfg, e, at, None, path):
                if o.kind in ("expr", "aug"):
                    accept_value(o.expr, o.stmt, tuple(o.path), depth + 1)
                else:
                    problems.append((o.expr if isinstance(o.expr, ast.AST) else e, f"{o.kind} {short(o.expr, 40) if isinstance(o.expr, ast.AST) else o.expr}"))
            return
        if isinstance(e, ast.Subscript) and isinstance(e.slice, ast.Constant) and isinstance(e.slice.value, int) and not isinstance(e.slice.value, bool) and e.slice.value >= 0:
            # ``crawled[0]`` of a result kept whole: the same as unpacking it
            accept_value(e.value, at, (e.slice.value,) + tuple(path), depth + 1)
            return
        n_sources[0] += 1
        if isinstance(e, (ast.List, ast.Tuple)) and not e.elts and not path:
            return
        if isinstance(e, ast.Call):
            if id(e) in ok_crawls and path == (0,):
                return
            if isinstance(e.func, ast.Attribute) and e.func.attr == "crawl" and path == (0,):
                return  # reported above as a foreign crawl
            if last_attr(e) == "from_tree" and path == (1,) and isinstance(e.func, ast.Attribute) and _resolves_to(repo, m, norm(e.func.value), NOQA, "IgnoreMask"):
                return
            if not path and isinstance(e.func, ast.Attribute) and isinstance(e.func.value, ast.Name) and e.func.value.id in ("cls", "self") and (e.args or e.keywords) \
                    and not any(isinstance(a, ast.Starred) for a in e.args) and all(k.arg is not None for k in e.keywords):
                # a filter of the list itself: every argument (positional or keyword) must be accepted too
                for a in list(e.args) + [k.value for k in e.keywords]:
                    accept_value(a, at, (), depth + 1)
                return
        if isinstance(e, ast.BinOp) and isinstance(e.op, ast.Add) and not path:
            accept_value(e.left, at, (), depth + 1)
            accept_value(e.right, at, (), depth + 1)
            return
        problems.append((e, short(e, 60) + ("".join(f"[{p}]" for p in path))))

    for r in rets:
        accept_value(r.value.elts[1], r)
    # in-place additions through methods
    err_names = {r.value.elts[1].id for r in rets if isinstance(r.value.elts[1], ast.Name)}
    for sh in mutation_shapes(f):
        if sh.method in ("append", "extend", "insert") and isinstance(sh.recv, ast.Name) and sh.recv.id in err_names:
            for a in sh.node.args[-1:]:
                accept_value(a, cfg.stmt_of(sh.node))
    chk.count("R21a.error_list_sources", n_sources[0])
    chk.floor("R21a.error_list_sources", 2)
    uniq = {}
    for node, why in problems:
        uniq.setdefault(why, node)
    for why, node in uniq.items():
        chk.fail("R21a", node, f"the violations returned by lint_fix_parsed include something that is neither the result of a rule of the pack nor of the noqa parser: {why}", detail=f"error list source: {why}")
    if not uniq:
        chk.ok("R21a", f"{LINTER}::Linter.lint_fix_parsed", "returned error list: crawl()[0] of pack rules, IgnoreMask.from_tree()[1], filters of itself")

    # ---- every SQLLintError of the rule base carries the running rule -----------
    n_err = 0
    for q, g in repo.mod(BASE).functions():
        for c in calls_in(g):
            if call_name(c) == "SQLLintError":
                n_err += 1
                rule_arg = next((k.value for k in c.keywords if k.arg == "rule"), None)
                gcfg = cfg_of(g)
                p = param_of(gcfg, rule_arg, gcfg.stmt_of(c)) if isinstance(rule_arg, ast.Name) else None
                params = _param_names(g)
                good = p is not None and (p == "self" or (p == "rule" and p in params))
                chk.require(good, "R21a", c, "a lint error is attributed to something other than the rule that is running (rule= must be self / the rule parameter): it would be reported, selected and suppressed under another rule's code", detail="SQLLintError(rule=<running rule>)")
    for q, g in repo.mod(BASE).functions():
        for c in calls_in(g):
            if last_attr(c) == "to_linting_error":
                n_err += 1
                a = next((k.value for k in c.keywords if k.arg == "rule"), c.args[0] if c.args else None)
                chk.require(isinstance(a, ast.Name) and a.id == "self", "R21a", c, "to_linting_error must be given the running rule (rule=self)", detail="to_linting_error(rule=self)")
    chk.count("R21a.lint_error_constructions", n_err)
    chk.floor("R21a.lint_error_constructions", 3)

    # ---- R21b ---------------------------------------------------------------------
    fix_params = set()
    for c in crawls:
        b = bind_args(c, crawl_def, bound=True)
        a = b.get("fix")
        p = param_of(cfg, a, cfg.stmt_of(c)) if a is not None else None
        chk.require(p is not None, "R21b", c, "crawl() is not told the caller's `fix` flag (rules would compute or withhold fixes regardless of the mode)", detail="crawl(fix=<fix parameter>)")
        if p:
            fix_params.add(p)
    if not fix_params:
        if "fix" not in _param_names(f):
            raise AnalysisError("R21b: cannot identify the fix flag of lint_fix_parsed")
        fix_params = {"fix"}

    def implies_fix(e: ast.AST, at, depth: int = 0) -> bool:
        """Truth of ``e`` implies the fix flag: the flag itself, a plain alias, or a
        conjunction one of whose operands does."""
        if depth > 5:
            return False
        if isinstance(e, ast.Name):
            if param_of(cfg, e, at) in fix_params:
                return True
            os_ = origins(cfg, e, at)
            return bool(os_) and all(o.kind == "expr" and not o.path and isinstance(o.expr, ast.AST) and not isinstance(o.expr, ast.Name) and implies_fix(o.expr, o.stmt, depth + 1) for o in os_)
        if isinstance(e, ast.BoolOp) and isinstance(e.op, ast.And):
            return any(implies_fix(v, at, depth + 1) for v in e.values)
        return False

    def under_fix(stmt) -> bool:
        return any(pol and implies_fix(e, stmt) for e, pol in cfg.conditions(stmt))

    n_defs = 0
    tree_params = set()

    def check_tree_expr(e: ast.AST, at, what: str, node) -> None:
        nonlocal n_defs
        if not isinstance(e, ast.Name):
            chk.fail("R21b", node, f"{what} is not a plain tree variable: {short(e, 50)}", detail=f"{what}: plain variable")
            return
        for o in origins(cfg, e, at):
            if o.kind == "param":
                tree_params.add(o.expr.arg)
                continue
            n_defs += 1
            chk.require(
                o.stmt is not None and under_fix(o.stmt), "R21b", o.stmt if isinstance(o.stmt, ast.AST) else node,
                f"{what} can be a tree other than the one passed in ({short(o.expr, 50) if isinstance(o.expr, ast.AST) else o.kind}) without `fix` being set: "
                "in lint mode a later rule would see what an earlier rule did",
                detail=f"{what}: rebinding only under fix",
            )

    for c in crawls:
        b = bind_args(c, crawl_def, bound=True)
        a = b.get("tree")
        if a is None:
            chk.fail("R21b", c, "crawl() is called without a tree argument", detail="crawl tree argument")
            continue
        check_tree_expr(a, cfg.stmt_of(c), "the tree handed to a rule", c)
    for r in rets:
        check_tree_expr(r.value.elts[0], r, "the tree returned", r)
    chk.count("R21b.tree_rebindings", n_defs)
    chk.floor("R21b.tree_rebindings", 1)
    chk.require(len(tree_params) == 1, "R21b", f, f"rules must be handed the tree parameter of lint_fix_parsed (found parameters {sorted(tree_params)})", detail="tree is the parameter")
    n_apply = 0
    for c in calls_in(f):
        r = repo.resolve_name(m, call_name(c)) if call_name(c) else None
        if r and r[0].relpath == FIXMOD and getattr(r[1], "name", "") == "apply_fixes":
            n_apply += 1
            chk.require(under_fix(cfg.stmt_of(c)), "R21b", c, "apply_fixes() can run without `fix` being set: linting would edit the tree between rules", detail="apply_fixes only under fix")
    chk.count("R21b.apply_fixes_calls", n_apply)
    chk.floor("R21b.apply_fixes_calls", 1)


# ---------------------------------------------------------------------------
# R21c
# ---------------------------------------------------------------------------


def _segment_classes(repo) -> Set[int]:
    return {id(c) for _, c in repo.subclasses_of("BaseSegment")}


def _self_name(fn) -> Optional[str]:
    if isinstance(fn, FuncNode) and isinstance(getattr(fn, "_parent", None), ast.ClassDef) and fn.args.args:
        if any(norm(d) in ("staticmethod", "classmethod") for d in fn.decorator_list):
            return None
        return fn.args.args[0].arg
    return None


def segment_fields(repo, segcls: Set[int]) -> Tuple[Set[str], Set[str]]:
    """(instance fields, in-place mutator method names) of the segment classes defined
    in core/parser/segments, derived from their source."""
    fields: Set[str] = {"__dict__", "__class__"}
    methods: Dict[str, List[ast.AST]] = {}
    for m in repo.iter_modules(SEGPKG):
        for q, c in m.classes():
            if id(c) not in segcls:
                continue
            for item in c.body:
                if isinstance(item, ast.AnnAssign) and isinstance(item.target, ast.Name) and item.value is None:
                    fields.add(item.target.id)  # declared instance field
                if not isinstance(item, FuncNode):
                    continue
                me = _self_name(item)
                methods.setdefault(item.name, []).append(item)
                if me is None:
                    continue
                dict_alias = set()
                for n in walk_local(item):
                    if isinstance(n, ast.Assign) and len(n.targets) == 1 and isinstance(n.targets[0], ast.Name) and norm(n.value) == f"{me}.__dict__":
                        dict_alias.add(n.targets[0].id)
                for n in walk_local(item):
                    if isinstance(n, ast.Attribute) and isinstance(n.ctx, ast.Store) and isinstance(n.value, ast.Name) and n.value.id == me:
                        fields.add(n.attr)
                    elif isinstance(n, ast.Subscript) and isinstance(n.ctx, ast.Store) and isinstance(n.slice, ast.Constant) and isinstance(n.slice.value, str):
                        if norm(n.value) == f"{me}.__dict__" or (isinstance(n.value, ast.Name) and n.value.id in dict_alias):
                            fields.add(n.slice.value)
    # in-place mutators: methods that store a field of self / poke self.__dict__, or call such a method
    mut: Set[str] = set()
    changed = True
    while changed:
        changed = False
        for name, defs in methods.items():
            if name in mut or name in ("__init__", "__setattr__", "__new__"):
                continue
            for d in defs:
                me = _self_name(d)
                hit = False
                for sh in mutation_shapes(d):
                    root, path = chain_of(sh.recv)
                    if isinstance(root, ast.Name) and root.id == me and me is not None:
                        if sh.attr is not None and not path:
                            hit = True
                        elif path and path[0] == "__dict__":
                            hit = True
                for c in calls_in(d):
                    # only through self: `copy` / `path_to` call mutators on *other* objects
                    # (the new copy; an idempotent parent-pointer repair of the children)
                    if isinstance(c.func, ast.Attribute) and c.func.attr in mut and isinstance(c.func.value, ast.Name) and c.func.value.id == me:
                        hit = True
                if hit:
                    mut.add(name)
                    changed = True
                    break
    for extra in EXTRA_MUTATORS:  # re-parents the children of self (no store on self itself)
        if extra in methods:
            mut.add(extra)
    return fields, mut


def _local_class(repo, fn, name: str):
    """Class a local name is annotated with / constructed from: (module, ClassDef) | 'external' | None."""
    f = fn
    while f is not None:
        if isinstance(f, FuncNode):
            m = f._module
            for a in f.args.posonlyargs + f.args.args + f.args.kwonlyargs:
                if a.arg == name:
                    t = _ann_name(a.annotation)
                    r = repo.resolve_name(m, t) if t else None
                    if r and isinstance(r[1], ast.ClassDef):
                        return r
                    return None
            for n in walk_local(f):
                t = None
                if isinstance(n, ast.AnnAssign) and isinstance(n.target, ast.Name) and n.target.id == name:
                    t = _ann_name(n.annotation)
                elif isinstance(n, ast.Assign) and any(isinstance(x, ast.Name) and x.id == name for x in n.targets) and isinstance(n.value, ast.Call):
                    t = call_name(n.value)
                if t:
                    r = repo.resolve_name(m, t)
                    if r and isinstance(r[1], ast.ClassDef):
                        return r
        f = enclosing_function(f)
    return None


def _r21c(chk) -> None:
    repo = chk.repo
    segcls = _segment_classes(repo)
    if len(segcls) < 50:
        raise AnalysisError("R21c: segment class hierarchy not found")
    fields, mutators = segment_fields(repo, segcls)
    for need in ("segments", "pos_marker", "uuid", "_raw", "_source_fixes", "_parent"):
        if need not in fields:
            raise AnalysisError(f"R21c: field derivation lost the segment field {need!r} (segment classes refactored?)")
    for need in ("set_parent", "invalidate_caches"):
        if need not in mutators:
            raise AnalysisError(f"R21c: mutator derivation lost {need!r}")
    chk.count("R21c.segment_fields", len(fields))
    chk.count("R21c.segment_mutator_methods", len(mutators))
    chk.note(f"R21c: derived segment fields = {sorted(fields)}; derived in-place mutators = {sorted(mutators)}.")

    def receiver_verdict(node: ast.AST, recv: ast.AST) -> str:
        """'own' | 'not-segment' | 'segment?'"""
        fn = enclosing_function(node)
        root, _ = chain_of(recv)
        c = enclosing_class(fn) if fn is not None else None
        me = _self_name(fn) if fn is not None else None
        if isinstance(recv, ast.Name) and me is not None and recv.id == me:
            return "segment?" if (c is not None and id(c) in segcls) else "not-segment"
        if isinstance(recv, ast.Name) and fn is not None:
            r = _local_class(repo, fn, recv.id)
            if r is not None and id(r[1]) not in segcls:
                return "not-segment"
        return "segment?"

    n_own = n_ext = n_other = 0
    seen_rows = set()
    import re

    # cheap textual pre-filter (over-approximate): only modules that can contain a store at all are walked
    store_rx = re.compile(r"\.(?:%s)\b\s*(?:[-+*/|&]?=(?!=)|:)|\bdel\b|setattr\(|delattr\(|__dict__|__setattr__" % "|".join(sorted(re.escape(x) for x in fields)))
    for rel, m in repo.modules.items():
        owner = rel.startswith(SEGPKG)
        if not store_rx.search(m.text):
            continue
        for n in ast.walk(m.tree):
            recv = field = None
            if isinstance(n, ast.Attribute) and isinstance(n.ctx, (ast.Store, ast.Del)) and n.attr in fields:
                recv, field = n.value, n.attr
            elif isinstance(n, ast.Subscript) and isinstance(n.ctx, (ast.Store, ast.Del)) and isinstance(n.value, ast.Attribute) and n.value.attr == "__dict__":
                recv, field = n.value.value, "__dict__"
            elif isinstance(n, ast.Call) and isinstance(n.func, ast.Attribute) and isinstance(n.func.value, ast.Attribute) and n.func.value.attr == "__dict__" and n.func.attr in ("update", "pop", "clear", "setdefault", "__setitem__"):
                recv, field = n.func.value.value, "__dict__"
            elif isinstance(n, ast.Call) and isinstance(n.func, ast.Name) and n.func.id in ("setattr", "delattr") and len(n.args) >= 2:
                k = const(n.args[1])
                if k is None or k in fields:
                    recv, field = n.args[0], (k if isinstance(k, str) else "*")
            elif isinstance(n, ast.Call) and norm(n.func) == "object.__setattr__" and len(n.args) >= 2:
                k = const(n.args[1])
                if k is None or k in fields:
                    recv, field = n.args[0], (k if isinstance(k, str) else "*")
            if recv is None:
                continue
            if field == "*" and not rel.startswith(TREE_SCOPES):
                continue  # setattr(x, <computed name>, ..) in code that never holds the linted tree (templaters, config, dialect loading)
            if enclosing_function(n) is None:
                continue  # class / module body: import time
            if owner:
                n_own += 1
                continue
            v = receiver_verdict(n, recv)
            if v == "not-segment":
                n_other += 1
                continue
            n_ext += 1
            cons = construct_of(n)
            row = FIELD_WRITERS.get((cons, field))
            if row is not None:
                seen_rows.add((cons, field))
            chk.require(
                row is not None, "R21c", n,
                f"field '{field}' of a segment-like object is written outside core/parser/segments and outside the reviewed writers ({short(getattr(n, '_parent', n), 70)}): "
                "in lint mode every rule is handed the same tree object, so a write is visible to the rules that run afterwards",
                detail=f"writes segment field {field} on {short(recv, 40)}", construct=cons,
            )
            if row is not None:
                chk.sample({"rule": "R21c", "site": f"{rel}:{n.lineno}", "store": short(getattr(n, "_parent", n), 70), "reviewed": row[:70]}, limit=24)
    chk.count("R21c.stores_in_segment_package", n_own)
    chk.count("R21c.stores_outside_checked", n_ext)
    chk.count("R21c.stores_on_non_segment_receivers", n_other)
    chk.floor("R21c.stores_in_segment_package", 10)
    chk.floor("R21c.stores_outside_checked", 3)
    # in-place mutator calls outside the parser package
    n_mut = 0
    mut_rx = re.compile(r"\.(?:%s)\s*\(" % "|".join(sorted(re.escape(x) for x in mutators)))
    for rel, m in repo.modules.items():
        if rel.startswith("src/sqlfluff/core/parser/") or not mut_rx.search(m.text):
            continue
        for n in ast.walk(m.tree):
            if isinstance(n, ast.Call) and isinstance(n.func, ast.Attribute) and n.func.attr in mutators and enclosing_function(n) is not None:
                if receiver_verdict(n, n.func.value) == "not-segment":
                    continue
                n_mut += 1
                cons = construct_of(n)
                row = MUTATOR_CALLERS.get((cons, n.func.attr))
                if row is not None:
                    seen_rows.add((cons, n.func.attr))
                chk.require(
                    row is not None, "R21c", n,
                    f"in-place segment mutator {n.func.attr}() is called outside the parser package and outside the reviewed callers: the shared tree changes under the rules that run afterwards",
                    detail=f"calls segment mutator {n.func.attr} on {short(n.func.value, 40)}", construct=cons,
                )
    chk.count("R21c.mutator_calls_outside_parser", n_mut)
    for row in list(FIELD_WRITERS) + list(MUTATOR_CALLERS):
        if row not in seen_rows:
            chk.note(f"R21c: reviewed row without a site (stale, harmless): {row[0].split('::')[1]} / {row[1]}")


# ---------------------------------------------------------------------------
# R21d
# ---------------------------------------------------------------------------


def _is_self_call(e: ast.AST, name: str) -> bool:
    return isinstance(e, ast.Call) and isinstance(e.func, ast.Attribute) and e.func.attr == name and isinstance(e.func.value, ast.Name) and e.func.value.id in ("self", "cls")


def _single_origin_exprs(cfg, e: ast.AST, at) -> List[Tuple[ast.AST, object]]:
    if isinstance(e, ast.Name):
        return [(o.expr, o.stmt) for o in origins(cfg, e, at) if o.kind == "expr" and not o.path] if all(o.kind == "expr" and not o.path for o in origins(cfg, e, at)) else []
    return [(e, at)]


def _config_key_of(cfg, e: ast.AST, at, cfgparam: str, _depth: int = 0) -> Optional[str]:
    """The constant key K when the value derives from ``<config>.get(K)`` (``... or default``
    accepted, through plain locals)."""
    keys = set()

    def visit(x: ast.AST, st, depth: int) -> None:
        if depth > 6:
            return
        if isinstance(x, ast.Name):
            for o in origins(cfg, x, st):
                if o.kind == "expr" and not o.path:
                    visit(o.expr, o.stmt, depth + 1)
            return
        if isinstance(x, ast.BoolOp) and isinstance(x.op, ast.Or):
            for v in x.values:
                visit(v, st, depth + 1)
            return
        if isinstance(x, ast.IfExp):
            visit(x.body, st, depth + 1)
            visit(x.orelse, st, depth + 1)
            return
        if (
            isinstance(x, ast.Call) and isinstance(x.func, ast.Attribute) and x.func.attr == "get" and isinstance(x.func.value, ast.Name)
            and param_of(cfg, x.func.value, st) == cfgparam and x.args and isinstance(const(x.args[0]), str)
        ):
            keys.add(const(x.args[0]))

    visit(e, at, 0)
    return keys.pop() if len(keys) == 1 else None


def _r21d(chk) -> None:
    repo = chk.repo
    m = repo.mod(BASE)
    f = repo.fn(BASE, "RuleSet.get_rulepack")
    cfg = cfg_of(f)
    exp = repo.fn(BASE, "RuleSet._expand_rule_refs")
    cfgparam = _param_of_class(repo, f, FLUFF, "FluffConfig", "config")

    # -- the pack: RulePack(<rules>, <reference map>) --------------------------------
    packs = []
    for r in walk_local(f):
        if isinstance(r, ast.Return) and r.value is not None:
            for x, st in _single_origin_exprs(cfg, r.value, r) or [(r.value, r)]:
                if isinstance(x, ast.Call) and _resolves_to(repo, m, call_name(x), BASE, "RulePack"):
                    packs.append((x, st))
                else:
                    chk.fail("R21d", r, "get_rulepack returns something that is not a RulePack(...) built here", detail="returns RulePack(rules, reference_map)")
    chk.count("R21d.pack_constructions", len(packs))
    chk.floor("R21d.pack_constructions", 1)
    pack_cls = repo.cls(BASE, "RulePack")
    field_order = [i.target.id for i in pack_cls.body if isinstance(i, ast.AnnAssign) and isinstance(i.target, ast.Name)]
    if field_order[:2] != ["rules", "reference_map"]:
        raise AnalysisError(f"R21d: RulePack fields changed: {field_order}")

    def pack_arg(call, name):
        for k in call.keywords:
            if k.arg == name:
                return k.value
        i = field_order.index(name)
        return call.args[i] if i < len(call.args) else None

    def is_refmap(e, at) -> bool:
        xs = _single_origin_exprs(cfg, e, at)
        return bool(xs) and all(_is_self_call(x, "rule_reference_map") and not x.args for x, _ in xs)

    for call, st in packs:
        rm = pack_arg(call, "reference_map")
        chk.require(rm is not None and is_refmap(rm, st), "R21d", call, "the reference map handed to the rule pack (used to read noqa directives) is not the map the selection was expanded with (self.rule_reference_map())", detail="pack.reference_map is rule_reference_map()")
        rules = pack_arg(call, "rules")
        if not isinstance(rules, ast.Name):
            chk.fail("R21d", call, "cannot follow the list of instantiated rules", detail="pack.rules is a local list")
            continue
        # every element appended to the rules list
        adds = [sh for sh in mutation_shapes(f) if isinstance(sh.recv, ast.Name) and sh.recv.id == rules.id and (sh.method in ("append", "extend", "insert", "add") or sh.how == "augassign")]
        base_ok = all(isinstance(o.expr, (ast.List,)) and not o.expr.elts for o in origins(cfg, rules, st) if o.kind == "expr") and all(o.kind in ("expr", "aug") for o in origins(cfg, rules, st))
        chk.require(base_ok and bool(adds), "R21d", call, "the rule list of the pack is not built up from an empty list by appends in get_rulepack", detail="rules list built by appends")
        chk.count("R21d.rule_appends", len(adds))
        for sh in adds:
            _check_instantiation(chk, repo, f, cfg, sh, cfgparam, is_refmap, exp)
    # -- FluffConfig fills the two keys from `rules` / `exclude_rules` -----------------
    keys = getattr(chk, "_r21d_keys", None)
    if keys:
        h = repo.fn(FLUFF, "FluffConfig._handle_comma_separated_values")
        pairs = {}
        for n in walk_local(h):
            if isinstance(n, ast.Tuple) and len(n.elts) == 2 and all(isinstance(const(x), str) for x in n.elts):
                pairs[const(n.elts[0])] = const(n.elts[1])
        chk.count("R21d.config_key_pairs", len(pairs))
        chk.floor("R21d.config_key_pairs", 2)
        chk.require(pairs.get("rules") == keys[0], "R21d", h, f"the allow-list read by get_rulepack ('{keys[0]}') is not what FluffConfig fills from the `rules` option (it fills {pairs.get('rules')!r})", detail="rules -> allow-list key")
        chk.require(pairs.get("exclude_rules") == keys[1], "R21d", h, f"the deny-list read by get_rulepack ('{keys[1]}') is not what FluffConfig fills from the `exclude_rules` option (it fills {pairs.get('exclude_rules')!r})", detail="exclude_rules -> deny-list key")
    _check_expander(chk, repo, exp)
    _check_noqa_map(chk, repo)


def _membership_atoms(cfg, f, loop_iter_expr: ast.AST, at, var_ok) -> Optional[List[Tuple[ast.AST, bool, object]]]:
    """For ``[r for r in K if <tests>]``: the (container expression, positive?, stmt) membership tests on r."""
    out = []
    if isinstance(loop_iter_expr, ast.ListComp) and len(loop_iter_expr.generators) == 1:
        g = loop_iter_expr.generators[0]
        if not (isinstance(loop_iter_expr.elt, ast.Name) and isinstance(g.target, ast.Name) and g.target.id == loop_iter_expr.elt.id):
            return None
        for t in g.ifs:
            for e, pol in atoms(t, True):
                if isinstance(e, ast.Compare) and len(e.ops) == 1 and isinstance(e.left, ast.Name) and e.left.id == g.target.id:
                    if isinstance(e.ops[0], ast.In):
                        out.append((e.comparators[0], pol, at))
                    elif isinstance(e.ops[0], ast.NotIn):
                        out.append((e.comparators[0], not pol, at))
                    else:
                        return None
                else:
                    return None
        return out
    return None


def _loop_filter(cfg, f, name: ast.Name, at):
    """The explicit-loop spelling of the filter::

        out = []
        for c in <all codes>:
            if c not in <allowed>: continue      (or nested ifs)
            if c in <denied>: continue
            out.append(c)
    """
    os_ = origins(cfg, name, at)
    if not os_ or not all(o.kind == "expr" and isinstance(o.expr, ast.List) and not o.expr.elts for o in os_):
        return None
    lists = {id(o.expr) for o in os_}
    adds = []
    for sh in mutation_shapes(f):
        if isinstance(sh.recv, ast.Name) and sh.method in ("append", "extend", "insert", "add") and sh.node.args:
            ro = origins(cfg, sh.recv, cfg.stmt_of(sh.node))
            if ro and all(o.kind == "expr" and id(o.expr) in lists for o in ro):
                if sh.method != "append":
                    return None
                adds.append(sh)
    if len(adds) != 1:
        return None
    call = adds[0].node
    st = cfg.stmt_of(call)
    v = call.args[0]
    if not isinstance(v, ast.Name):
        return None
    vo = origins(cfg, v, st)
    if len(vo) != 1 or vo[0].kind != "for" or vo[0].path:
        return None
    tests = []
    for e, pol in cfg.conditions(st):
        if isinstance(e, ast.Compare) and len(e.ops) == 1 and isinstance(e.left, ast.Name) and e.left.id == v.id and isinstance(e.ops[0], (ast.In, ast.NotIn)):
            tests.append((e.comparators[0], pol if isinstance(e.ops[0], ast.In) else not pol, cfg.stmt_of(e) or st))
        elif isinstance(e, ast.Compare) and isinstance(e.left, ast.Name) and e.left.id == v.id:
            return None
    return call, vo[0].stmt, tests, vo[0].expr


def _check_instantiation(chk, repo, f, cfg, sh, cfgparam, is_refmap, exp) -> None:
    call = sh.node
    st = cfg.stmt_of(call) if isinstance(call, ast.Call) else call
    if isinstance(call, ast.Call):
        val = call.args[-1] if call.args else None
    else:
        # ``rules += [<rule>]``: the single element of the added list display
        v = getattr(call, "value", None)
        val = v.elts[0] if isinstance(v, (ast.List, ast.Tuple)) and len(v.elts) == 1 and not isinstance(v.elts[0], ast.Starred) and isinstance(getattr(call, "op", None), ast.Add) else None
    construct_of(call)
    # the appended value: <rule_class>(**kwargs) with rule_class = self._register[<code>].rule_class
    inst = None
    for x, xst in _single_origin_exprs(cfg, val, st) if val is not None else []:
        if isinstance(x, ast.Call):
            inst = (x, xst)
    if inst is None:
        chk.fail("R21d", call, "cannot identify how a rule object is instantiated", detail="rule instantiation")
        return
    icall, ist = inst
    code_vars = set()
    ok_cls = False
    for x, xst in _single_origin_exprs(cfg, icall.func, ist):
        if isinstance(x, ast.Attribute) and x.attr == "rule_class":
            # the register entry, directly or kept in a local (``manifest = self._register[code]``)
            entries = _single_origin_exprs(cfg, x.value, xst) if isinstance(x.value, ast.Name) else [(x.value, xst)]
            if entries and all(isinstance(y, ast.Subscript) and norm(y.value) == "self._register" and isinstance(y.slice, ast.Name) for y, _ in entries):
                ok_cls = True
                code_vars |= {y.slice.id for y, _ in entries}
    chk.require(ok_cls and len(code_vars) == 1, "R21d", icall, "a rule object is not instantiated from the register entry of the selected code (self._register[code].rule_class)", detail="rule class comes from the register entry of the code")
    if len(code_vars) != 1:
        return
    code = code_vars.pop()
    # the code comes from a for loop over the filtered key list
    next((n for n in ast.walk(icall.func) if isinstance(n, ast.Name)), None)
    cname = ast.Name(id=code, ctx=ast.Load())
    os_ = origins(cfg, cname, st)
    loops = [o for o in os_ if o.kind == "for" and not o.path]
    if not chk.require(bool(loops) and len(loops) == len(os_), "R21d", icall, "the code of the instantiated rule is not the loop variable over the selected codes", detail="code iterates the selected codes"):
        return
    # the rule is told its own code
    told = False
    for n in walk_local(f):
        if isinstance(n, ast.Assign) and len(n.targets) == 1 and isinstance(n.targets[0], ast.Subscript) and const(n.targets[0].slice) == "code" and isinstance(n.value, ast.Name) and n.value.id == code:
            kw = icall.keywords
            if any(k.arg is None and norm(k.value) == norm(n.targets[0].value) for k in kw) and cfg.dominates(n, st):
                told = True
    if any(k.arg == "code" and isinstance(k.value, ast.Name) and k.value.id == code for k in icall.keywords):
        told = True
    chk.require(told, "R21d", icall, "the instantiated rule is not given the selected code as its `code` (violations would be reported and suppressed under another code)", detail="rule is told its own code")
    for lo in loops:
        _check_selection(chk, repo, f, cfg, lo.expr, lo.stmt, cfgparam, is_refmap, exp)


def _check_selection(chk, repo, f, cfg, iter_expr, at, cfgparam, is_refmap, exp) -> None:
    """``iter_expr`` is what the instantiation loop iterates: follow it to the filter."""
    filt = None
    for x, xst in _single_origin_exprs(cfg, iter_expr, at):
        tests = _membership_atoms(cfg, f, x, xst, None)
        if tests is not None:
            filt = (x, xst, tests, x.generators[0].iter)
    if filt is None and isinstance(iter_expr, ast.Name):
        filt = _loop_filter(cfg, f, iter_expr, at)
    if filt is None:
        chk.fail("R21d", iter_expr, "the selected codes are not produced by a membership filter `[c for c in <all codes> if c in <allowed> and c not in <denied>]`", detail="selection is a membership filter")
        return
    comp, cst, tests, universe = filt
    # a filter applied in stages (``ks = [r for r in ks if r in A]; ks = [r for r in ks if r not in D]``): the tests add up
    for _ in range(3):
        inner = None
        for x, xst in _single_origin_exprs(cfg, universe, cst):
            its = _membership_atoms(cfg, f, x, xst, None)
            if its is not None:
                inner = (x, xst, its, x.generators[0].iter)
        if inner is None:
            break
        tests = list(inner[2]) + list(tests)
        universe, cst = inner[3], inner[1]
    # ``r in (A - D)`` / ``r in A.difference(D)``: in A and not in D
    split = []
    for c, pos_, st_ in tests:
        done = False
        if pos_:
            xs = _single_origin_exprs(cfg, c, st_)
            if len(xs) == 1:
                x, xst = xs[0]
                if isinstance(x, ast.BinOp) and isinstance(x.op, ast.Sub):
                    split += [(x.left, True, xst), (x.right, False, xst)]
                    done = True
                elif isinstance(x, ast.Call) and isinstance(x.func, ast.Attribute) and x.func.attr == "difference" and len(x.args) == 1 and not x.keywords:
                    split += [(x.func.value, True, xst), (x.args[0], False, xst)]
                    done = True
        if not done:
            split.append((c, pos_, st_))
    tests = split
    chk.count("R21d.selection_filters")
    # the filtered universe: the register's keys
    src_ok = False
    for x, xst in _single_origin_exprs(cfg, universe, cst):
        if any(isinstance(n, ast.Attribute) and norm(n) == "self._register" for n in ast.walk(x)):
            src_ok = True
    chk.require(src_ok, "R21d", comp, "the codes being filtered are not the keys of the rule register", detail="filter ranges over the register")

    def expansion(e, st):
        """(list argument, map argument) when ``e`` is self._expand_rule_refs(list, map), via plain locals."""
        res = []
        for x, xst in _single_origin_exprs(cfg, e, st):
            if _is_self_call(x, exp.name):
                b = bind_args(x, exp, bound=True)
                ps = [p for p in _param_names(exp) if p != "self"]
                if len(ps) >= 2 and ps[0] in b and ps[1] in b:
                    res.append((b[ps[0]], b[ps[1]], xst))
                    continue
            return None
        return res or None

    pos = [(c, st) for c, p, st in tests if p]
    neg = [(c, st) for c, p, st in tests if not p]
    chk.require(len(pos) == 1, "R21d", comp, f"the selection filter must keep a code only if it is in exactly one allowed set (found {len(pos)} positive membership tests)", detail="one positive membership test")
    chk.require(len(neg) == 1, "R21d", comp, f"the selection filter must drop a code that is in the denied set (found {len(neg)} negative membership tests): exclude_rules would be ignored", detail="one negative membership test")
    keys = [None, None]
    for idx, (lst, what) in enumerate(((pos, "allowed"), (neg, "denied"))):
        if len(lst) != 1:
            continue
        c, st = lst[0]
        ex = expansion(c, st)
        if not chk.require(ex is not None, "R21d", c, f"the {what} set is not the result of {exp.name}(<list>, <reference map>)", detail=f"{what} set is an expansion"):
            continue
        for larg, marg, xst in ex:
            chk.require(is_refmap(marg, xst), "R21d", marg, f"the {what} set is expanded with a map other than self.rule_reference_map()", detail=f"{what} set expanded over the reference map")
            k = _config_key_of(cfg, larg, xst, cfgparam)
            chk.require(k is not None, "R21d", larg, f"the {what} list does not come from a config key ({cfgparam}.get(<key>))", detail=f"{what} list from config")
            keys[idx] = k
    if keys[0] and keys[1]:
        chk.require(keys[0] != keys[1], "R21d", comp, f"allowed and denied sets are read from the same config key '{keys[0]}'", detail="allow and deny keys differ")
        chk._r21d_keys = (keys[0], keys[1])
        chk.sample({"rule": "R21d", "site": f"{BASE}:{comp.lineno}", "filter": short(comp, 90), "allow_key": keys[0], "deny_key": keys[1]})


def _check_expander(chk, repo, exp) -> None:
    cfg = cfg_of(exp)
    ps = [p for p in _param_names(exp) if p != "self"]
    if len(ps) < 2:
        raise AnalysisError("R21d: _expand_rule_refs signature changed")
    lst, mp = ps[0], ps[1]
    rets = [r for r in walk_local(exp) if isinstance(r, ast.Return) and r.value is not None]
    chk.count("R21d.expander_returns", len(rets))
    chk.floor("R21d.expander_returns", 1)
    names = set()
    for r in rets:
        if isinstance(r.value, ast.Name):
            names.add(r.value.id)
            fresh = all(o.kind == "expr" and isinstance(o.expr, ast.Call) and call_name(o.expr) == "set" and not o.expr.args for o in origins(cfg, r.value, r) if o.kind != "aug")
            chk.require(fresh, "R21d", r, "the expander does not return a set it built from empty", detail="expander result starts empty")
        else:
            chk.fail("R21d", r, "cannot follow the expander's result", detail="expander returns its result set")
    n_add = 0
    for sh in mutation_shapes(exp):
        if not (isinstance(sh.recv, ast.Name) and sh.recv.id in names):
            continue
        st = cfg.stmt_of(sh.node)
        if sh.method in ("update", "add") or sh.how == "augassign":
            n_add += 1
            arg = sh.node.args[0] if isinstance(sh.node, ast.Call) and sh.node.args else getattr(sh.node, "value", None)
            if isinstance(arg, ast.Name):
                srcs = _single_origin_exprs(cfg, arg, st)  # ``codes = reference_map[r]; result.update(codes)``
                if len(srcs) == 1 and isinstance(srcs[0][0], ast.Subscript):
                    arg, st = srcs[0]
            good = False
            if isinstance(arg, ast.Subscript) and isinstance(arg.value, ast.Name) and param_of(cfg, arg.value, st) == mp and isinstance(arg.slice, ast.Name):
                for o in origins(cfg, arg.slice, st):
                    if o.kind != "for" or o.path:
                        good = False
                        break
                    it = o.expr
                    if isinstance(it, ast.Name) and param_of(cfg, it, o.stmt) == lst:
                        # direct reference: must sit under `key in map`
                        good = any(
                            isinstance(e, ast.Compare) and len(e.ops) == 1 and isinstance(e.ops[0], (ast.In, ast.NotIn)) and pol == isinstance(e.ops[0], ast.In)
                            and norm(e.left) == norm(arg.slice) and isinstance(e.comparators[0], ast.Name) and param_of(cfg, e.comparators[0], st) == mp
                            for e, pol in cfg.conditions(st)
                        )
                    else:
                        leaves = [x for x, _ in _single_origin_exprs(cfg, it, o.stmt)]
                        good = bool(leaves) and all(
                            isinstance(x, ast.Call) and fq(x) == "fnmatch.filter" and len(x.args) == 2
                            and isinstance(x.args[0], ast.Call) and last_attr(x.args[0]) == "keys" and isinstance(x.args[0].func.value, ast.Name) and param_of(cfg, x.args[0].func.value, o.stmt) == mp
                            for x in leaves
                        )
                        if good:
                            # the pattern is an element of the list being expanded
                            pat = leaves[0].args[1]
                            po = origins(cfg, pat, o.stmt) if isinstance(pat, ast.Name) else []
                            good = bool(po) and all(p.kind == "for" and isinstance(p.expr, ast.Name) and param_of(cfg, p.expr, p.stmt) == lst for p in po)
                    if not good:
                        break
            chk.require(good, "R21d", sh.node, f"the expander adds something other than {mp}[<direct reference>] / {mp}[<glob match over {mp}.keys()>] to the selected set", detail=f"expander adds map entries only: {short(sh.node, 60)}")
        else:
            chk.fail("R21d", sh.node, f"the expander removes from / rewrites its result set ({sh.how})", detail=f"expander only adds: {sh.how}")
    chk.count("R21d.expander_additions", n_add)
    chk.require(n_add >= 2, "R21d", exp, "the expander must add both direct references and glob matches", detail="direct and glob additions")


def _check_noqa_map(chk, repo) -> None:
    """The noqa parser gets a map derived from the pack's own reference map."""
    m = repo.mod(LINTER)
    n = 0
    for q in ("Linter.lint_fix_parsed", "Linter.lint_parsed"):
        f = repo.fn(LINTER, q)
        cfg = cfg_of(f)
        pack = _param_of_class(repo, f, BASE, "RulePack", "rule_pack")
        for c in calls_in(f):
            if last_attr(c) in ("from_tree", "from_source", "from_source_with_dialect") and isinstance(c.func, ast.Attribute) and _resolves_to(repo, m, norm(c.func.value), NOQA, "IgnoreMask"):
                n += 1
                st = cfg.stmt_of(c)
                callee = repo.fn(NOQA, f"IgnoreMask.{last_attr(c)}")
                a = bind_args(c, callee, bound=True).get("reference_map")
                good = False
                if a is not None:
                    xs = _single_origin_exprs(cfg, a, st)
                    good = bool(xs)
                    for x, xst in xs:
                        if _is_param_attr(cfg, x, xst, pack, "reference_map"):
                            continue
                        if _is_self_call(x, "allowed_rule_ref_map"):
                            a0 = next((k.value for k in x.keywords if k.arg == "reference_map"), x.args[0] if x.args and not isinstance(x.args[0], ast.Starred) else None)
                            srcs = _single_origin_exprs(cfg, a0, xst) if a0 is not None else []
                            if srcs and all(_is_param_attr(cfg, y, yst, pack, "reference_map") for y, yst in srcs):
                                continue
                        good = False
                chk.require(good, "R21d", c, f"noqa directives are interpreted with a map that is not derived from {pack}.reference_map (the map the selection was made with)", detail=f"{last_attr(c)} gets the pack's reference map")
    chk.count("R21d.noqa_mask_constructions", n)
    chk.floor("R21d.noqa_mask_constructions", 1)


# ---------------------------------------------------------------------------
# R21e / R21f
# ---------------------------------------------------------------------------


def _r21e(chk) -> None:
    repo = chk.repo
    rules = repo.subclasses_of("BaseRule")
    chk.count("R21e.rule_classes", len(rules))
    chk.floor("R21e.rule_classes", 60)
    seen_rows = set()
    n_sites = 0
    for m, c in rules:
        ckey = f"{m.relpath}::{getattr(c, '_qualname', c.name)}"
        for item in c.body:
            if not isinstance(item, FuncNode) or item.name in ("__init__", "__new__", "__init_subclass__"):
                continue
            me = _self_name(item)
            if me is None:
                continue
            fns = [item] + [n for n in ast.walk(item) if isinstance(n, FuncNode) and n is not item]
            for fn in fns:
                for sh in mutation_shapes(fn):
                    root, path = chain_of(sh.recv)
                    if not (isinstance(root, ast.Name) and root.id == me):
                        continue
                    attr = path[0] if path else sh.attr
                    if attr is None or attr == "[]":
                        continue
                    if path and path[0] == "__dict__":
                        attr = "__dict__"
                    n_sites += 1
                    # rows are keyed by the class that owns the method
                    row = RULE_INSTANCE_STATE.get((ckey, attr))
                    if row is not None:
                        seen_rows.add((ckey, attr))
                    chk.require(
                        row is not None, "R21e", sh.node,
                        f"rule {c.name} keeps state on the rule object between evaluations (self.{attr}, {sh.how} in {item.name}): the same rule objects are used for every "
                        "variant of a file and every pass, so what one evaluation leaves behind changes what the next one reports",
                        detail=f"rule instance state self.{attr}", construct=f"{ckey}.{item.name}",
                    )
    chk.count("R21e.instance_state_sites", n_sites)
    chk.floor("R21e.instance_state_sites", 5)
    for row in RULE_INSTANCE_STATE:
        if row not in seen_rows:
            chk.note(f"R21e: reviewed row without a site (stale, harmless): {row[0].split('::')[1]}.{row[1]}")


def _r21f(chk) -> None:
    from .c32 import check_state

    repo = chk.repo
    st = inventory(repo)
    rule_classes = {id(c) for _, c in repo.subclasses_of("BaseRule")}

    def in_scope(cell) -> bool:
        if cell.kind == "class" and cell.owner is not None and id(cell.owner) in rule_classes:
            return True
        return cell.module is not None and cell.module.relpath.startswith(RULE_STATE_SCOPES)

    def select(cell, site) -> bool:
        return in_scope(cell)

    n_cells, n_sites = check_state(chk, "R21f", st, RULES_REVIEWED_STATE, select, what="every rule evaluated afterwards (and to the next file)")
    mutated = st.mutated_cells()
    n_const = n_rule_attrs = 0
    for c in st.containers():
        if in_scope(c) and c.key not in mutated:
            n_const += 1
            if c.kind == "class" and id(c.owner) in rule_classes:
                n_rule_attrs += 1
            chk.ok("R21f", c.key, "constant table")
    chk.count("R21f.constant_containers_in_rule_code", n_const)
    chk.count("R21f.rule_class_container_attributes", n_rule_attrs)
    chk.count("R21f.mutated_cells_in_rule_code", n_cells)
    chk.floor("R21f.rule_class_container_attributes", 30)


SHARED_GETTERS = ("sets", "bracket_sets", "get_lexer_matchers", "lexer_matchers")
IN_PLACE = ("add", "update", "discard", "remove", "pop", "clear", "difference_update", "intersection_update", "symmetric_difference_update",
            "append", "extend", "insert", "sort", "reverse", "__setitem__")


def _r21g(chk, repo) -> None:
    """``Dialect.sets(name)`` hands out the live set of the (expanded, per-config shared) dialect
    object; a rule that changes it changes what every rule after it -- and every later file linted
    with the same config -- sees."""
    n = 0
    for pre in ("src/sqlfluff/rules/", "src/sqlfluff/utils/", "src/sqlfluff/core/rules/"):
        for m in repo.iter_modules(pre):
            if m.relpath.startswith("src/sqlfluff/utils/testing/") or "dialect" not in m.text:
                continue
            for q, f in m.functions():
                getters = [c for c in calls_in(f) if isinstance(c.func, ast.Attribute) and c.func.attr in SHARED_GETTERS and "dialect" in norm(c.func.value)]
                if not getters:
                    continue
                cfg = cfg_of(f)
                gid = {id(c) for c in getters}
                n += len(getters)

                def from_getter(e, at) -> bool:
                    if id(e) in gid:
                        return True
                    if isinstance(e, ast.Name):
                        return any(o.kind == "expr" and id(o.expr) in gid and not o.path for o in origins(cfg, e, at))
                    return False

                for node in walk_local(f):
                    bad = None
                    if isinstance(node, ast.AugAssign) and from_getter(node.target, node) if isinstance(node, ast.AugAssign) and isinstance(node.target, ast.Name) else False:
                        bad = f"`{short(node, 60)}` (augmented assignment works in place on a set / list)"
                    elif isinstance(node, ast.Call) and isinstance(node.func, ast.Attribute) and node.func.attr in IN_PLACE and from_getter(node.func.value, cfg.stmt_of(node)):
                        bad = f"`{short(node, 60)}`"
                    elif isinstance(node, (ast.Assign, ast.Delete)):
                        for t in (node.targets if isinstance(node, (ast.Assign, ast.Delete)) else []):
                            if isinstance(t, ast.Subscript) and from_getter(t.value, node):
                                bad = f"`{short(node, 60)}`"
                    if bad:
                        chk.fail(
                            "R21g", node,
                            f"{q} changes in place a collection it got from the dialect object ({bad}): the dialect is shared by every rule of the run, so what this rule leaves "
                            "behind changes the result of the rules evaluated after it (and of later files)",
                            detail=f"{q}: collection handed out by the dialect is changed in place",
                        )
    chk.count("R21g.dialect_collection_reads_in_rule_code", n)
    chk.floor("R21g.dialect_collection_reads_in_rule_code", 5)


def _r21k(chk, repo) -> None:
    from ..idioms import conditions_at

    f = repo.fn("src/sqlfluff/api/simple.py", "get_simple_config")
    cfg = cfg_of(f)
    params = {a.arg for a in f.args.args + f.args.kwonlyargs}
    n = 0
    for st in walk_local(f):
        if not (isinstance(st, ast.Assign) and len(st.targets) == 1 and isinstance(st.targets[0], ast.Subscript) and isinstance(st.targets[0].slice, ast.Constant)):
            continue
        used = {x.id for x in ast.walk(st.value) if isinstance(x, ast.Name)} & params
        if not used:
            continue
        for pn in sorted(used):
            n += 1
            ok = bad = False
            for e, pol in conditions_at(cfg, st):
                if isinstance(e, ast.Compare) and len(e.ops) == 1 and isinstance(e.left, ast.Name) and e.left.id == pn and isinstance(e.comparators[0], ast.Constant) and e.comparators[0].value is None:
                    if (isinstance(e.ops[0], ast.IsNot) and pol) or (isinstance(e.ops[0], ast.Is) and not pol):
                        ok = True
                if isinstance(e, ast.Name) and e.id == pn:
                    bad = True
                if isinstance(e, ast.Call) and call_name(e) in ("len", "bool") and e.args and isinstance(e.args[0], ast.Name) and e.args[0].id == pn:
                    bad = True
            chk.require(
                ok and not bad, "R21k", st,
                f"get_simple_config turns `{pn}` into the override {short(st.targets[0], 30)} only when it is truthy (or not under `{pn} is not None`): an explicitly empty selection "
                "is dropped and the config file's value stays in force",
                detail=f"get_simple_config: {pn} handed on whenever it is given",
            )
    chk.count("R21k.argument_overrides", n)
    chk.floor("R21k.argument_overrides", 3)


def _r21l(chk, repo) -> None:
    f = repo.fn("src/sqlfluff/core/rules/base.py", "RuleSet.get_rulepack")
    cfg = cfg_of(f)
    loops = [l for l in walk_local(f) if isinstance(l, ast.For) and any(isinstance(c, ast.Call) and any(k.arg is None for k in c.keywords) for c in ast.walk(l))]
    chk.count("R21l.instantiation_loops", len(loops))
    if not loops:
        raise AnalysisError("R21l: get_rulepack has no loop that instantiates rule classes with **kwargs; re-confirm the anchor by hand")

    def fresh(e) -> bool:
        if isinstance(e, (ast.Dict, ast.DictComp)):
            # {**a} copies; {"k": v} is new
            return True
        if isinstance(e, ast.Call):
            n = call_name(e)
            if n == "dict" or n in ("copy.copy", "copy.deepcopy", "deepcopy") or (isinstance(e.func, ast.Attribute) and e.func.attr == "copy" and not e.args):
                return True
        if isinstance(e, ast.BinOp) and isinstance(e.op, ast.BitOr):
            return True  # dict | dict builds a new dict
        return False

    for loop in loops:
        inside = {id(x) for b in loop.body for x in ast.walk(b)}
        uses = []  # (name node, statement, what)
        for n in (x for b in loop.body for x in ast.walk(b)):
            if isinstance(n, ast.Call):
                for k in n.keywords:
                    if k.arg is None and isinstance(k.value, ast.Name) and isinstance(n.func, ast.Name):
                        uses.append((k.value, n, "is splatted into the rule class"))
                if isinstance(n.func, ast.Attribute) and n.func.attr in ("update", "setdefault", "pop", "popitem", "clear", "__setitem__") and isinstance(n.func.value, ast.Name):
                    uses.append((n.func.value, n, f"is changed in place (.{n.func.attr})"))
            elif isinstance(n, ast.Subscript) and isinstance(n.ctx, (ast.Store, ast.Del)) and isinstance(n.value, ast.Name):
                uses.append((n.value, n, "is changed in place (item assignment)"))
            elif isinstance(n, ast.AugAssign) and isinstance(n.target, ast.Name) and isinstance(n.op, ast.BitOr):
                uses.append((n.target, n, "is changed in place (|=)"))
        chk.count("R21l.dict_uses", len(uses))
        splatted = {nm.id for nm, _, what in uses if what.startswith("is splatted")}
        for nm, node, what in uses:
            at = cfg.stmt_of(node)
            os_ = origins(cfg, nm, at) if isinstance(nm.ctx, ast.Load) else origins(cfg, ast.copy_location(ast.Name(id=nm.id, ctx=ast.Load()), nm), at)
            bad = [o for o in os_ if not (o.kind == "expr" and not o.path and isinstance(o.expr, ast.AST) and fresh(o.expr) and o.stmt is not None and id(o.stmt) in inside)]
            if nm.id not in splatted:
                # an accumulator of get_rulepack's own (created in the function, never handed to a rule) may
                # live across iterations; only objects that come from elsewhere must not be written to
                bad = [o for o in bad if not (o.kind == "expr" and not o.path and isinstance(o.expr, ast.AST) and (fresh(o.expr) or isinstance(o.expr, (ast.List, ast.Set, ast.ListComp, ast.SetComp)) or (isinstance(o.expr, ast.Call) and call_name(o.expr) in ("set", "list", "defaultdict", "collections.defaultdict"))))]
            chk.require(
                bool(os_) and not bad, "R21l", node,
                f"in get_rulepack's loop over the selected rules `{nm.id}` {what} but is not a dict created inside the iteration (it is "
                + (", ".join(sorted({o.text()[:60] for o in bad})) or "of unknown origin")
                + "): the same object is shared by all rules (or is the config's own section), so the options written for one rule -- its specific section, code, description -- are seen by the rules instantiated after it",
                detail=f"get_rulepack: `{nm.id}` fresh per rule", construct="src/sqlfluff/core/rules/base.py::RuleSet.get_rulepack",
            )
    chk.floor("R21l.dict_uses", 3)


def _r21j(chk, repo) -> None:
    f = repo.fn("src/sqlfluff/core/rules/base.py", "RuleSet.get_rulepack")
    cfg = cfg_of(f)
    n = 0
    for b in [b for b in ast.walk(f) if isinstance(b, ast.BoolOp) and isinstance(b.op, ast.Or) and len(b.values) == 2]:
        r = b.values[1]
        if not (isinstance(r, ast.Call) and call_name(r) in ("list", "sorted", "set") and r.args and any(isinstance(x, ast.Name) and "code" in x.id for x in ast.walk(r))):
            continue
        n += 1
        l = b.values[0]
        st = cfg.stmt_of(b)
        exprs = [l]
        if isinstance(l, ast.Name):
            exprs = [o.expr for o in origins(cfg, l, st) if o.kind == "expr"] or [l]

        def configured(e) -> bool:
            if isinstance(e, ast.BoolOp) and isinstance(e.op, ast.Or):
                return configured(e.values[0])
            return isinstance(e, ast.Call) and last_attr(e) == "get" and e.args and isinstance(e.args[0], ast.Constant) and "allowlist" in str(e.args[0].value)

        chk.require(
            all(configured(e) for e in exprs), "R21j", b,
            f"get_rulepack falls back to every rule when `{short(l, 40)}` is empty, and that is not the configured allow-list itself (it was filtered before): `rules = LT1` (an unknown "
            "reference) then selects all rules instead of none",
            detail="get_rulepack: default-to-all applies to the configured allow-list only",
        )
    chk.count("R21j.default_to_all_fallbacks", n)
    chk.floor("R21j.default_to_all_fallbacks", 1)


def _r21i(chk, repo) -> None:
    from ..flowutil import must_pass

    f = repo.fn("src/sqlfluff/core/config/fluffconfig.py", "FluffConfig._handle_comma_separated_values")
    cfg = cfg_of(f)
    n = 0
    for l in [l for l in walk_local(f) if isinstance(l, ast.For)]:
        tnames = [x.id for x in ast.walk(l.target) if isinstance(x, ast.Name)]
        if len(tnames) != 2:
            continue
        out = tnames[1]
        stores = [st for b in l.body for st in ast.walk(b) if isinstance(st, ast.Assign) and any(isinstance(t, ast.Subscript) and isinstance(t.slice, ast.Name) and t.slice.id == out for t in st.targets)]
        n += 1
        chk.require(
            bool(stores) and must_pass(cfg, l.body[0], l, stores), "R21i", l,
            f"a path through the loop leaves `[{out}]` as it was: when the source key becomes empty (an in-file `-- sqlfluff:exclude_rules:None`, a nested config that clears `rules`) the "
            "old derived list survives and the rule pack is built from a selection that is no longer configured",
            detail="_handle_comma_separated_values: the derived key is stored on every path",
        )
    chk.count("R21i.derived_key_loops", n)
    chk.floor("R21i.derived_key_loops", 1)


def _r21h(chk, repo) -> None:
    from ..flowutil import must_pass, param_origin

    f = repo.fn("src/sqlfluff/core/rules/base.py", "RuleSet._expand_rule_refs")
    cfg = cfg_of(f)
    params = [a.arg for a in f.args.args if a.arg != "self"]
    if len(params) < 2:
        raise AnalysisError("R21h: _expand_rule_refs no longer takes (selectors, reference map); re-confirm the anchor by hand")
    n = 0
    for l in [l for l in walk_local(f) if isinstance(l, ast.For) and isinstance(l.target, ast.Name) and param_origin(cfg, l.iter, l) == params[0]]:
        n += 1
        v = l.target.id
        consult = []
        for st in [x for b in l.body for x in ast.walk(b) if isinstance(x, ast.stmt)]:
            own = [x for x in ast.iter_child_nodes(st) if not isinstance(x, ast.stmt)]
            for x in [y for o in own for y in ast.walk(o)]:
                if isinstance(x, ast.Subscript) and isinstance(x.slice, ast.Name) and x.slice.id == v:
                    consult.append(st)
                if isinstance(x, ast.Call) and last_attr(x) in ("filter", "fnmatch", "fnmatchcase") and any(isinstance(a, ast.Name) and a.id == v for a in x.args):
                    consult.append(st)
                if isinstance(x, ast.Call) and last_attr(x) == "get" and x.args and isinstance(x.args[0], ast.Name) and x.args[0].id == v:
                    consult.append(st)
        chk.require(
            bool(consult) and must_pass(cfg, l.body[0], l, consult) and not any(isinstance(b, (ast.Break, ast.Return)) for x in l.body for b in ast.walk(x)),
            "R21h", l,
            f"a selector can pass through the expander's loop without being looked up or globbed (a path through the body reaches the next selector without `<map>[{v}]` / a glob match on `{v}`): "
            "such a selector selects nothing in `rules` and excludes nothing in `exclude_rules`, silently",
            detail="_expand_rule_refs: every selector is looked up or matched as a glob",
        )
    chk.count("R21h.selector_loops", n)
    chk.floor("R21h.selector_loops", 1)


def run(chk) -> None:
    chk.rule("R21a", "the rule loop runs members of the rule pack only; the returned violations come from those rules or the noqa parser; every lint error carries the rule that is running")
    chk.rule("R21b", "in lint mode every rule is handed the tree that was passed in: tree rebinding and apply_fixes only under `fix`")
    chk.rule("R21c", "segment fields are written (and in-place segment mutators called) only inside core/parser/segments and at the reviewed sites")
    chk.rule("R21d", "get_rulepack instantiates the registered codes that are in the expansion of the allow-list and not in the expansion of the deny-list, one expander, one reference map, which is also the noqa map")
    chk.rule("R21e", "rule objects keep no state between evaluations except the reviewed (class, attribute) rows")
    chk.rule("R21f", "no class attribute of a rule class and no module-/class-level object in rules/, utils/, core/rules has a mutation site")
    chk.rule("R21k", "the simple API hands on every selection it is given, also an empty one: in get_simple_config an argument becomes an override under `<argument> is not None`, never under its truthiness (rules=[] / exclude_rules=[] override the config file)")
    _r21k(chk, chk.repo)
    chk.rule("R21j", "'all rules' is the default only for an allow-list that was not configured: in get_rulepack the `<list> or <all codes>` fallback is applied to the value read from the config itself, never to a list that was filtered first (a selection of unknown references selects nothing, not everything)")
    _r21j(chk, chk.repo)
    chk.rule("R21l", "every rule is configured from its own dict: in get_rulepack's loop over the selected codes, the dict splatted into the rule class and every dict changed in place there is created afresh inside the iteration (a literal, dict(..), a comprehension or a copy) -- never an alias of the generic rule config or of a config section, through which one rule's options would reach the next rule")
    _r21l(chk, chk.repo)
    chk.rule("R21i", "the derived selection lists (rule_allowlist, rule_denylist, ignore, warnings) are recomputed from their source key every time: in FluffConfig._handle_comma_separated_values every path through the loop body stores the derived key")
    _r21i(chk, chk.repo)
    chk.rule("R21h", "the selector expander drops no selector: every path through the body of its loop over the given selectors looks the selector up in the reference map (direct entry) or matches it as a glob against the map's keys")
    _r21h(chk, chk.repo)
    chk.rule("R21g", "no rule changes in place a collection handed out by the shared dialect object (dialect.sets(..), bracket_sets(..), lexer matchers)")
    _r21g(chk, chk.repo)
    _r21ab(chk)
    _r21c(chk)
    _r21d(chk)
    _r21e(chk)
    _r21f(chk)
    chk.exhaustive = True
    chk.assumptions.append("CPython ast gives the program's syntax faithfully; the reviewed tables (FIELD_WRITERS, MUTATOR_CALLERS, RULE_INSTANCE_STATE in sa/rules/c21.py) were reviewed by hand")
    chk.assumptions.append("receiver classification is syntactic (self of a non-segment class / annotated or constructed non-segment class are not segments; everything else is treated as a segment)")


from ..selftest import Variant  # noqa: E402

CP01 = "src/sqlfluff/rules/capitalisation/CP01.py"
RF03 = "src/sqlfluff/rules/references/RF03.py"
ST05 = "src/sqlfluff/rules/structure/ST05.py"
ST06 = "src/sqlfluff/rules/structure/ST06.py"

VARIANTS: List[Variant] = [
    Variant(
        "quiet-r21l-accumulator-across-iterations", "src/sqlfluff/core/rules/base.py",
        "        for code in keylist:\n            kwargs = {}\n",
        "        seen_refs: dict = {}\n        for code in keylist:\n            seen_refs[code] = True\n            kwargs = {}\n",
        "QUIET", None, "R21l: a bookkeeping dict of get_rulepack's own lives across iterations",
    ),
    Variant(
        "r21l-kwargs-alias-generic-config", "src/sqlfluff/core/rules/base.py",
        "            kwargs = {}\n            rule_class = self._register[code].rule_class\n",
        "            kwargs = generic_rule_config\n            rule_class = self._register[code].rule_class\n",
        "R21l", "get_rulepack", "seeded C21-9",
    ),
    Variant(
        "r21l-kwargs-alias-specific-section", "src/sqlfluff/core/rules/base.py",
        "            if generic_rule_config:\n                kwargs.update(generic_rule_config)\n            if specific_rule_config:\n                # Validate specific rule config before adding\n                self._validate_config_options(config, rule_config_ref)\n                kwargs.update(specific_rule_config)\n",
        "            if specific_rule_config:\n                # Validate specific rule config before adding\n                self._validate_config_options(config, rule_config_ref)\n                kwargs = specific_rule_config\n            for k, v in generic_rule_config.items():\n                kwargs.setdefault(k, v)\n",
        "R21l", "get_rulepack", "the config's own section object is written to (code, description, generic keys)",
    ),
    Variant(
        "r21l-kwargs-created-before-the-loop", "src/sqlfluff/core/rules/base.py",
        "        for code in keylist:\n            kwargs = {}\n",
        "        kwargs = {}\n        for code in keylist:\n",
        "R21l", "get_rulepack", "one dict for all rules: specific options accumulate",
    ),
    Variant(
        "quiet-r21l-kwargs-copy-of-generic", "src/sqlfluff/core/rules/base.py",
        "            kwargs = {}\n            rule_class = self._register[code].rule_class\n",
        "            kwargs = dict(generic_rule_config)\n            rule_class = self._register[code].rule_class\n",
        "QUIET", None, "R21l: starts from a copy",
    ),
    Variant(
        "quiet-r21l-kwargs-unpacked-literal", "src/sqlfluff/core/rules/base.py",
        "            kwargs = {}\n            rule_class = self._register[code].rule_class\n",
        "            kwargs = {**generic_rule_config}\n            rule_class = self._register[code].rule_class\n",
        "QUIET", None, "R21l: starts from an unpacking literal",
    ),
    Variant(
        "quiet-r21l-kwargs-copy-method", "src/sqlfluff/core/rules/base.py",
        "            kwargs = {}\n            rule_class = self._register[code].rule_class\n",
        "            kwargs = generic_rule_config.copy()\n            rule_class = self._register[code].rule_class\n",
        "QUIET", None, "R21l: starts from .copy()",
    ),
    Variant(
        "simple-api-drops-an-empty-exclusion-list", "src/sqlfluff/api/simple.py",
        "    if exclude_rules is not None:\n",
        "    if exclude_rules:\n",
        "R21k", "get_simple_config", "seeded C21-8",
    ),
    Variant(
        "unknown-selection-falls-back-to-all-rules", "src/sqlfluff/core/rules/base.py",
        '        allowlist = config.get("rule_allowlist") or list(valid_codes)\n',
        '        allowlist = [r for r in (config.get("rule_allowlist") or []) if r in reference_map or "*" in r] or list(valid_codes)\n',
        "R21j", "get_rulepack", "seeded C21-7 (same effect)",
    ),
    Variant(
        "derived-lists-kept-when-the-source-is-cleared", "src/sqlfluff/core/config/fluffconfig.py",
        '            else:\n                self._configs["core"][out_key] = []\n',
        '            elif not self._configs["core"].get(out_key):\n                self._configs["core"][out_key] = []\n',
        "R21i", "_handle_comma_separated_values", "seeded C21-6",
    ),
    Variant(
        "quiet-derived-lists-as-a-conditional-expression", "src/sqlfluff/core/config/fluffconfig.py",
        '            if in_value:\n                assert not isinstance(in_value, dict)\n                self._configs["core"][out_key] = split_comma_separated_string(in_value)\n            else:\n                self._configs["core"][out_key] = []\n',
        '            assert not isinstance(in_value, dict)\n            self._configs["core"][out_key] = split_comma_separated_string(in_value) if in_value else []\n',
        "QUIET", None, "R21i: one store with a conditional expression",
    ),
    Variant(
        "expander-globs-only-starred-selectors", "src/sqlfluff/core/rules/base.py",
        "            else:\n                matched_refs = fnmatch.filter(reference_map.keys(), r)\n",
        "            elif \"*\" in r:\n                matched_refs = fnmatch.filter(reference_map.keys(), r)\n",
        "R21h", "_expand_rule_refs", "seeded C21-3: `LT0?` / `L[TA]01` select and exclude nothing",
    ),
    Variant(
        "quiet-expander-early-continue", "src/sqlfluff/core/rules/base.py",
        "            else:\n                matched_refs = fnmatch.filter(reference_map.keys(), r)\n                for matched in matched_refs:\n                    expanded_rule_set.update(reference_map[matched])\n",
        "                continue\n            matched_refs = fnmatch.filter(reference_map.keys(), r)\n            for matched in matched_refs:\n                expanded_rule_set.update(reference_map[matched])\n",
        "QUIET", None, "R21h: early continue after the direct hit, the glob branch dedented",
    ),
    Variant(
        "am08-unions-the-keyword-sets-in-place", "src/sqlfluff/rules/ambiguous/AM08.py",
        '        return (\n            False\n            or "CROSS" in context.dialect.sets("reserved_keywords")\n            or "CROSS" in context.dialect.sets("unreserved_keywords")\n            or "CROSS" in context.dialect.sets("future_reserved_keywords")\n        )\n',
        '        keywords = context.dialect.sets("unreserved_keywords")\n        keywords |= context.dialect.sets("reserved_keywords")\n        keywords |= context.dialect.sets("future_reserved_keywords")\n        return "CROSS" in keywords\n',
        "R21g", "_cross_join_supported", "seeded C21-4: RF04 starts flagging identifiers once AM08 has run",
    ),
    Variant(
        "quiet-am08-unions-the-keyword-sets-into-a-new-set", "src/sqlfluff/rules/ambiguous/AM08.py",
        '        return (\n            False\n            or "CROSS" in context.dialect.sets("reserved_keywords")\n            or "CROSS" in context.dialect.sets("unreserved_keywords")\n            or "CROSS" in context.dialect.sets("future_reserved_keywords")\n        )\n',
        '        keywords = set(context.dialect.sets("unreserved_keywords"))\n        keywords |= context.dialect.sets("reserved_keywords")\n        keywords |= context.dialect.sets("future_reserved_keywords")\n        return "CROSS" in keywords\n',
        "QUIET", None, "R21g: the union is built in a fresh copy",
    ),
    # ---- behaviour-preserving edits: the check must stay quiet -------------------------
    Variant(
        "quiet-rule-list-through-a-temp", LINTER,
        "                progress_bar_crawler = tqdm(\n                    rules_this_phase,\n",
        "                to_run = list(rules_this_phase)\n                progress_bar_crawler = tqdm(\n                    to_run,\n",
        "QUIET", None, "the rules of this pass copied into a local list before the progress bar wraps them",
    ),
    Variant(
        "quiet-adopted-tree-through-a-temp", LINTER,
        "                                tree = new_tree\n",
        "                                adopted = new_tree\n                                tree = adopted\n",
        "QUIET", None, "fixed tree adopted through a second local (still under `fix`)",
    ),
    Variant(
        "quiet-selection-split-and-renamed", BASE,
        "        keylist = [\n            r for r in keylist if r in expanded_allowlist and r not in expanded_denylist\n        ]\n",
        "        selected = [\n            r for r in keylist if r in expanded_allowlist and r not in expanded_denylist\n        ]\n        keylist = selected\n",
        "QUIET", None, "filtered code list bound to another local first",
    ),
    Variant(
        "quiet-allowlist-read-through-a-temp", BASE,
        '        allowlist = config.get("rule_allowlist") or list(valid_codes)\n',
        '        configured = config.get("rule_allowlist")\n        allowlist = configured or list(valid_codes)\n',
        "QUIET", None, "config value read into a local before the default is applied",
    ),
    Variant(
        "quiet-clone-written-through-alias", ST05,
        "            this_seg_clone.segments = this_seg_clone._position_segments(\n",
        "            clone = this_seg_clone\n            clone.segments = this_seg_clone._position_segments(\n",
        "QUIET", None, "the reviewed clone write spelled through an alias",
    ),
    Variant(
        "quiet-config-memo-through-a-temp", CP01,
        "        self.cap_policy = getattr(self, cap_policy_name)\n",
        "        policy = getattr(self, cap_policy_name)\n        self.cap_policy = policy\n",
        "QUIET", None, "memoised config value computed into a local first",
    ),
    # behaviour-preserving refactors: must stay quiet
    Variant(
        "quiet-enumerate", LINTER,
        '                for crawler in progress_bar_crawler:\n',
        '                for _rule_no, crawler in enumerate(progress_bar_crawler):\n',
        "QUIET", None, 'the rules loop numbered with enumerate',
    ),
    Variant(
        "quiet-crawl-positional-whole", LINTER,
        '                    linting_errors, _, fixes, _ = crawler.crawl(\n                        tree,\n                        dialect=config.get("dialect_obj"),\n                        fix=fix,\n                        templated_file=templated_file,\n                        ignore_mask=ignore_mask,\n                        fname=fname,\n                        config=config,\n                    )\n',
        '                    crawled = crawler.crawl(\n                        tree, config.get("dialect_obj"), fix, templated_file, ignore_mask, fname, config\n                    )\n                    linting_errors, fixes = crawled[0], crawled[2]\n',
        "QUIET", None, 'crawl called positionally, its result kept whole and indexed',
    ),
    Variant(
        "quiet-errors-extend", LINTER,
        '                        initial_linting_errors += linting_errors\n',
        '                        initial_linting_errors.extend(linting_errors)\n',
        "QUIET", None, '+= spelled extend()',
    ),
    Variant(
        "quiet-errors-plus", LINTER,
        '                        initial_linting_errors += linting_errors\n',
        '                        initial_linting_errors = initial_linting_errors + linting_errors\n',
        "QUIET", None, '+= spelled x = x + y',
    ),
    Variant(
        "quiet-apply-now-local", LINTER,
        '                    if fix and fixes:\n',
        '                    apply_now = fix and fixes\n                    if apply_now:\n',
        "QUIET", None, '`fix and fixes` through a local',
    ),
    Variant(
        "quiet-phase-list-loop", LINTER,
        '                rules_this_phase = [\n                    rule for rule in rule_pack.rules if rule.lint_phase == phase\n                ]\n',
        '                rules_this_phase = []\n                for rule in rule_pack.rules:\n                    if rule.lint_phase == phase:\n                        rules_this_phase.append(rule)\n',
        "QUIET", None, "comprehension over the pack's rules as an append loop",
    ),
    Variant(
        "quiet-from-tree-indexed", LINTER,
        '            ignore_mask, ivs = IgnoreMask.from_tree(tree, allowed_rules_ref_map)\n            initial_linting_errors += ivs\n',
        '            built = IgnoreMask.from_tree(tree, allowed_rules_ref_map)\n            ignore_mask = built[0]\n            initial_linting_errors += built[1]\n',
        "QUIET", None, 'noqa parser result kept whole and indexed',
    ),
    Variant(
        "quiet-templated-filter-keyword", LINTER,
        '            initial_linting_errors = cls.remove_templated_errors(initial_linting_errors)\n',
        '            initial_linting_errors = cls.remove_templated_errors(\n                linting_errors=initial_linting_errors\n            )\n',
        "QUIET", None, "the list's own filter called with a keyword argument",
    ),
    Variant(
        "quiet-allowed-map-keywords", LINTER,
        '            allowed_rules_ref_map = cls.allowed_rule_ref_map(\n                rule_pack.reference_map, disable_noqa_except\n            )\n            ignore_mask, ivs',
        '            allowed_rules_ref_map = cls.allowed_rule_ref_map(\n                reference_map=rule_pack.reference_map, disable_noqa_except=disable_noqa_except\n            )\n            ignore_mask, ivs',
        "QUIET", None, 'keyword arguments for allowed_rule_ref_map',
    ),
    Variant(
        "quiet-pack-map-local", LINTER,
        '            allowed_rules_ref_map = cls.allowed_rule_ref_map(\n                rule_pack.reference_map, disable_noqa_except\n            )\n            ignore_mask, ivs',
        '            pack_map = rule_pack.reference_map\n            allowed_rules_ref_map = cls.allowed_rule_ref_map(pack_map, disable_noqa_except)\n            ignore_mask, ivs',
        "QUIET", None, "the pack's reference map through a local",
    ),
    Variant(
        "quiet-two-comprehensions", BASE,
        '        keylist = [\n            r for r in keylist if r in expanded_allowlist and r not in expanded_denylist\n        ]\n',
        '        keylist = [r for r in keylist if r in expanded_allowlist]\n        keylist = [r for r in keylist if r not in expanded_denylist]\n',
        "QUIET", None, 'selection filter applied in two stages',
    ),
    Variant(
        "quiet-set-difference", BASE,
        '        keylist = [\n            r for r in keylist if r in expanded_allowlist and r not in expanded_denylist\n        ]\n',
        '        selected = expanded_allowlist - expanded_denylist\n        keylist = [r for r in keylist if r in selected]\n',
        "QUIET", None, 'allowed minus denied computed as a set first',
    ),
    Variant(
        "quiet-expand-keywords", BASE,
        '        expanded_allowlist = self._expand_rule_refs(allowlist, reference_map)\n',
        '        expanded_allowlist = self._expand_rule_refs(\n            glob_list=allowlist, reference_map=reference_map\n        )\n',
        "QUIET", None, 'keyword arguments for the expander',
    ),
    Variant(
        "quiet-manifest-local", BASE,
        '            rule_class = self._register[code].rule_class\n',
        '            manifest = self._register[code]\n            rule_class = manifest.rule_class\n',
        "QUIET", None, 'register entry through a local',
    ),
    Variant(
        "quiet-rule-through-local", BASE,
        '            instantiated_rules.append(rule_class(**kwargs))\n',
        '            rule = rule_class(**kwargs)\n            instantiated_rules.append(rule)\n',
        "QUIET", None, 'rule object through a local before the append',
    ),
    Variant(
        "quiet-rules-plus-eq", BASE,
        '            instantiated_rules.append(rule_class(**kwargs))\n',
        '            instantiated_rules += [rule_class(**kwargs)]\n',
        "QUIET", None, 'append spelled += [x]',
    ),
    Variant(
        "quiet-expander-codes-local", BASE,
        '            if r in reference_map:\n                expanded_rule_set.update(reference_map[r])\n',
        '            if r in reference_map:\n                direct = reference_map[r]\n                expanded_rule_set.update(direct)\n',
        "QUIET", None, 'map entry through a local before the update',
    ),
    Variant(
        "quiet-expander-arms-swapped", BASE,
        '            if r in reference_map:\n                expanded_rule_set.update(reference_map[r])\n            # Otherwise treat as a glob expression on all references.\n            # NOTE: We expand _all_ references (i.e. groups, aliases, names\n            # AND codes) so that we preserve the most backward compatibility\n            # with existing references to legacy codes in config files.\n            else:\n                matched_refs = fnmatch.filter(reference_map.keys(), r)\n                for matched in matched_refs:\n                    expanded_rule_set.update(reference_map[matched])\n',
        '            if r not in reference_map:\n                for matched in fnmatch.filter(reference_map.keys(), r):\n                    expanded_rule_set |= reference_map[matched]\n                continue\n            expanded_rule_set |= reference_map[r]\n',
        "QUIET", None, 'direct/glob arms swapped, early continue, |= for update()',
    ),
    Variant(
        "quiet-pack-keywords", BASE,
        '        return RulePack(instantiated_rules, reference_map)\n',
        '        pack = RulePack(rules=instantiated_rules, reference_map=reference_map)\n        return pack\n',
        "QUIET", None, 'RulePack built with keywords, through a local',
    ),
    Variant(
        "quiet-denylist-ifexp", BASE,
        '        denylist = config.get("rule_denylist") or []\n',
        '        configured_deny = config.get("rule_denylist")\n        denylist = configured_deny if configured_deny else []\n',
        "QUIET", None, '`or []` as a conditional expression over a local',
    ),
    Variant(
        "quiet-lint-error-rule-positional", BASE,
        '        lerr = res.to_linting_error(rule=self)\n',
        '        lerr = res.to_linting_error(self)\n',
        "QUIET", None, 'positional rule argument',
    ),
    # ---- breaking twins of the quiet spellings above ---------------------------------------------
    Variant(
        "enumerate-over-a-freshly-built-pack", LINTER,
        "                for crawler in progress_bar_crawler:\n",
        "                for _rule_no, crawler in enumerate(get_ruleset().get_rulepack(config).rules):\n",
        "R21a", "lint_fix_parsed", "twin of quiet-enumerate",
    ),
    Variant(
        "crawl-result-indexed-at-the-wrong-position", LINTER,
        '                    linting_errors, _, fixes, _ = crawler.crawl(\n                        tree,\n                        dialect=config.get("dialect_obj"),\n                        fix=fix,\n                        templated_file=templated_file,\n                        ignore_mask=ignore_mask,\n                        fname=fname,\n                        config=config,\n                    )\n',
        "                    crawled = crawler.crawl(\n                        tree, config.get(\"dialect_obj\"), fix, templated_file, ignore_mask, fname, config\n                    )\n                    linting_errors, fixes = crawled[1], crawled[2]\n",
        "R21a", "lint_fix_parsed", "twin of quiet-crawl-positional-whole: position 1 of the crawl result is not the violations",
    ),
    Variant(
        "phase-list-loop-over-a-freshly-built-pack", LINTER,
        "                rules_this_phase = [\n                    rule for rule in rule_pack.rules if rule.lint_phase == phase\n                ]\n",
        "                rules_this_phase = []\n                for rule in get_ruleset().get_rulepack(config).rules:\n                    if rule.lint_phase == phase:\n                        rules_this_phase.append(rule)\n",
        "R21a", "lint_fix_parsed", "twin of quiet-phase-list-loop",
    ),
    Variant(
        "templated-filter-keyword-with-extra-violations", LINTER,
        "            initial_linting_errors = cls.remove_templated_errors(initial_linting_errors)\n",
        "            initial_linting_errors = cls.remove_templated_errors(\n                linting_errors=initial_linting_errors + cls._structural_checks(tree, config)\n            )\n",
        "R21a", "lint_fix_parsed", "twin of quiet-templated-filter-keyword",
    ),
    Variant(
        "noqa-map-keyword-rebuilt-without-user-rules", LINTER,
        "            allowed_rules_ref_map = cls.allowed_rule_ref_map(\n                rule_pack.reference_map, disable_noqa_except\n            )\n            ignore_mask, ivs",
        "            allowed_rules_ref_map = cls.allowed_rule_ref_map(\n                reference_map=get_ruleset().rule_reference_map(), disable_noqa_except=disable_noqa_except\n            )\n            ignore_mask, ivs",
        "R21d", "lint_fix_parsed", "twin of quiet-allowed-map-keywords",
    ),
    Variant(
        "two-stage-filter-second-stage-on-the-allow-list", BASE,
        "        keylist = [\n            r for r in keylist if r in expanded_allowlist and r not in expanded_denylist\n        ]\n",
        "        keylist = [r for r in keylist if r in expanded_allowlist]\n        keylist = [r for r in keylist if r not in expanded_allowlist or r in expanded_denylist]\n",
        "R21d", "get_rulepack", "twin of quiet-two-comprehensions",
    ),
    Variant(
        "two-stage-filter-without-the-deny-stage", BASE,
        "        keylist = [\n            r for r in keylist if r in expanded_allowlist and r not in expanded_denylist\n        ]\n",
        "        keylist = [r for r in keylist if r in expanded_allowlist]\n        keylist = [r for r in keylist if r in valid_codes]\n",
        "R21d", "get_rulepack", "twin of quiet-two-comprehensions: the deny stage replaced by a no-op",
    ),
    Variant(
        "set-difference-operands-swapped", BASE,
        "        keylist = [\n            r for r in keylist if r in expanded_allowlist and r not in expanded_denylist\n        ]\n",
        "        selected = expanded_denylist - expanded_allowlist\n        keylist = [r for r in keylist if r in selected]\n",
        "R21d", "_handle_comma_separated_values", "twin of quiet-set-difference: `rules` now fills the deny side",
    ),
    Variant(
        "set-union-instead-of-difference", BASE,
        "        keylist = [\n            r for r in keylist if r in expanded_allowlist and r not in expanded_denylist\n        ]\n",
        "        selected = expanded_allowlist | expanded_denylist\n        keylist = [r for r in keylist if r in selected]\n",
        "R21d", "get_rulepack", "twin of quiet-set-difference",
    ),
    Variant(
        "manifest-local-taken-by-position", BASE,
        "            rule_class = self._register[code].rule_class\n",
        "            manifest = list(self._register.values())[len(instantiated_rules)]\n            rule_class = manifest.rule_class\n",
        "R21d", "get_rulepack", "twin of quiet-manifest-local",
    ),
    Variant(
        "rules-plus-eq-class-of-the-first-code", BASE,
        "            instantiated_rules.append(rule_class(**kwargs))\n",
        "            instantiated_rules += [self._register[keylist[0]].rule_class(**kwargs)]\n",
        "R21d", "get_rulepack", "twin of quiet-rules-plus-eq",
    ),
    Variant(
        "expander-local-falls-back-to-the-raw-reference", BASE,
        "            if r in reference_map:\n                expanded_rule_set.update(reference_map[r])\n",
        "            if r in reference_map:\n                direct = reference_map.get(r, {r})\n                expanded_rule_set.update(direct)\n",
        "R21d", "_expand_rule_refs", "twin of quiet-expander-codes-local",
    ),
    # ---- R21a ---------------------------------------------------------------------------
    Variant(
        "extra-rules-joined-to-the-pack", LINTER,
        "            else:\n                rules_this_phase = rule_pack.rules\n",
        "            else:\n                rules_this_phase = rule_pack.rules + get_ruleset().get_rulepack(config).rules\n",
        "R21a", "lint_fix_parsed", "rules outside the configured selection are run (and report)",
    ),
    Variant(
        "loop-over-freshly-built-pack", LINTER,
        "                progress_bar_crawler = tqdm(\n                    rules_this_phase,\n",
        "                progress_bar_crawler = tqdm(\n                    get_ruleset().get_rulepack(config).rules,\n",
        "R21a", "lint_fix_parsed", "user rules / per-file selection of the pack are bypassed",
    ),
    Variant(
        "violations-from-outside-the-rule-loop", LINTER,
        "            initial_linting_errors += ivs\n",
        "            initial_linting_errors += ivs\n            initial_linting_errors += cls._structural_checks(tree, config)\n",
        "R21a", "lint_fix_parsed", "violations that no selected rule produced",
    ),
    Variant(
        "lint-error-attributed-to-result-rule", BASE,
        "        lerr = res.to_linting_error(rule=self)\n",
        '        lerr = res.to_linting_error(rule=getattr(res, "rule", None) or self)\n',
        "R21a", "_process_lint_result",
    ),
    # ---- R21b ---------------------------------------------------------------------------
    Variant(
        "fixes-applied-in-lint-mode", LINTER,
        "                    if fix and fixes:\n",
        "                    if fixes:\n",
        "R21b", "lint_fix_parsed", "a later rule sees the tree an earlier rule's fixes produced",
    ),
    Variant(
        "tree-normalised-between-rules", LINTER,
        "                    if is_first_linter_pass():\n                        initial_linting_errors += linting_errors\n",
        "                    if is_first_linter_pass():\n                        initial_linting_errors += linting_errors\n                    tree = tree.copy()\n",
        "R21b", "lint_fix_parsed", "tree object replaced between rules without fix (uuids / parent links differ for later rules)",
    ),
    # ---- R21c ---------------------------------------------------------------------------
    Variant(
        "capitalisation-fix-edits-token-in-place", CP01,
        "        return LintFix.replace(segment, [segment.edit(fixed_raw)])\n",
        "        segment._raw = fixed_raw\n        return LintFix.replace(segment, [segment])\n",
        "R21c", "CP01", "the shared tree's token is rewritten during linting",
    ),
    Variant(
        "rule-invalidates-shared-tree-caches", RF03,
        "        if context.dialect.name in self._dialects_with_structs:\n            self._is_struct_dialect = True\n",
        "        if context.dialect.name in self._dialects_with_structs:\n            self._is_struct_dialect = True\n        context.segment.invalidate_caches()\n",
        "R21c", "RF03",
    ),
    Variant(
        "clone-map-writes-original", ST05,
        "            new_segment.pos_marker = old_segment.pos_marker\n",
        "            new_segment.pos_marker = old_segment.pos_marker\n            old_segment.uuid = new_segment.uuid\n",
        "R21c", "SegmentCloneMap._build", "second writer in a reviewed function, other field",
    ),
    # ---- R21d ---------------------------------------------------------------------------
    Variant(
        "deny-list-not-subtracted", BASE,
        "            r for r in keylist if r in expanded_allowlist and r not in expanded_denylist\n",
        "            r for r in keylist if r in expanded_allowlist\n",
        "R21d", "get_rulepack",
    ),
    Variant(
        "deny-list-expanded-from-allow-list", BASE,
        "        expanded_denylist = self._expand_rule_refs(denylist, reference_map)\n",
        "        expanded_denylist = self._expand_rule_refs(allowlist, reference_map)\n",
        "R21d", "get_rulepack",
    ),
    Variant(
        "allow-and-deny-keys-swapped-in-config", FLUFF,
        '            ("rules", "rule_allowlist"),\n            ("exclude_rules", "rule_denylist"),\n',
        '            ("rules", "rule_denylist"),\n            ("exclude_rules", "rule_allowlist"),\n',
        "R21d", "_handle_comma_separated_values",
    ),
    Variant(
        "globs-match-codes-only", BASE,
        "                matched_refs = fnmatch.filter(reference_map.keys(), r)\n",
        "                matched_refs = fnmatch.filter(self._register.keys(), r)\n",
        "R21d", "_expand_rule_refs", "globs no longer match names, groups and aliases",
    ),
    Variant(
        "pack-gets-pruned-reference-map", BASE,
        "        return RulePack(instantiated_rules, reference_map)\n",
        "        return RulePack(instantiated_rules, {k: v & set(keylist) for k, v in reference_map.items()})\n",
        "R21d", "get_rulepack", "noqa directives naming a de-selected rule become 'unknown rule' errors",
    ),
    Variant(
        "noqa-map-rebuilt-without-user-rules", LINTER,
        "            allowed_rules_ref_map = cls.allowed_rule_ref_map(\n                rule_pack.reference_map, disable_noqa_except\n            )\n            ignore_mask, ivs = IgnoreMask.from_tree(tree, allowed_rules_ref_map)\n",
        "            allowed_rules_ref_map = cls.allowed_rule_ref_map(\n                get_ruleset().rule_reference_map(), disable_noqa_except\n            )\n            ignore_mask, ivs = IgnoreMask.from_tree(tree, allowed_rules_ref_map)\n",
        "R21d", "lint_fix_parsed",
    ),
    Variant(
        "rule-class-taken-by-position", BASE,
        "            rule_class = self._register[code].rule_class\n",
        "            rule_class = list(self._register.values())[len(instantiated_rules)].rule_class\n",
        "R21d", "get_rulepack", "the n-th selected code instantiates the n-th registered class",
    ),
    # ---- R21e / R21f ------------------------------------------------------------------------
    Variant(
        "rule-remembers-structs-seen", RF03,
        "        if context.dialect.name in self._dialects_with_structs:\n            self._is_struct_dialect = True\n",
        "        if context.dialect.name in self._dialects_with_structs:\n            self._is_struct_dialect = True\n        self._queries_seen = getattr(self, \"_queries_seen\", 0) + 1\n",
        "R21e", "Rule_RF03",
    ),
    Variant(
        "rule-scratch-no-longer-reset", ST06,
        "            self.violation_exists = True\n", "            self.violation_exists = True\n            self.violating_bands = getattr(self, 'violating_bands', []) + [i]\n",
        "R21e", "Rule_ST06", "accumulates over evaluations (never reset)",
    ),
    Variant(
        "rule-class-table-extended-at-run-time", RF03,
        "        if context.dialect.name in self._dialects_with_structs:\n            self._is_struct_dialect = True\n",
        "        if context.dialect.name in self._dialects_with_structs:\n            self._is_struct_dialect = True\n        elif self.force_enable:\n            self._dialects_with_structs.append(context.dialect.name)\n",
        "R21f", "Rule_RF03", "class-level list shared by every RF03 object of the process",
    ),
    Variant(
        "module-table-of-rule-mutated", ST05,
        "            this_seg_clone.segments = this_seg_clone._position_segments(\n",
        "            _SELECT_TYPES.append(this_seg_clone.get_type())\n            this_seg_clone.segments = this_seg_clone._position_segments(\n",
        "R21f", "_eval",
    ),
]
