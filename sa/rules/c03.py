"""C03 — indentation markers balance (decided clauses only; DESIGN.md §3 C03).

R03a  grammar balance.  For every dialect, every segment class reachable from the root
      segment and every assignment of the ``indentation`` config keys used by the
      ``Conditional`` grammars below the class, the Indent/Dedent metas emitted by a
      *completed* match of the class' grammar sum to zero.  Decided by abstract
      interpretation on the expanded grammar graph (``sa/grammar_analyses.Balance``):

      * domain: finite sets of net values, widened to ``unbounded`` above 12 elements;
      * meta class -> ``{indent_val}``; ``Conditional`` -> ``{indent_val}`` if every rule
        agrees with the assignment else ``{0}``;
      * ``Sequence`` -> Minkowski sum; metas always contribute (the engine buffers them
        whether or not later optional elements match - checked by R03b), optional
        non-meta elements contribute ``b ∪ {0}``;
      * ``OneOf``/``OptionallyBracketed`` (``max_times == 1``) -> union;
      * ``AnyNumberOf``/``AnySetOf``/``Delimited``/``OptionallyDelimited`` -> ``{0}`` iff
        every element (and the delimiter) is ``{0}``, otherwise the obligation fails *at
        that node* (a repeated unbalanced element drifts without bound);
      * ``Ref`` to a library grammar -> the target's value (cycles iterated to a fixpoint);
        ``Ref`` to a segment class -> ``{0}`` (the class carries its own obligation);
      * ``Bracketed`` -> the engine's own pair plus the content: the *flat* inserts of the
        content count iff ``Bracketed.match`` forwards ``<content>.insert_segments``
        (def-use on that method; today it does not, so they are dropped in pairs or not
        at all - a failing node below such a Bracketed does not count either);
      * parsers, ``Anything`` -> ``{0}``; ``Nothing`` -> no completed match.

      Engine side of the same rule: every insert tuple in ``core/parser`` that names Indent
      classes (``Bracketed.match``, ``resolve_bracket``) must contain both signs with net 0.

      A class whose value is a non-zero singleton may be *paired*: its value is substituted
      in the classes that embed it directly, and it is accepted iff every embedding class is
      then balanced on every path (decided by inlining; :data:`REVIEWED_PAIRS` annotates the ones read by hand).

R03b  ``Sequence.match`` does not emit a prefix of its own metas when it gives up half-way:
      every ``return`` inside the element loop whose ``MatchResult`` is not the empty match
      must not carry inserts whose origin is the sequence's own meta buffer (labels: OWN =
      an expression mentioning the buffer that receives the Indent classes / Conditional
      results of ``self._elements``; CHILD = ``<element match>.insert_segments``).  The
      return after the loop must add what is left in the buffer (that is what makes "metas
      always contribute" true for R03a).

Spellings that are the same fact (each has a QUIET self-test variant): inserts accumulated with
``x += e``, ``x = x + e`` or through one more local (``sa/idioms.contributions``: every leaf is
attributed to the statement that adds it); the result built in a local and returned; keyword or
positional ``MatchResult`` arguments; the element loop over ``self._elements`` directly or through a
local; the meta tests as ``elif``/``if``/nested ifs or in a boolean local; an engine insert
``(pos, Indent)`` written in the tuple or named first; R03c: the balance as ``sum(..)`` or as an
accumulating loop, the zero test in the ``if`` or hoisted into a local, ``!= 0``/``== 0``/truthiness,
either operand order.
"""

from __future__ import annotations

import ast
from typing import Dict, List, Optional, Set, Tuple

from ..cfg import cfg_of, origins
from ..grammar import load_grammar
from ..idioms import atoms_at, conditions_at, contributions
from ..grammar_analyses import (
    BOTTOM, UNBOUNDED, ZERO, Balance, Kinds, assignments, balanced, show_assignment, totals, vshow,
)
from ..index import AnalysisError, FuncNode, call_name, const, enclosing_function, kwarg, last_attr, norm, short, walk_local

SELFTEST_NEEDS_FILES = True

SEQ = "src/sqlfluff/core/parser/grammar/sequence.py"
MALG = "src/sqlfluff/core/parser/match_algorithms.py"
META = "src/sqlfluff/core/parser/segments/meta.py"
COND = "src/sqlfluff/core/parser/grammar/conditional.py"
PARSER_DIR = "src/sqlfluff/core/parser/"

# (module of the embedded class, embedded class, embedding class) -> why the pair is accepted
REVIEWED_PAIRS: Dict[Tuple[str, str, str], str] = {
    ("src/sqlfluff/dialects/dialect_sparksql.py", "TransformClauseSegment", "SelectClauseSegment"): (
        "sparksql SelectClauseSegment is Sequence(SELECT, OneOf(TransformClauseSegment, Sequence(modifier?, Indent, "
        "Delimited(..))), Dedent): the trailing Dedent closes the Indent of whichever alternative matched; "
        "TransformClauseSegment (+1) is referenced nowhere else. Real parse of `SELECT TRANSFORM (a) USING 'cat' FROM t` "
        "has leaf balance 0."
    ),
}


# -- Indent classes from the source ---------------------------------------------------------


def indent_classes(repo) -> Dict[int, Tuple[str, int]]:
    """id(ClassDef) -> (name, indent_val) for ``Indent`` and its subclasses (source MRO)."""
    base = repo.cls(META, "Indent")
    out: Dict[int, Tuple[str, int]] = {}
    for m, c in repo.subclasses_of("Indent"):
        if not any(cc is base for _, cc in repo.mro(m, c)):
            continue
        val = None
        for _, cc in repo.mro(m, c):
            for item in cc.body:
                tgts = item.targets if isinstance(item, ast.Assign) else ([item.target] if isinstance(item, ast.AnnAssign) else [])
                if any(isinstance(t, ast.Name) and t.id == "indent_val" for t in tgts) and item.value is not None:
                    v = item.value
                    if isinstance(v, ast.UnaryOp) and isinstance(v.op, ast.USub) and isinstance(const(v.operand), int):
                        val = -const(v.operand)
                    elif isinstance(const(v), int):
                        val = const(v)
                    break
            if val is not None:
                break
        if val is None:
            raise AnalysisError(f"cannot read indent_val of {c.name} from the source")
        out[id(c)] = (c.name, val)
    if not any(v > 0 for _, v in out.values()) or not any(v < 0 for _, v in out.values()):
        raise AnalysisError("Indent/Dedent classes with positive and negative indent_val not found in segments/meta.py")
    return out


def _resolve_indent(repo, ic, node) -> Optional[Tuple[str, int]]:
    if not isinstance(node, (ast.Name, ast.Attribute)):
        return None
    r = repo.resolve_name(node._module, norm(node))
    if r and isinstance(r[1], ast.ClassDef):
        return ic.get(id(r[1]))
    return None


def _insert_group(t: ast.Tuple) -> ast.AST:
    """The display that collects the insert ``(position, <Indent class>)``: the enclosing tuple /
    list, also when the insert is named first (``a = (pos, Indent)`` ... ``(a, b)``: the one
    display in which that name, holding only this tuple, is an element)."""
    outer = getattr(t, "_parent", None)
    if isinstance(outer, (ast.Tuple, ast.List)):
        return outer
    tgt = None
    if isinstance(outer, ast.Assign) and outer.value is t and len(outer.targets) == 1 and isinstance(outer.targets[0], ast.Name):
        tgt = outer.targets[0].id
    elif isinstance(outer, ast.AnnAssign) and outer.value is t and isinstance(outer.target, ast.Name):
        tgt = outer.target.id
    func = enclosing_function(t) if tgt else None
    if func is None or not isinstance(func, FuncNode):
        return t
    cfg = cfg_of(func)
    outs: List[ast.AST] = []
    for u in walk_local(func):
        if isinstance(u, ast.Name) and u.id == tgt and isinstance(u.ctx, ast.Load) and isinstance(getattr(u, "_parent", None), (ast.Tuple, ast.List)):
            os_ = origins(cfg, u, cfg.stmt_of(u))
            if len(os_) == 1 and os_[0].kind == "expr" and not os_[0].path and os_[0].expr is t and not any(u._parent is x for x in outs):
                outs.append(u._parent)
    return outs[0] if len(outs) == 1 else t


def engine_pairs(chk, repo, ic) -> None:
    """Every literal insert tuple naming Indent classes is a balanced pair."""
    groups: Dict[int, Tuple[ast.AST, List[Tuple[str, int]]]] = {}
    for m in repo.iter_modules(PARSER_DIR):
        for t in ast.walk(m.tree):
            if not (isinstance(t, ast.Tuple) and len(t.elts) == 2):
                continue
            hit = _resolve_indent(repo, ic, t.elts[1])
            if hit is None:
                continue
            outer = _insert_group(t)
            groups.setdefault(id(outer), (outer, []))[1].append(hit)
    for outer, hits in groups.values():
        chk.count("R03a.engine_insert_tuples")
        net = sum(v for _, v in hits)
        names = ", ".join(f"{n}({v:+d})" for n, v in hits)
        chk.require(
            net == 0 and any(v > 0 for _, v in hits) and any(v < 0 for _, v in hits), "R03a", outer,
            f"the engine inserts the metas [{names}] here, net {net:+d}: every bracket pair matched by this code shifts the "
            f"indentation balance of the rest of the file",
            detail="engine insert tuple contains both signs with net 0",
        )
        chk.sample({"rule": "R03a", "site": f"{outer._module.relpath}:{outer.lineno}", "inserts": names, "net": net})


def bracketed_forwards_content(repo) -> Tuple[bool, ast.AST]:
    """Does ``Bracketed.match`` put ``<content match>.insert_segments`` into its result?"""
    f = repo.fn(SEQ, "Bracketed.match")
    cfg = cfg_of(f)
    content_calls = [
        c for c in ast.walk(f)
        if isinstance(c, ast.Call) and isinstance(c.func, ast.Attribute) and c.func.attr == "match"
        and isinstance(c.func.value, ast.Call) and call_name(c.func.value) == "super"
    ]
    if len(content_calls) != 1:
        raise AnalysisError(f"Bracketed.match: expected one super().match(..) call for the content, found {len(content_calls)}")
    cc = content_calls[0]
    forwards = False
    for n in walk_local(f):
        if isinstance(n, ast.Attribute) and n.attr == "insert_segments" and isinstance(n.value, ast.Name) and isinstance(n.ctx, ast.Load):
            os_ = origins(cfg, n.value, cfg.stmt_of(n))
            if any(o.kind == "expr" and o.expr is cc for o in os_):
                forwards = True
        # the whole content match appended/merged into the result keeps its inserts as well
        if isinstance(n, ast.Call) and last_attr(n) == "append" and n.args and isinstance(n.args[0], ast.Name):
            os_ = origins(cfg, n.args[0], cfg.stmt_of(n))
            recv = n.func.value if isinstance(n.func, ast.Attribute) else None
            if any(o.kind == "expr" and o.expr is cc for o in os_) and recv is not None and not (
                isinstance(recv, ast.Name) and any(isinstance(o.expr, (ast.List, ast.ListComp)) for o in origins(cfg, recv, cfg.stmt_of(n)))
            ):
                forwards = True
    return forwards, f


# -- R03a on the grammar graphs -------------------------------------------------------------


def _home_label(g, module: Optional[str]) -> Optional[str]:
    for lab, d in g.items():
        if d.module == module:
            return lab
    return None


def _inheritance_order(g) -> List[str]:
    """Dialect labels, parents before children."""
    by_name = {d.name or lab: lab for lab, d in g.items()}
    depth: Dict[str, int] = {}

    def dep(lab, seen=()):
        if lab in depth:
            return depth[lab]
        d = g[lab]
        p = by_name.get(d.inherits_from) if d.inherits_from else None
        v = 0 if p is None or p in seen or p == lab else dep(p, seen + (lab,)) + 1
        depth[lab] = v
        return v

    return sorted(g, key=lambda lab: (dep(lab), lab))


def _explain(b: Balance, i: int, a: Dict[str, bool], depth: int = 0) -> List[str]:
    """Non-zero contributions of the elements of a sequence-like node (for the report)."""
    d = b.d
    n = d.nodes[i]
    out: List[str] = []
    if depth > 3:
        return out
    r = b.role[i]
    if r == "ref":
        t = d.library.get(n.get("ref"))
        if t is not None and b.role[t] not in ("segment", "meta"):
            return _explain(b, t, a, depth + 1)
        return out
    for pos, e in enumerate(n.get("elements") or ()):
        er = b.role[e]
        en = d.nodes[e]
        if er == "meta":
            out.append(f"[{pos}] {en['name']}({int(en.get('indent_val', 0)):+d})")
        elif er == "conditional":
            v = b.conditional_value(en, a)
            rules = ",".join(f"{k}={v_}" for k, v_ in sorted((en.get('config_rules') or {}).items()))
            mname = d.nodes[en["cond_meta"]]["name"] if en.get("cond_meta") is not None else "?"
            out.append(f"[{pos}] Conditional({mname}, {rules}) -> {vshow(v)}")
        elif er in ("segment", "parser", "anything", "nothing", "other"):
            continue
        else:
            v = b.value(e, a)
            if not balanced(v) or (v is not UNBOUNDED and v != ZERO and v):
                sub = _explain(b, e, a, depth + 1)
                label = d.display(e)
                out.append(f"[{pos}] {label} -> {vshow(v)}" + (f" ({'; '.join(sub[:6])})" if sub else ""))
    return out


class _DialectResult:
    def __init__(self):
        self.class_findings: List[dict] = []
        self.node_findings: List[dict] = []
        self.pairs: List[Tuple[str, str, str]] = []


def analyse_dialect(chk, g, kinds, label: str, forward: bool) -> _DialectResult:
    d = g[label]
    res = _DialectResult()
    b0 = Balance(d, kinds, forward_content=forward)
    reach = d.reach()
    classes = [
        i for i, n in enumerate(d.nodes)
        if b0.role[i] == "segment" and n.get("match_grammar") is not None and i in reach
    ]
    chk.count("R03a.segment_classes", len(classes))
    chk.count("R03a.sequence_nodes", sum(1 for i in reach if b0.role[i] in ("sequence", "bracketed")))
    chk.count("R03a.repeat_nodes", sum(1 for i in reach if b0.role[i] in ("delimited", "anynumberof") and d.nodes[i].get("max_times") != 1))
    chk.count("R03a.conditionals", sum(1 for i in reach if b0.role[i] == "conditional"))
    keys_seen: Set[str] = set()
    bad: Dict[int, List[Tuple[Dict[str, bool], object]]] = {}
    node_fail: Dict[Tuple[int, int], List] = {}
    for i in classes:
        mg = d.nodes[i]["match_grammar"]
        keys = b0.keys_below(mg)
        keys_seen.update(keys)
        for a in assignments(keys):
            chk.count("R03a.class_assignments")
            v = b0.value(mg, a)
            if not balanced(v):
                bad.setdefault(i, []).append((a, v))
            else:
                chk.obligations += 1
                chk.discharged += 1
            for f in b0.failures(mg, a):
                node_fail.setdefault((f.node, f.element), []).append(f)
    chk.extra.setdefault("indentation_keys", {})[label] = sorted(keys_seen)

    # -- pairs: substitute the non-zero singleton classes where they are embedded -----------
    singles = {
        i for i, lst in bad.items()
        if all(v is not UNBOUNDED and len(totals(v)) == 1 for _, v in lst)
        and len(lst) == len(assignments(b0.keys_below(d.nodes[i]["match_grammar"])))
    }
    sub: Optional[Balance] = None
    embedders: Dict[int, List[int]] = {}
    if singles:
        sub = Balance(d, kinds, forward_content=forward, inline=singles)
        rev: Dict[int, List[int]] = {}
        for j in range(len(d.nodes)):
            for c in sub._succ[j]:
                rev.setdefault(c, []).append(j)
        for c in singles:
            found: Set[int] = set()
            seen = {c}
            stack = [c]
            while stack:
                cur = stack.pop()
                for p in rev.get(cur, ()):
                    if p in seen:
                        continue
                    seen.add(p)
                    if sub.role[p] == "segment":
                        if p in reach and p != c:
                            found.add(p)
                        continue
                    stack.append(p)
            embedders[c] = sorted(found, key=lambda x: d.nodes[x]["name"])

    def sub_ok(e: int) -> Tuple[bool, List[Tuple[Dict[str, bool], object]]]:
        mg = d.nodes[e]["match_grammar"]
        outs = []
        for a in assignments(sub.keys_below(mg)):
            v = sub.value(mg, a)
            if not balanced(v) or sub.failures(mg, a):
                outs.append((a, v))
        return (not outs), outs

    cancelled: Set[int] = set()
    leaks: Dict[int, List[str]] = {}
    for c in sorted(singles):
        embs = embedders.get(c, [])
        bad_embs = []
        for e in embs:
            ok, _ = sub_ok(e)
            if ok:
                res.pairs.append((d.nodes[c].get("module") or "?", d.nodes[c]["name"], d.nodes[e]["name"]))
            else:
                bad_embs.append(d.nodes[e]["name"])
        if embs and not bad_embs:
            cancelled.add(c)
        else:
            leaks[c] = bad_embs
    for i, lst in sorted(bad.items()):
        n = d.nodes[i]
        if i in cancelled:
            continue
        if i not in singles and sub is not None:
            # an embedding class: balanced once its paired children are substituted?
            ok, _ = sub_ok(i)
            if ok and any(i in embedders.get(c, ()) for c in cancelled):
                continue
        a, v = lst[0]
        why = ""
        if i in singles:
            embs = [d.nodes[e]["name"] for e in embedders.get(i, [])]
            if not embs:
                why = "; no other class embeds it directly, so nothing can cancel it"
            else:
                why = (
                    f"; substituting it into the classes that embed it ({', '.join(embs[:5])}) leaves "
                    f"{', '.join(leaks.get(i, [])[:5])} unbalanced on some path, so it is not a cancelling pair"
                )
        elif sub is not None:
            ok, outs = sub_ok(i)
            if outs:
                why = f"; with its non-zero children substituted it is still {vshow(outs[0][1])}"
        res.class_findings.append({
            "dialect": label, "class": n["name"], "module": n.get("module") or "?", "line": n.get("line", 0),
            "value": vshow(v), "assignment": show_assignment(a), "n_assignments": len(lst),
            "explain": _explain(b0, n["match_grammar"], a), "why": why, "chain": d.chain(i)[-4:],
        })
    for (node, elem), fl in sorted(node_fail.items()):
        f = fl[0]
        owners = [o for o in d.owners(node) if o in reach] or d.owners(node) or [node]
        o = owners[0]
        on = d.nodes[o]
        res.node_findings.append({
            "dialect": label, "owner": d.display(o), "module": on.get("module") or d.module or "?", "line": on.get("line", 0),
            "kind": d.nodes[node]["kind"], "what": f.what, "element": d.display(elem), "value": vshow(f.value),
            "assignment": show_assignment(f.assignment), "explain": _explain(b0, elem, f.assignment), "chain": d.chain(node)[-4:],
        })
    chk.count("R03a.evaluations", b0.evaluations + (sub.evaluations if sub else 0))
    return res


def r03a(chk, repo, g) -> None:
    ic = indent_classes(repo)
    engine_pairs(chk, repo, ic)
    forward, bf = bracketed_forwards_content(repo)
    chk.note(
        "Bracketed.match " + ("forwards" if forward else "does not forward")
        + " the content match's insert_segments (def-use): metas written directly inside Bracketed(...) "
        + ("count towards the class" if forward else "are dropped by the engine and count as 0")
        + "."
    )
    chk.extra["bracketed_forwards_content_inserts"] = forward
    kinds = Kinds(g)
    order = _inheritance_order(g)
    reported_classes: Dict[Tuple[str, str, str], dict] = {}
    reported_nodes: Dict[Tuple[str, str, str, str], dict] = {}
    pairs_seen: Dict[Tuple[str, str, str], List[str]] = {}
    n_loaded = 0
    for label in order:
        d = g[label]
        if d.root is None or not d.nodes:
            chk.note(f"dialect {label} did not load / has no root (see C29/R29b); not analysed.")
            chk.count("R03a.dialects_not_loaded")
            continue
        n_loaded += 1
        chk.count("R03a.dialects")
        res = analyse_dialect(chk, g, kinds, label, forward)
        for p in res.pairs:
            pairs_seen.setdefault(p, []).append(label)
        for f in res.class_findings:
            sig = (f["module"], f["class"], f["value"])
            if sig in reported_classes:
                reported_classes[sig]["also"].append(label)
                continue
            f["also"] = []
            reported_classes[sig] = f
        for f in res.node_findings:
            sig = (f["owner"], f["kind"], f["element"], f["value"])
            if sig in reported_nodes:
                reported_nodes[sig]["also"].append(label)
                continue
            f["also"] = []
            reported_nodes[sig] = f
    for f in reported_classes.values():
        also = f" (same class, same value in: {', '.join(f['also'])})" if f["also"] else ""
        expl = f"; contributions: {'; '.join(f['explain'][:8])}" if f["explain"] else ""
        more = f" (and under {f['n_assignments'] - 1} more assignment(s))" if f["n_assignments"] > 1 else ""
        chk.fail(
            "R03a", None,
            f"dialect {f['dialect']!r}: a completed match of {f['class']} emits Indent/Dedent metas with net {f['value']} under "
            f"{f['assignment']}{more}; it must be {{0}}{expl}{f['why']}; reached via {' > '.join(f['chain'])}{also}. "
            f"Every statement using this class shifts the indentation balance of all following lines",
            detail=f"dialect={f['dialect']} class={f['class']} net balance of a completed match",
            construct=f"{f['module']}::{f['class']}", loc=f"{f['module']}:{f['line']}",
            extra={"value": f["value"], "assignment": f["assignment"], "also_in": f["also"], "contributions": f["explain"]},
        )
    for f in reported_nodes.values():
        also = f" (also in: {', '.join(f['also'])})" if f["also"] else ""
        expl = f" ({'; '.join(f['explain'][:6])})" if f["explain"] else ""
        chk.fail(
            "R03a", None,
            f"dialect {f['dialect']!r}: {f['kind']} in {f['owner']} repeats {f['what']} {f['element']} whose completed match has net "
            f"{f['value']} under {f['assignment']}{expl}: every repetition shifts the indentation balance; reached via "
            f"{' > '.join(f['chain'])}{also}",
            detail=f"dialect={f['dialect']} in={f['owner']} repeated {f['what']} {f['element']} is unbalanced",
            construct=f"{f['module']}::{f['owner']}", loc=f"{f['module']}:{f['line']}",
            extra={"value": f["value"], "assignment": f["assignment"], "also_in": f["also"]},
        )
    for p, labels in sorted(pairs_seen.items()):
        # A computed pair is *decided* (the embedding class is {0} on every path and under every assignment once the
        # embedded class's grammar is inlined), so it is accepted as such; REVIEWED_PAIRS only annotates the evidence.
        chk.count("R03a.pairs")
        chk.obligations += 1
        chk.discharged += 1
        chk.sample({"rule": "R03a", "pair": list(p), "dialects": labels, "reviewed": p in REVIEWED_PAIRS})
    chk.extra["pairs"] = [{"embedded": p[1], "embedding": p[2], "module": p[0], "dialects": l} for p, l in sorted(pairs_seen.items())]
    if n_loaded and not chk.instances.get("R03a.dialects_not_loaded"):
        chk.floor("R03a.dialects", 20)
        chk.floor("R03a.segment_classes", 5000)
        chk.floor("R03a.sequence_nodes", 15000)
        chk.floor("R03a.conditionals", 300)
    chk.exhaustive = True


# -- R03b ------------------------------------------------------------------------------------------


def _ancestors(node):
    p = getattr(node, "_parent", None)
    while p is not None:
        yield p
        p = getattr(p, "_parent", None)


def _partial_prefix_hazards(g, kinds: Kinds, mode: str, include_bracketed: bool):
    """Where can a partial return of ``Sequence.match`` emit an *unbalanced* prefix of the sequence's own metas?

    Every non-STRICT ``Sequence`` (and ``Bracketed`` content, when the engine keeps that result) reachable
    in a bundled dialect is examined under every assignment of the indentation keys of its own
    ``Conditional`` elements.  ``mode``:

    * ``buffer``  -- the return adds the pending buffer: it emits every own meta in front of the required
      element ``j`` that found nothing, and is only taken once some element in front of ``j`` has matched;
    * ``flushed`` -- the return keeps what was flushed when the last element matched: it emits the own
      metas in front of a matched element ``i``, with a later required element ``j`` failing.

    Returns (number of sequences examined, list of hazards)."""
    from ..grammar_analyses import field

    hazards: Dict[Tuple[str, str, str], dict] = {}
    n_seq = 0
    roles = ("sequence", "bracketed") if include_bracketed else ("sequence",)
    for label in _inheritance_order(g):
        d = g[label]
        if d.root is None or not d.nodes:
            continue
        for i in sorted(d.reach()):
            n = d.nodes[i]
            if kinds.role(n) not in roles or field(n, "parse_mode") == "STRICT":
                continue
            n_seq += 1
            els = list(n.get("elements") or ())
            ens = [d.nodes[e] for e in els]
            ers = [kinds.role(en) for en in ens]
            keys = sorted({k for en, er in zip(ens, ers) if er == "conditional" for k in (en.get("config_rules") or {})})
            for a in assignments(keys):
                prefix = 0  # own metas in front of the current element
                first_bad_prefix: Optional[int] = None  # net in front of some earlier non-meta element, if non-zero
                seen_matchable = False
                for e, en, er in zip(els, ens, ers):
                    if er == "meta":
                        prefix += int(field(en, "indent_val") or 0)
                        continue
                    if er == "conditional":
                        rules = en.get("config_rules") or {}
                        if all(bool(v) == bool(a.get(k, False)) for k, v in rules.items()) and en.get("cond_meta") is not None:
                            prefix += int(field(d.nodes[en["cond_meta"]], "indent_val") or 0)
                        continue
                    required = not field(en, "is_optional")
                    net = prefix if mode == "buffer" else first_bad_prefix
                    if required and seen_matchable and net:
                        owners = [o for o in d.owners(i)] or [i]
                        on = d.nodes[owners[0]]
                        sig = (on.get("module") or d.module or "?", d.display(owners[0]), d.display(e))
                        if sig not in hazards:
                            hazards[sig] = {
                                "dialect": label, "module": sig[0], "owner": sig[1], "element": sig[2], "net": net,
                                "assignment": show_assignment(a), "parse_mode": field(n, "parse_mode"), "also": [],
                            }
                        elif label not in hazards[sig]["also"] and label != hazards[sig]["dialect"]:
                            hazards[sig]["also"].append(label)
                    if first_bad_prefix is None and prefix:
                        first_bad_prefix = prefix
                    seen_matchable = True
    return n_seq, [hazards[k] for k in sorted(hazards)]


def r03b(chk, repo, g, kinds: Kinds, forward: bool) -> None:
    f = repo.fn(SEQ, "Sequence.match")
    cfg = cfg_of(f)
    m = f._module
    def self_elements(e, at) -> bool:
        if isinstance(e, ast.Attribute):
            return e.attr == "_elements" and isinstance(e.value, ast.Name) and e.value.id == "self"
        if isinstance(e, ast.Name):
            os_ = origins(cfg, e, at)
            return bool(os_) and all(o.kind == "expr" and not o.path and isinstance(o.expr, ast.Attribute) and self_elements(o.expr, o.stmt) for o in os_)
        return False

    loops = [n for n in walk_local(f) if isinstance(n, ast.For) and isinstance(n.target, ast.Name) and self_elements(n.iter, n)]
    if len(loops) != 1:
        raise AnalysisError(f"Sequence.match: expected one loop over self._elements, found {len(loops)}")
    loop = loops[0]
    elem = loop.target.id

    def resolves_to(node, cls_name: str) -> bool:
        r = repo.resolve_name(m, norm(node)) if isinstance(node, (ast.Name, ast.Attribute)) else None
        if not (r and isinstance(r[1], ast.ClassDef)):
            return False
        return any(cc.name == cls_name for _, cc in repo.mro(r[0], r[1]))

    def meta_test(e: ast.AST) -> bool:
        if isinstance(e, ast.Call) and call_name(e) in ("isinstance", "issubclass") and len(e.args) == 2:
            if isinstance(e.args[0], ast.Name) and e.args[0].id == elem:
                return resolves_to(e.args[1], "Conditional") or resolves_to(e.args[1], "MetaSegment")
        return False

    buffers: Set[str] = set()
    for c in ast.walk(loop):
        if isinstance(c, ast.Call) and last_attr(c) == "append" and isinstance(c.func, ast.Attribute) and isinstance(c.func.value, ast.Name):
            st = cfg.stmt_of(c)
            if any(pol and meta_test(e) for e, pol in conditions_at(cfg, st)):
                buffers.add(c.func.value.id)
    if not buffers:
        raise AnalysisError("Sequence.match: the buffer that collects the sequence's own metas / Conditional results was not recognised")
    chk.count("R03b.meta_buffers", len(buffers))

    def label(o) -> str:
        e = o.expr
        if isinstance(e, ast.AST) and any(isinstance(x, ast.Name) and x.id in buffers for x in ast.walk(e)):
            return "OWN"
        if isinstance(e, ast.Attribute) and e.attr == "insert_segments":
            return "CHILD"
        if isinstance(e, (ast.Tuple, ast.List)) and not e.elts:
            return "NONE"
        if o.kind == "param":
            return "PARAM"
        return "OTHER"

    def result_sites(ret: ast.Return) -> List[Tuple[ast.AST, object]]:
        """(expression, statement it is evaluated at) for the returned expression and, when the
        result is built in a local first (``result = MatchResult(..); return result``), for the
        expressions that local may hold."""
        sites: List[Tuple[ast.AST, object]] = []
        seen: Set[int] = set()

        def add(expr, at) -> None:
            if expr is None or id(expr) in seen:
                return
            seen.add(id(expr))
            sites.append((expr, at))

            def names(node, inside: bool) -> None:
                # local names outside any MatchResult(..) construction: the result itself
                is_mr = isinstance(node, ast.Call) and call_name(node) == "MatchResult"
                if isinstance(node, ast.Name) and isinstance(node.ctx, ast.Load) and not inside:
                    for o in origins(cfg, node, at):
                        if o.kind == "expr" and isinstance(o.expr, ast.AST) and any(
                            isinstance(c, ast.Call) and (call_name(c) == "MatchResult" or last_attr(c) in ("wrap", "append")) for c in ast.walk(o.expr)
                        ):
                            add(o.expr, o.stmt)
                for ch in ast.iter_child_nodes(node):
                    if isinstance(node, ast.Call) and ch is node.func:
                        # receiver of a method call (`result.wrap(..)`) is still the result
                        names(ch, inside)
                    else:
                        names(ch, inside or is_mr or isinstance(node, ast.Call))

            names(expr, False)

        add(ret.value, ret)
        return sites

    def result_calls(expr: ast.AST) -> List[ast.Call]:
        """Outermost ``MatchResult(..)`` constructions of an expression (nested ones are child
        matches and carry their own inserts)."""
        out: List[ast.Call] = []

        def visit(node, inside: bool) -> None:
            is_mr = isinstance(node, ast.Call) and call_name(node) == "MatchResult"
            if is_mr and not inside:
                out.append(node)
            for ch in ast.iter_child_nodes(node):
                visit(ch, inside or is_mr)

        visit(expr, False)
        return out

    def insert_labels(ret: ast.Return) -> List[Tuple[str, object]]:
        labs = []
        for expr, at in result_sites(ret):
            for c in result_calls(expr):
                k = kwarg(c, "insert_segments")
                if k is None and len(c.args) >= 4:
                    k = c.args[3]
                if k is None:
                    continue
                for o in contributions(cfg, k, at):
                    labs.append((label(o), o))
            # inserts added by .wrap(.., insert_segments=..)
            for c in ast.walk(expr):
                if isinstance(c, ast.Call) and last_attr(c) in ("wrap", "append"):
                    k = kwarg(c, "insert_segments")
                    if k is not None:
                        for o in contributions(cfg, k, at):
                            labs.append((label(o), o))
        return labs

    rets = [n for n in walk_local(f) if isinstance(n, ast.Return)]
    in_loop = [r for r in rets if any(p is loop for p in _ancestors(r))]
    after = [r for r in rets if r not in in_loop]
    chk.count("R03b.in_loop_returns", len(in_loop))
    chk.count("R03b.post_loop_returns", len(after))
    # pre-pass: the mode of every own-meta-carrying partial return, so that ordinals (used in finding keys) are
    # positions in source order among ALL such returns of a mode, independent of the order in which they are judged
    chk._r03b_ordinals = {}
    for r in in_loop:
        if r.value is None or (isinstance(r.value, ast.Call) and call_name(r.value).endswith("MatchResult.empty_at")):
            continue
        own_ = [o for lab, o in insert_labels(r) if lab == "OWN"]
        if not own_:
            continue
        blk_ = getattr(r, "_parent", None)
        pend_ = [o for o in own_ if o.stmt is None or o.stmt is r or getattr(o.stmt, "_parent", None) is blk_]
        chk._r03b_ordinals.setdefault("buffer" if pend_ else "flushed", []).append((getattr(r, "lineno", 0), getattr(r, "col_offset", 0)))
    for r in in_loop:
        if r.value is None or (isinstance(r.value, ast.Call) and call_name(r.value).endswith("MatchResult.empty_at")):
            chk.ok("R03b", f"{SEQ}::Sequence.match", short(r, 160))
            continue
        labs = insert_labels(r)
        own = [o for lab, o in labs if lab == "OWN"]
        chk.sample({"rule": "R03b", "return": f"{SEQ}:{r.lineno}", "insert_origins": [f"{lab}:{short(o.expr, 50)}@{getattr(o.stmt, 'lineno', '?')}" for lab, o in labs]})
        if not own:
            chk.ok("R03b", f"{SEQ}::Sequence.match", short(r, 160))
            continue
        # Which of the sequence's own metas does this partial return carry?  An origin in the return's own
        # block adds the *pending* buffer (all metas in front of the failing element); otherwise only what was
        # flushed when the last element matched.  The return is a defect exactly when some bundled grammar
        # makes that prefix unbalanced (decided on the grammar graphs), so the obligation is the pair
        # (engine return, grammars that reach it).
        block = getattr(r, "_parent", None)
        pending = [o for o in own if o.stmt is None or o.stmt is r or getattr(o.stmt, "_parent", None) is block]
        mode = "buffer" if pending else "flushed"
        wrapped = any(isinstance(c, ast.Call) and last_attr(c) == "wrap" for c in ast.walk(r.value))
        n_seq, hazards = _partial_prefix_hazards(g, kinds, mode, include_bracketed=wrapped or forward)
        chk.count(f"R03b.non_strict_sequences_examined.{mode}", n_seq)
        chk.count(f"R03b.unbalanced_prefix_sites.{mode}", len(hazards))
        chk.sample({"rule": "R03b", "return": f"{SEQ}:{r.lineno}", "mode": mode, "wrapped": wrapped, "sequences_examined": n_seq, "hazards": hazards[:8]})
        what = (
            "adds the metas still pending in the buffer, i.e. every own meta in front of the required element that found nothing"
            if mode == "buffer" else
            "keeps the metas flushed when the last element matched, i.e. the own metas in front of a matched element while a later required element fails"
        )
        ex = "; ".join(
            f"{h['dialect']} {h['owner']}: net {h['net']:+d} in front of {h['element']} ({h['parse_mode']}, {h['assignment']})"
            + (f" [also {len(h['also'])} more dialect(s)]" if h["also"] else "")
            for h in hazards[:4]
        )
        chk.require(
            not hazards, "R03b", r,
            f"Sequence.match gives up half-way (greedy parse modes) and the returned match {what} "
            f"({'; '.join(sorted({short(o.expr, 70) + ' @' + str(getattr(o.stmt, 'lineno', '?')) for o in own}))}). "
            f"In {len(hazards)} grammar sequence(s) of the bundled dialects that prefix is unbalanced: {ex}. An Indent whose Dedent sits "
            "behind the element that failed is emitted alone, so the leaf balance of the tree no longer returns to zero",
            detail=f"partial return ({mode}) #{_mode_ordinal(chk, mode, r)} emits no unbalanced prefix of own metas",
            extra={"mode": mode, "hazards": hazards[:40]},
        )
    # the completed return flushes what is left in the buffer
    for r in after:
        labs = insert_labels(r)
        tail = [
            o for lab, o in labs
            if lab == "OWN" and o.kind == "aug" and o.stmt is not None and not any(p is loop for p in _ancestors(o.stmt))
            and cfg.dominates(o.stmt, r)
        ]
        chk.require(
            bool(tail), "R03b", r,
            "the return of a completed Sequence.match does not add the metas still waiting in the buffer (trailing Dedent of the "
            "sequence): every grammar ending in a meta loses it and the balance drifts",
            detail="completed return adds the remaining meta buffer",
        )
        flushed = [o for lab, o in labs if lab == "OWN" and o.stmt is not None and any(p is loop for p in _ancestors(o.stmt))]
        chk.require(
            bool(flushed), "R03b", r,
            "the metas buffered before a matched element are never flushed into the result of a completed Sequence.match",
            detail="completed return carries the metas flushed inside the loop",
        )
    chk.floor("R03b.in_loop_returns", 2)
    chk.floor("R03b.post_loop_returns", 1)


def _r03f(chk, repo) -> None:
    f = repo.fn(SEQ, "Sequence.match")
    from ..cfg import cfg_of as _cfg_of
    from ..idioms import expanded as _expanded

    cfg = _cfg_of(f)
    loops = [n for n in walk_local(f) if isinstance(n, ast.For) and norm(_expanded(cfg, n.iter, n)).endswith("._elements")]
    chk.count("R03f.element_loops", len(loops))
    if len(loops) != 1:
        raise AnalysisError("R03f: Sequence.match no longer has exactly one loop over self._elements; re-confirm the anchor by hand")
    loop = loops[0]

    def is_meta_test(t) -> bool:
        return any(isinstance(c, ast.Call) and call_name(c) in ("isinstance", "issubclass") and len(c.args) == 2 and {"Conditional", "Indent", "MetaSegment"} & {x.id for x in ast.walk(c.args[1]) if isinstance(x, ast.Name)} for c in ast.walk(t))

    arms = []

    def arms_of(st) -> bool:
        """Collect the meta arms of one statement of the loop body (an if / elif chain of meta tests, or a
        test whose whole body is such a statement: a conjunction written as nested ifs)."""
        if not isinstance(st, ast.If):
            return False
        if is_meta_test(st.test):
            cur = st
            while True:
                arms.append((cur, cur.body))
                if len(cur.orelse) == 1 and isinstance(cur.orelse[0], ast.If) and (is_meta_test(cur.orelse[0].test) or (len(cur.orelse[0].body) == 1 and isinstance(cur.orelse[0].body[0], ast.If) and is_meta_test(cur.orelse[0].body[0].test))):
                    cur = cur.orelse[0]
                    if not is_meta_test(cur.test):
                        return arms_of(cur)
                    continue
                chk.require(not cur.orelse, "R03f", cur, "the meta arms of Sequence.match's element loop carry an else branch: elements that are not metas are handled inside the meta test", detail="meta arms: no else")
                return True
        if len(st.body) == 1 and not st.orelse and isinstance(st.body[0], ast.If):
            return arms_of(st.body[0])
        return False

    simple_so_far = True
    for st in loop.body:
        n0 = len(arms)
        if arms_of(st):
            chk.require(
                simple_so_far, "R03f", st,
                "a statement that can leave the iteration precedes the meta arms of Sequence.match's element loop: metas are no longer handled the same whether segments are left or not",
                detail="meta arms come first",
            )
        elif not isinstance(st, (ast.Assign, ast.AnnAssign, ast.Expr)):
            del arms[n0:]
            simple_so_far = False
    chk.count("R03f.meta_arms", len(arms))
    for test_if, body in arms:
        bad = [n for b in body for n in ast.walk(b) if isinstance(n, (ast.If, ast.IfExp, ast.While, ast.Try, ast.Break, ast.Return, ast.Raise, ast.Match)) or (isinstance(n, ast.comprehension) and n.ifs)]
        conts = [n for b in body for n in ast.walk(b) if isinstance(n, ast.Continue)]
        bad += [c for c in conts if c is not body[-1]]
        buffers = [n for b in body for n in ast.walk(b) if (isinstance(n, ast.Call) and isinstance(n.func, ast.Attribute) and n.func.attr in ("append", "extend")) or isinstance(n, ast.AugAssign)]
        chk.require(
            not bad and buffers and isinstance(body[-1], ast.Continue), "R03f", bad[0] if bad else test_if,
            "a meta arm of Sequence.match's element loop is conditional (or does not buffer / continue): a Conditional or Indent element can be skipped in a completed match -- e.g. a trailing "
            "Conditional(Dedent) once the segments have run out -- while its partner was emitted, so the indent sum of the node is not zero",
            detail="meta arm is straight-line: evaluate, buffer, continue", construct=f"{SEQ}::Sequence.match",
        )
    chk.floor("R03f.meta_arms", 2)


def run(chk) -> None:
    repo = chk.repo
    chk.rule("R03a", "for every dialect, segment class and assignment of the indentation keys below the class, the Indent/Dedent metas of a completed match sum to zero (abstract interpretation of the expanded grammar graph); the engine's own bracket inserts are balanced pairs")
    chk.rule("R03b", "Sequence.match returns its own buffered metas only from the completed return after the element loop, never from a partial return inside the loop")
    in_selftest = getattr(chk, "in_selftest", False)
    g = load_grammar(repo, cache=not in_selftest, rebuild=(chk.tier == "thorough" and not in_selftest))
    chk.note(f"grammar front-end: {len(g)} dialects, {g.n_nodes} nodes ({'cache' if g.from_cache else 'rebuilt'}).")
    forward, _ = bracketed_forwards_content(repo)
    r03b(chk, repo, g, Kinds(g), forward)
    chk.rule("R03f", "Sequence.match buffers the meta of every Conditional / Indent element unconditionally: in the element loop the meta arms come before any other test, are straight-line, append to a buffer and end in continue -- whether segments are left or not (R03a's sums assume every enabled meta of a completed match is emitted)")
    _r03f(chk, repo)
    r03a(chk, repo, g)
    r03c(chk, repo)
    chk.rule("R03d", "a node's position is the hull of ALL its children's positions: PositionMarker.from_child_markers builds both slices as slice(min(<child>.X.start ...), max(<child>.X.stop ...)) over every non-empty marker it is given, and BaseSegment.__init__ gives it the marker of every child")
    r03d(chk, repo)
    chk.rule("R03e", "buffered metas are emitted in grammar order: the list Sequence.match turns into (position, meta) inserts is never sorted or reversed -- `Indent, <absent optionals>, Dedent` must come out as indent, dedent (the sum is zero either way, the running balance is not)")
    r03e(chk, repo)


MARKERS = "src/sqlfluff/core/parser/markers.py"
SEGBASE = "src/sqlfluff/core/parser/segments/base.py"


def r03e(chk, repo) -> None:
    import ast as _ast

    from ..index import last_attr, short, walk_local

    SEQ_ = "src/sqlfluff/core/parser/grammar/sequence.py"
    n = 0
    for q, f in repo.mod(SEQ_).functions():
        bufs = set()
        for g in [x for x in _ast.walk(f) if isinstance(x, (_ast.GeneratorExp, _ast.ListComp))]:
            if len(g.generators) == 1 and isinstance(g.elt, _ast.Tuple) and len(g.elt.elts) == 2 and isinstance(g.generators[0].target, _ast.Name) \
                    and isinstance(g.elt.elts[1], _ast.Name) and g.elt.elts[1].id == g.generators[0].target.id:
                it = g.generators[0].iter
                if isinstance(it, _ast.Name):
                    bufs.add(it.id)
                elif isinstance(it, _ast.Call):
                    n += 1
                    chk.fail("R03e", it, f"{q}: the metas are emitted in the order of `{short(it, 40)}`, not the order they were buffered in", detail=f"{q}: metas emitted in buffer order")
        for b in bufs:
            n += 1
            for x in walk_local(f):
                bad = None
                if isinstance(x, _ast.Call) and isinstance(x.func, _ast.Attribute) and x.func.attr in ("sort", "reverse") and isinstance(x.func.value, _ast.Name) and x.func.value.id == b:
                    bad = short(x, 50)
                if isinstance(x, _ast.Assign) and any(isinstance(t, _ast.Name) and t.id == b for t in x.targets) and isinstance(x.value, _ast.Call) \
                        and last_attr(x.value) in ("sorted", "reversed") :
                    bad = short(x, 50)
                if bad:
                    chk.fail(
                        "R03e", x,
                        f"{q}: the buffered metas `{b}` are reordered ({bad}) before they are inserted: a dedent can then precede the indent it closes and the running indentation "
                        "balance over the leaves goes negative",
                        detail=f"{q}: metas emitted in buffer order",
                    )
    chk.count("R03e.meta_insert_sites", n)
    chk.floor("R03e.meta_insert_sites", 1)


def r03d(chk, repo) -> None:
    """Children need not be in rendered order (a zero-length placeholder is lexed before the
    token a tag splits), so first/last is not the hull; min/max over all children is."""
    import ast as _ast

    from ..cfg import cfg_of, origins
    from ..index import call_name, kwarg, last_attr, norm, short, walk_local

    f = repo.fn(MARKERS, "PositionMarker.from_child_markers")
    cfg = cfg_of(f)
    params = [a.arg for a in f.args.args]
    mp = params[1] if len(params) > 1 else None
    if mp is None:
        raise AnalysisError("R03d: from_child_markers has no markers parameter; re-confirm the anchor by hand")

    def over_all_markers(it, at, depth=0) -> bool:
        """``it`` iterates the markers parameter whole, or dropping only empty (None) entries."""
        if isinstance(it, _ast.Name):
            if it.id == mp and all(o.kind == "param" for o in origins(cfg, it, at)):
                return True
            os_ = origins(cfg, it, at)
            return depth < 3 and bool(os_) and all(o.kind == "expr" and not o.path and over_all_markers(o.expr, o.stmt, depth + 1) for o in os_)
        if isinstance(it, (_ast.ListComp, _ast.GeneratorExp)) and len(it.generators) == 1:
            g = it.generators[0]
            if not (isinstance(g.target, _ast.Name) and isinstance(it.elt, _ast.Name) and it.elt.id == g.target.id):
                return False
            v = g.target.id
            if not all(norm(c) in (v, f"{v} is not None") for c in g.ifs):
                return False
            return over_all_markers(g.iter, at, depth + 1)
        if isinstance(it, _ast.Call) and call_name(it) in ("list", "tuple") and len(it.args) == 1:
            return over_all_markers(it.args[0], at, depth + 1)
        return False

    def extreme(e, at, fn: str, field: str, end: str) -> bool:
        """``e`` is ``fn(<m>.<field>.<end> for m in <all markers> [if m])``."""
        if isinstance(e, _ast.Name):
            os_ = origins(cfg, e, at)
            return bool(os_) and all(o.kind == "expr" and not o.path and extreme(o.expr, o.stmt, fn, field, end) for o in os_)
        if not (isinstance(e, _ast.Call) and call_name(e) == fn and len(e.args) == 1 and not e.keywords):
            return False
        g = e.args[0]
        if not (isinstance(g, (_ast.GeneratorExp, _ast.ListComp)) and len(g.generators) == 1 and isinstance(g.generators[0].target, _ast.Name)):
            return False
        v = g.generators[0].target.id
        if norm(g.elt) != f"{v}.{field}.{end}":
            return False
        if not all(norm(c) in (v, f"{v} is not None") for c in g.generators[0].ifs):
            return False
        return over_all_markers(g.generators[0].iter, at)

    rets = [r for r in walk_local(f) if isinstance(r, _ast.Return) and r.value is not None]
    n = 0
    for r in rets:
        vs = [(o.expr, o.stmt) for o in origins(cfg, r.value, r)] if isinstance(r.value, _ast.Name) else [(r.value, r)]
        for v, at in vs:
            if not (isinstance(v, _ast.Call) and (call_name(v) == "cls" or last_attr(v) == "PositionMarker")):
                raise AnalysisError(f"R03d: from_child_markers returns {short(v, 50)}, not a marker construction; re-confirm the anchor by hand")
            for idx, field in ((0, "source_slice"), (1, "templated_slice")):
                a = kwarg(v, field) or (v.args[idx] if len(v.args) > idx else None)
                sl = None
                if a is not None:
                    cands = [(o.expr, o.stmt) for o in origins(cfg, a, at)] if isinstance(a, _ast.Name) else [(a, at)]
                    sl = cands if all(isinstance(c, _ast.Call) and call_name(c) == "slice" and len(c.args) == 2 for c, _ in cands) else None
                n += 1
                ok = bool(sl) and all(extreme(c.args[0], cat, "min", field, "start") and extreme(c.args[1], cat, "max", field, "stop") for c, cat in sl)
                chk.require(
                    ok, "R03d", v,
                    f"from_child_markers does not build the parent's {field} as slice(min(child starts), max(child stops)) over every marker it is given: children are not always "
                    "held in that order (a zero-length template placeholder is lexed before the token its tag splits), so the node no longer spans its children",
                    detail=f"from_child_markers: {field} is the hull of all children",
                )
    chk.count("R03d.parent_slices", n)
    chk.floor("R03d.parent_slices", 2)
    # the one caller hands over the marker of every child
    n_c = 0
    for q, g in repo.mod(SEGBASE).functions():
        for c in [c for c in _ast.walk(g) if isinstance(c, _ast.Call) and last_attr(c) == "from_child_markers"]:
            n_c += 1
            a = c.args[0] if c.args else None
            gcfg = cfg_of(g)
            if isinstance(a, _ast.Name):
                os_ = origins(gcfg, a, gcfg.stmt_of(c))
                a = os_[0].expr if len(os_) == 1 and os_[0].kind == "expr" and not os_[0].path else a
            ok = (
                isinstance(a, (_ast.ListComp, _ast.GeneratorExp)) and len(a.generators) == 1 and not a.generators[0].ifs and isinstance(a.generators[0].target, _ast.Name)
                and norm(a.elt) == f"{a.generators[0].target.id}.pos_marker"
                and isinstance(a.generators[0].iter, _ast.Name) and all(o.kind == "param" for o in origins(gcfg, a.generators[0].iter, gcfg.stmt_of(c)))
            )
            chk.require(ok, "R03d", c, f"{q} derives the node's position from {short(a, 50) if a is not None else 'nothing'}, not from the pos_marker of every child it was given",
                        detail=f"{q}: position derived from every child's marker")
    chk.count("R03d.callers", n_c)
    chk.floor("R03d.callers", 1)


def _mode_ordinal(chk, mode: str, r) -> int:
    """Ordinal (source order) of a partial return among those of the same mode: keys a finding by site without using
    the statement's text, so that a rename does not re-key it and a further return of the same mode gets its own key."""
    if not hasattr(chk, "_r03b_ordinals"):
        chk._r03b_ordinals = {}
    ids_ = chk._r03b_ordinals.setdefault(mode, [])
    ident = (getattr(r, "lineno", 0), getattr(r, "col_offset", 0))
    if ident not in ids_:
        ids_.append(ident)
    return sorted(ids_).index(ident) + 1


def r03c(chk, repo) -> None:
    """The lexer emits template-block Indent/Dedent metas; a block tag that renders text gets a
    Dedent without an Indent ({% call %} of a macro with output), so the lexed stream may sum to a
    non-zero value.  Linter._lex_templated_file keeps those metas only if they balance.  The gate
    must be a complete zero test: a one-sided comparison lets the other sign through and the tree
    ends unbalanced (negative running balance after {% endcall %})."""
    chk.rule("R03c", "the linter keeps the lexer's template-block indents only when their sum is zero: every test of that sum is a complete zero/non-zero test and one of them switches the indents off")
    LINTER_ = "src/sqlfluff/core/linter/linter.py"
    lf = repo.fn(LINTER_, "Linter._lex_templated_file")
    cfg = cfg_of(lf)

    def mentions_indent_val(e) -> bool:
        return any(isinstance(n, ast.Constant) and n.value == "indent_val" for n in ast.walk(e)) or any(
            isinstance(n, ast.Attribute) and n.attr == "indent_val" for n in ast.walk(e)
        )

    def is_balance(e, at, depth=0) -> bool:
        """``sum(<.. indent_val ..>)``, a local holding it, or the same sum spelled as a loop
        (``b = 0`` ... ``b += <.. indent_val ..>``)."""
        if isinstance(e, ast.Call) and call_name(e) == "sum" and e.args:
            return mentions_indent_val(e.args[0])
        if isinstance(e, ast.Name) and depth < 4:
            os_ = origins(cfg, e, at)
            plain = [o for o in os_ if o.kind == "expr" and not o.path]
            augs = [o for o in os_ if o.kind == "aug" and not o.path]
            if not os_ or len(plain) + len(augs) != len(os_):
                return False
            if augs:
                return (
                    all(isinstance(o.expr, ast.Constant) and o.expr.value == 0 and o.expr.value is not False for o in plain)
                    and all(isinstance(o.stmt, ast.AugAssign) and isinstance(o.stmt.op, ast.Add) and mentions_indent_val(o.expr) for o in augs)
                )
            return all(is_balance(o.expr, o.stmt, depth + 1) for o in plain)
        return False

    # every comparison of the balance anywhere in the function (in a test or hoisted into a
    # boolean local), and every truthiness use of it as (a conjunct/disjunct of) a test
    tests = []  # (expr, complete?)
    for e in walk_local(lf):
        if isinstance(e, ast.Compare) and len(e.ops) == 1:
            at = cfg.stmt_of(e) or e
            lb, rb = is_balance(e.left, at), is_balance(e.comparators[0], at)
            if lb or rb:
                other = e.comparators[0] if lb else e.left
                tests.append((e, isinstance(e.ops[0], (ast.Eq, ast.NotEq)) and const(other) == 0 and const(other) is not False))

    def truth_atoms(test, at):
        return [x for x, _ in atoms_at(cfg, test, True, at) + atoms_at(cfg, test, False, at)]

    for n in walk_local(lf):
        if isinstance(n, (ast.If, ast.While, ast.IfExp, ast.Assert)):
            at = cfg.stmt_of(n) or n
            for x in truth_atoms(n.test, at):
                if is_balance(x, at) and not any(x is t for t, _ in tests):
                    tests.append((x, True))
    chk.count("R03c.balance_tests", len(tests))
    if not tests:
        chk.fail("R03c", lf, "Linter._lex_templated_file no longer tests the sum of the lexed indent metas: unbalanced template indents reach the tree",
                 detail="lexed indent balance is tested")
        return
    for e, complete in tests:
        chk.require(
            complete, "R03c", e,
            f"the lexed indent balance is tested one-sidedly (`{short(e, 60)}`): a balance of the other sign passes the gate and the template indents "
            "leave the tree unbalanced (e.g. a {% call %} block of a macro that renders text yields -1)",
            detail="balance gate is a complete zero test",
        )
    # one of the tests switches the template indents off: an `if` whose test is (or, through a boolean
    # local, holds) a balance test assigns a false constant in one of its branches
    switches = []
    for n in walk_local(lf):
        if isinstance(n, ast.If) and any(x is t for x in truth_atoms(n.test, n) for t, _ in tests):
            for st in n.body + n.orelse:
                for a in [st] + list(walk_local(st)):
                    if isinstance(a, ast.Assign) and isinstance(a.value, ast.Constant) and a.value.value is False and all(isinstance(t, ast.Name) for t in a.targets):
                        switches.append(a)
    chk.require(bool(switches), "R03c", lf, "no branch of the balance test switches the template indents off", detail="unbalanced indents are switched off")




# -- self-test variants -------------------------------------------------------------------------

from ..selftest import Variant  # noqa: E402

ANSI = "src/sqlfluff/dialects/dialect_ansi.py"
SPARK = "src/sqlfluff/dialects/dialect_sparksql.py"
TSQL = "src/sqlfluff/dialects/dialect_tsql.py"
PG = "src/sqlfluff/dialects/dialect_postgres.py"

LINTER = "src/sqlfluff/core/linter/linter.py"
_GATE_OLD = (
    "            indent_balance = sum(getattr(elem, \"indent_val\", 0) for elem in segments)\n"
    "            if indent_balance != 0:  # pragma: no cover\n"
)
_TRAIL_OLD = (
    "        # If we get to here, we've matched all of the elements (or skipped them).\n"
    "        insert_segments += tuple((matched_idx, meta) for meta in meta_buffer)\n"
)
_FINAL_OLD = (
    "        return MatchResult(\n            matched_slice=slice(start_idx, matched_idx),\n            insert_segments=insert_segments,\n"
    "            child_matches=child_matches,\n        )\n\n\nclass Bracketed(Sequence):"
)

VARIANTS = [
    Variant(
        "r03f-conditional-skipped-when-out-of-segments", SEQ,
        "                _match = elem.match(segments, matched_idx, parse_context)\n                # Rather than taking them as a match at this location, we\n",
        "                if matched_idx >= max_idx:\n                    continue\n                _match = elem.match(segments, matched_idx, parse_context)\n                # Rather than taking them as a match at this location, we\n",
        "R03f", "Sequence.match", "seeded C03-9",
    ),
    Variant(
        "r03f-raw-indent-skipped-when-out-of-segments", SEQ,
        "                meta_buffer.append(elem)\n                continue\n",
        "                if matched_idx < max_idx:\n                    meta_buffer.append(elem)\n                continue\n",
        "R03f", "Sequence.match", "raw Indent/Dedent dropped at the end of the segments",
    ),
    Variant(
        "quiet-r03f-buffer-extended-in-one-call", SEQ,
        "                for _, submatch in _match.insert_segments:\n                    meta_buffer.append(submatch)\n                continue\n",
        "                meta_buffer.extend(submatch for _, submatch in _match.insert_segments)\n                continue\n",
        "QUIET", None, "R03f: buffer extended with a generator",
    ),
    Variant(
        "buffered-metas-sorted-dedents-first", "src/sqlfluff/core/parser/grammar/sequence.py",
        "        insert_segments += tuple((matched_idx, meta) for meta in meta_buffer)\n\n        # Finally if we're in one of the greedy modes",
        "        meta_buffer.sort(key=lambda m: m.indent_val)\n        insert_segments += tuple((matched_idx, meta) for meta in meta_buffer)\n\n        # Finally if we're in one of the greedy modes",
        "R03e", "Sequence.match", "seeded C03-5: T-SQL `EXEC dbo.my_proc` dips to -1",
    ),
    Variant(
        "parent-rendered-span-from-first-and-last-child", "src/sqlfluff/core/parser/markers.py",
        "            min(m.templated_slice.start for m in markers if m),\n            max(m.templated_slice.stop for m in markers if m),\n",
        "            [m for m in markers if m][0].templated_slice.start,\n            [m for m in markers if m][-1].templated_slice.stop,\n",
        "R03d", "from_child_markers", "seeded C03-4: a tag that renders to nothing inside the first token puts the placeholder first",
    ),
    Variant(
        "parent-source-span-ignores-metas", "src/sqlfluff/core/parser/markers.py",
        "            min(m.source_slice.start for m in markers if m),\n",
        "            min(m.source_slice.start for m in markers if m and m.source_slice.stop > m.source_slice.start),\n",
        "R03d", "from_child_markers", "zero-width children are skipped: a node of placeholders only has no position",
    ),
    Variant(
        "quiet-parent-span-over-a-filtered-local", "src/sqlfluff/core/parser/markers.py",
        "        source_slice = slice(\n            min(m.source_slice.start for m in markers if m),\n            max(m.source_slice.stop for m in markers if m),\n        )\n",
        "        present = [m for m in markers if m is not None]\n        lo = min(m.source_slice.start for m in present)\n        hi = max([m.source_slice.stop for m in present])\n        source_slice = slice(lo, hi)\n",
        "QUIET", None, "R03d: None entries dropped once into a local, bounds through locals, a list comprehension inside max()",
    ),
    # behaviour-preserving refactors: must stay quiet
    Variant(
        "quiet-balance-gate-truthiness", LINTER,
        "            if indent_balance != 0:  # pragma: no cover\n",
        "            if indent_balance:  # pragma: no cover\n",
        "QUIET", None, "non-zero test spelled as truthiness",
    ),
    Variant(
        "quiet-balance-sum-as-loop", LINTER, _GATE_OLD,
        "            indent_balance = 0\n            for elem in segments:\n                indent_balance += getattr(elem, \"indent_val\", 0)\n"
        "            if indent_balance != 0:  # pragma: no cover\n",
        "QUIET", None, "generator sum spelled as an accumulating loop",
    ),
    Variant(
        "quiet-balance-test-in-a-local", LINTER, _GATE_OLD,
        "            indent_balance = sum(getattr(elem, \"indent_val\", 0) for elem in segments)\n"
        "            unbalanced = indent_balance != 0\n            if unbalanced:  # pragma: no cover\n",
        "QUIET", None, "zero test hoisted into a boolean local",
    ),
    Variant(
        "quiet-balance-inlined-reversed", LINTER, _GATE_OLD,
        "            if 0 != sum(getattr(elem, \"indent_val\", 0) for elem in segments):  # pragma: no cover\n",
        "QUIET", None, "balance local inlined into the test, operands swapped",
    ),
    Variant(
        "quiet-balance-eq-zero-else", LINTER,
        "            if indent_balance != 0:  # pragma: no cover\n"
        "                linter_logger.debug(\n"
        "                    \"Indent balance test failed for %r. Template indents will not be \"\n"
        "                    \"linted for this file.\",\n"
        "                    templated_file.fname,\n"
        "                )\n"
        "                # Don't enable the templating blocks.\n"
        "                templating_blocks_indent = False\n",
        "            if indent_balance == 0:\n"
        "                pass\n"
        "            else:\n"
        "                linter_logger.debug(\n"
        "                    \"Indent balance test failed for %r. Template indents will not be \"\n"
        "                    \"linted for this file.\",\n"
        "                    templated_file.fname,\n"
        "                )\n"
        "                templating_blocks_indent = False\n",
        "QUIET", None, "!= 0 spelled as == 0 with the switch in the else branch",
    ),
    Variant(
        "quiet-sequence-elements-through-local", SEQ,
        "        # Iterate elements\n        for elem in self._elements:\n",
        "        # Iterate elements\n        elements = self._elements\n        for elem in elements:\n",
        "QUIET", None, "loop iterable passed through a local",
    ),
    Variant(
        "quiet-sequence-trailing-metas-through-local", SEQ, _TRAIL_OLD,
        "        trailing = tuple((matched_idx, meta) for meta in meta_buffer)\n        insert_segments += trailing\n",
        "QUIET", None, "pending metas held in a local before they are added",
    ),
    Variant(
        "quiet-sequence-trailing-metas-plain-concat", SEQ, _TRAIL_OLD,
        "        insert_segments = insert_segments + tuple((matched_idx, meta) for meta in meta_buffer)\n",
        "QUIET", None, "+= on an immutable tuple spelled as x = x + y",
    ),
    Variant(
        "quiet-sequence-flush-through-local", SEQ,
        "            insert_segments += _flush_metas(matched_idx, _idx, meta_buffer, segments)\n",
        "            flushed = _flush_metas(matched_idx, _idx, meta_buffer, segments)\n            insert_segments += flushed\n",
        "QUIET", None, "flushed metas held in a local before they are added",
    ),
    Variant(
        "quiet-sequence-final-result-through-local", SEQ, _FINAL_OLD,
        "        result = MatchResult(\n            matched_slice=slice(start_idx, matched_idx),\n            insert_segments=insert_segments,\n"
        "            child_matches=child_matches,\n        )\n        return result\n\n\nclass Bracketed(Sequence):",
        "QUIET", None, "completed match built in a local and returned",
    ),
    Variant(
        "quiet-sequence-final-result-positional", SEQ, _FINAL_OLD,
        "        return MatchResult(slice(start_idx, matched_idx), None, {}, insert_segments, child_matches)\n\n\nclass Bracketed(Sequence):",
        "QUIET", None, "keyword arguments spelled positionally (defaults written out)",
    ),
    Variant(
        "quiet-sequence-meta-tests-respelled", SEQ,
        "                for _, submatch in _match.insert_segments:\n                    meta_buffer.append(submatch)\n                continue\n"
        "            # If it's a raw meta, just add it to our list.\n            elif isinstance(elem, type) and issubclass(elem, Indent):\n"
        "                meta_buffer.append(elem)\n                continue\n",
        "                meta_buffer.extend(submatch for _, submatch in _match.insert_segments)\n                continue\n"
        "            # If it's a raw meta, just add it to our list.\n            if isinstance(elem, type):\n                if issubclass(elem, Indent):\n"
        "                    meta_buffer.append(elem)\n                    continue\n",
        "QUIET", None, "append loop as extend, elif after continue as if, conjunction as nested ifs",
    ),
    Variant(
        "quiet-bracketed-insert-pair-through-locals", SEQ,
        "        result = MatchResult(\n            matched_slice=slice(idx, end_match.matched_slice.stop),\n            matched_class=None,\n            segment_kwargs={},\n"
        "            insert_segments=(\n                (start_match.matched_slice.stop, Indent),\n                (end_match.matched_slice.start, Dedent),\n            ),\n",
        "        open_meta = (start_match.matched_slice.stop, Indent)\n        close_meta = (end_match.matched_slice.start, Dedent)\n"
        "        result = MatchResult(\n            matched_slice=slice(idx, end_match.matched_slice.stop),\n            matched_class=None,\n            segment_kwargs={},\n"
        "            insert_segments=(open_meta, close_meta),\n",
        "QUIET", None, "the two inserts of the bracket pair named before they are put in the tuple",
    ),
    # the same refactored spellings with the property broken: must still be reported
    Variant(
        "balance-sum-as-loop-one-sided", LINTER, _GATE_OLD,
        "            indent_balance = 0\n            for elem in segments:\n                indent_balance += getattr(elem, \"indent_val\", 0)\n"
        "            if indent_balance > 0:  # pragma: no cover\n",
        "R03c", "_lex_templated_file", "loop spelling of the sum, one-sided gate",
    ),
    Variant(
        "balance-test-in-a-local-one-sided", LINTER, _GATE_OLD,
        "            indent_balance = sum(getattr(elem, \"indent_val\", 0) for elem in segments)\n"
        "            unbalanced = indent_balance > 0\n            if unbalanced:  # pragma: no cover\n",
        "R03c", "_lex_templated_file", "hoisted test, one-sided",
    ),
    Variant(
        "sequence-trailing-metas-local-never-added", SEQ, _TRAIL_OLD,
        "        trailing = tuple((matched_idx, meta) for meta in meta_buffer)\n",
        "R03b", "completed return adds the remaining meta buffer", "pending metas computed into a local that is never added",
    ),
    Variant(
        "sequence-final-result-local-without-inserts", SEQ, _FINAL_OLD,
        "        result = MatchResult(\n            matched_slice=slice(start_idx, matched_idx),\n"
        "            child_matches=child_matches,\n        )\n        return result\n\n\nclass Bracketed(Sequence):",
        "R03b", "completed return", "completed match built in a local without the inserts",
    ),
    Variant(
        "sequence-unstarted-return-through-local-carries-buffer", SEQ,
        "                    return MatchResult(\n                        matched_slice=slice(start_idx, max_idx),\n                        matched_class=UnparsableSegment,\n                        segment_kwargs={\n                            \"expected\": (\n                                f\"{elem} to start sequence. Found {segments[_idx]}\"\n                            )\n                        },\n                    )\n",
        "                    unstarted = MatchResult(\n                        matched_slice=slice(start_idx, max_idx),\n                        matched_class=UnparsableSegment,\n                        segment_kwargs={\n                            \"expected\": (\n                                f\"{elem} to start sequence. Found {segments[_idx]}\"\n                            )\n                        },\n                        insert_segments=tuple((start_idx, meta) for meta in meta_buffer),\n                    )\n                    return unstarted\n",
        "R03b", "partial return (buffer)", "a partial return built in a local starts to carry the pending metas",
    ),
    Variant(
        "bracketed-insert-pair-through-locals-one-dropped", SEQ,
        "        result = MatchResult(\n            matched_slice=slice(idx, end_match.matched_slice.stop),\n            matched_class=None,\n            segment_kwargs={},\n"
        "            insert_segments=(\n                (start_match.matched_slice.stop, Indent),\n                (end_match.matched_slice.start, Dedent),\n            ),\n",
        "        open_meta = (start_match.matched_slice.stop, Indent)\n"
        "        result = MatchResult(\n            matched_slice=slice(idx, end_match.matched_slice.stop),\n            matched_class=None,\n            segment_kwargs={},\n"
        "            insert_segments=(open_meta,),\n",
        "R03a", "Bracketed.match", "named insert, closing Dedent dropped",
    ),
    Variant(
        "balance-gate-one-sided", LINTER,
        "            if indent_balance != 0:  # pragma: no cover\n",
        "            if indent_balance > 0:  # pragma: no cover\n",
        "R03c", "_lex_templated_file", "seeded C03-2: a stray Dedent from {% endcall %} passes the gate",
    ),
    Variant(
        "ansi-where-dedent-deleted", ANSI,
        "        ImplicitIndent,\n        OptionallyBracketed(Ref(\"ExpressionSegment\")),\n        Dedent,\n    )\n\n\nclass OrderByClauseSegment",
        "        ImplicitIndent,\n        OptionallyBracketed(Ref(\"ExpressionSegment\")),\n    )\n\n\nclass OrderByClauseSegment",
        "R03a", "class=WhereClauseSegment", "a Dedent deleted from a dialect grammar",
    ),
    Variant(
        "ansi-join-conditional-unpaired", ANSI,
        "                Conditional(Dedent, indented_using_on=True),",
        "                Conditional(Dedent, indented_using_on=False),",
        "R03a", "class=JoinClauseSegment", "the closing Conditional is enabled under the opposite setting",
    ),
    Variant(
        "bracketed-emits-only-indent", SEQ,
        "                (start_match.matched_slice.stop, Indent),\n                (end_match.matched_slice.start, Dedent),\n",
        "                (start_match.matched_slice.stop, Indent),\n",
        "R03a", "Bracketed.match",
    ),
    Variant(
        "resolve-bracket-emits-two-indents", MALG,
        "                        (match.matched_slice.start, Dedent),\n",
        "                        (match.matched_slice.start, Indent),\n",
        "R03a", "resolve_bracket",
    ),
    Variant(
        "sequence-trailing-metas-not-added", SEQ,
        "        # If we get to here, we've matched all of the elements (or skipped them).\n        insert_segments += tuple((matched_idx, meta) for meta in meta_buffer)\n",
        "        # If we get to here, we've matched all of the elements (or skipped them).\n",
        "R03b", "completed return adds the remaining meta buffer",
    ),
    Variant(
        "sequence-unstarted-return-carries-buffer", SEQ,
        "                        matched_slice=slice(start_idx, max_idx),\n                        matched_class=UnparsableSegment,\n                        segment_kwargs={\n                            \"expected\": (\n                                f\"{elem} to start sequence.",
        "                        matched_slice=slice(start_idx, max_idx),\n                        matched_class=UnparsableSegment,\n                        insert_segments=tuple((start_idx, meta) for meta in meta_buffer),\n                        segment_kwargs={\n                            \"expected\": (\n                                f\"{elem} to start sequence.",
        "R03b", "partial return (buffer) #", "a third partial return starts to carry the pending metas",
    ),
    Variant(
        "ansi-select-indent-before-modifier", ANSI,
        "        \"SELECT\",\n        Ref(\"SelectClauseModifierSegment\", optional=True),\n        Indent,\n        Delimited(\n            Ref(\"SelectClauseElementSegment\"),\n            allow_trailing=True,\n        ),\n        Dedent,\n",
        "        \"SELECT\",\n        Indent,\n        Ref(\"SelectClauseModifierSegment\", optional=True),\n        Delimited(\n            Ref(\"SelectClauseElementSegment\"),\n            allow_trailing=True,\n        ),\n        Dedent,\n",
        "R03b", "partial return (flushed)",
        "a greedy grammar in which an element matches behind the Indent and a later required one can fail (`SELECT DISTINCT ,`): the "
        "element-failed return, harmless for today's grammars, now emits a lone Indent",
    ),
]
