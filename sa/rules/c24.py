"""C24 — parallel and serial runs agree.

R24a  every place that turns a filename into a LintedFile performs
      render_file(<task filename>, <runner root config>) -> get_rulepack(config=
      rendered.config) -> lint_rendered(rendered, pack, <task fix flag>); the deferred
      task packet is built from (filename, self.config, fix, user rules of the linter).
R24e  worker-linter equivalence: the Linter rebuilt in the worker receives every
      constructor input whose stored attribute is read by the methods the worker
      calls on it (today: config and user_rules; templater re-created from the same
      config; formatter is the reviewed output-only exception).
R24b  result assembly in lint_paths does not depend on arrival order: results are
      filed under the directory registered for *their own* path; records come out
      sorted by file path; the skipped-file counter is read after the stream ended.
R24c  pickling a config removes only the plugin manager and the templater object, on
      copies; unpickling restores a fresh plugin manager.
R24d  exception funnels agree (also serves C22 "user errors exit 2"): every catch-all
      in runner.py hands the caught object to the shared funnel (or wraps it in the
      DelayedException carrier that the main process re-raises into that funnel), and
      the funnel re-raises I/O and user errors instead of logging them.
"""

from __future__ import annotations

import ast
from typing import List, Optional, Set

from ..cfg import cfg_of, origins
from ..counts import root_name
from ..index import AnalysisError, FuncNode, call_name, calls_in, enclosing_class, kwarg, last_attr, norm, short, walk_local

RUNNER = "src/sqlfluff/core/linter/runner.py"
LINTER = "src/sqlfluff/core/linter/linter.py"
COMMON = "src/sqlfluff/core/linter/common.py"
FCONF = "src/sqlfluff/core/config/fluffconfig.py"
LRES = "src/sqlfluff/core/linter/linting_result.py"

# Linter constructor inputs a worker may legitimately not receive: (param, reason)
WORKER_LINTER_EXEMPT = {
    "formatter": "output only: formatters do not pickle; the main process dispatches file violations itself in ParallelRunner.run",
    "dialect": "convenience kwarg, mutually exclusive with config (Linter.__init__ raises if both are given)",
    "rules": "convenience kwarg, mutually exclusive with config",
    "exclude_rules": "convenience kwarg, mutually exclusive with config",
}


def _attr_of_task(e: ast.expr, attr: str) -> Optional[str]:
    if isinstance(e, ast.Attribute) and e.attr == attr and isinstance(e.value, ast.Name):
        return e.value.id
    return None


def run(chk) -> None:
    repo = chk.repo
    chk.rule("R24a", "every render->pack->lint site uses the task's filename, the runner's root config and the task's fix flag; the deferred task packet carries filename, root config, fix and user rules")
    chk.rule("R24e", "the Linter rebuilt in a worker receives every constructor input that the methods called on it read")
    chk.rule("R24b", "lint_paths files each result under the directory registered for the result's own path; records are sorted by path; skip counter read after the stream")
    chk.rule("R24c", "config pickling drops only the plugin manager and the templater object, on copies")
    chk.rule("R24d", "every catch-all in the runners feeds the shared funnel, which re-raises I/O and user errors")
    mod = repo.mod(RUNNER)
    _r24a(chk, repo, mod)
    _r24e(chk, repo, mod)
    _r24b(chk, repo)
    _r24c(chk, repo)
    _r24d(chk, repo, mod)
    _r24f(chk, repo)


# ---------------------------------------------------------------------------
def _r24a(chk, repo, mod) -> None:
    n_sites = 0
    for q, f in mod.functions():
        cfg = cfg_of(f)
        params = [a.arg for a in f.args.args]
        for c in calls_in(f):
            if last_attr(c) != "render_file":
                continue
            n_sites += 1
            st = cfg.stmt_of(c)
            a_f = c.args[0] if c.args else kwarg(c, "fname")
            a_r = c.args[1] if len(c.args) > 1 else kwarg(c, "root_config")
            # filename
            ok_f, ok_r, task = False, False, None
            t = _attr_of_task(a_f, "fname") if a_f is not None else None
            if t is not None:
                task = t
                ok_f = True
            elif isinstance(a_f, ast.Name):
                os_ = origins(cfg, a_f, st)
                ok_f = bool(os_) and all(
                    o.kind == "for" and isinstance(o.expr, ast.Call) and last_attr(o.expr) == "sequence_files"
                    and o.expr.args and isinstance(o.expr.args[0], ast.Name) and o.expr.args[0].id in params
                    for o in os_
                )
            chk.require(ok_f, "R24a", c, "render_file is not given the task's own filename (the loop variable over sequence_files(fnames) or <task>.fname)", detail=f"{q}: render_file filename")
            if a_r is not None:
                if norm(a_r) == "self.config":
                    ok_r = task is None
                elif _attr_of_task(a_r, "root_config") is not None:
                    ok_r = _attr_of_task(a_r, "root_config") == task
            chk.require(ok_r, "R24a", c, "render_file is not given the runner's root config (self.config, or the root_config of the same task)", detail=f"{q}: render_file root config")
            # the lint call that consumes this rendering gets the task's fix flag
            lints = [x for x in calls_in(f) if last_attr(x) == "lint_rendered" and isinstance(x.func, ast.Attribute)]
            for lc in lints:
                a_fix = lc.args[2] if len(lc.args) > 2 else kwarg(lc, "fix")
                good = False
                if task is not None:
                    good = a_fix is not None and _attr_of_task(a_fix, "fix") == task
                else:
                    good = isinstance(a_fix, ast.Name) and a_fix.id in params
                chk.require(good, "R24a", lc, "lint_rendered is not given the fix flag of the same task", detail=f"{q}: lint_rendered fix flag")
            chk.sample({"rule": "R24a", "site": f"{RUNNER}:{c.lineno}", "function": q, "call": short(c, 80)})
        # partial(self.linter.lint_rendered, rendered, rule_pack, fix, ...)
        for c in calls_in(f):
            if last_attr(c) == "partial" and c.args and isinstance(c.args[0], ast.Attribute) and c.args[0].attr == "lint_rendered":
                a_fix = c.args[3] if len(c.args) > 3 else None
                chk.require(isinstance(a_fix, ast.Name) and a_fix.id in params, "R24a", c, "the lint partial does not forward the runner's fix flag", detail=f"{q}: partial fix flag")
                a_rend = c.args[1] if len(c.args) > 1 else None
                st = cfg.stmt_of(c)
                os_ = origins(cfg, a_rend, st) if isinstance(a_rend, ast.Name) else []
                chk.require(
                    bool(os_) and all(o.kind == "for" and isinstance(o.expr, ast.Call) and last_attr(o.expr) == "iter_rendered" for o in os_),
                    "R24a", c, "the lint partial is not built on the rendering produced by iter_rendered for that file", detail=f"{q}: partial rendering",
                )
        # the rule pack of every lint call is built from the per-file config of the rendering it lints
        for c in calls_in(f):
            rend = rp = None
            if last_attr(c) == "lint_rendered" and isinstance(c.func, ast.Attribute):
                rend = c.args[0] if c.args else kwarg(c, "rendered")
                rp = c.args[1] if len(c.args) > 1 else kwarg(c, "rule_pack")
            elif last_attr(c) == "partial" and c.args and isinstance(c.args[0], ast.Attribute) and c.args[0].attr == "lint_rendered":
                rend = c.args[1] if len(c.args) > 1 else kwarg(c, "rendered")
                rp = c.args[2] if len(c.args) > 2 else kwarg(c, "rule_pack")
            else:
                continue
            chk.count("R24a.lint_sites")
            st = cfg.stmt_of(c)
            ok = False
            why = "rule pack or rendering argument missing"
            if isinstance(rend, ast.Name) and rp is not None:
                os_ = origins(cfg, rp, st) if isinstance(rp, ast.Name) else []
                if isinstance(rp, ast.Call):
                    from ..cfg import Origin

                    os_ = [Origin(rp, (), "expr", st)]
                ok = bool(os_)
                for o in os_:
                    if not (o.kind == "expr" and isinstance(o.expr, ast.Call) and last_attr(o.expr) == "get_rulepack" and not o.path):
                        ok, why = False, f"rule pack derives from {o.text()[:60]}, not from get_rulepack(config=<rendering>.config)"
                        break
                    e = kwarg(o.expr, "config") or (o.expr.args[0] if o.expr.args else None)
                    same = (
                        isinstance(e, ast.Attribute) and e.attr == "config" and isinstance(e.value, ast.Name)
                        and e.value.id == rend.id
                        and cfg.reaching().defs_at(o.stmt, rend.id) == cfg.reaching().defs_at(st, rend.id)
                    )
                    if not same:
                        ok = False
                        why = (
                            f"rule pack is built from {norm(e) if e is not None else 'no config'!r}, not from the per-file config of the "
                            f"rendering that is linted ({rend.id}.config): this site selects and configures rules differently from its siblings"
                        )
                        break
            chk.require(ok, "R24a", c, why, detail=f"{q}: rule pack from the rendering's own config")
        # the deferred packet
        for c in calls_in(f):
            if last_attr(c) == "DeferredRenderTask":
                st = cfg.stmt_of(c)
                a = list(c.args) + [None] * 4
                os_ = origins(cfg, a[0], st) if isinstance(a[0], ast.Name) else []
                ok0 = bool(os_) and all(o.kind == "for" and isinstance(o.expr, ast.Call) and last_attr(o.expr) == "sequence_files" for o in os_)
                ok1 = a[1] is not None and norm(a[1]) == "self.config"
                ok2 = isinstance(a[2], ast.Name) and a[2].id in params
                ok3 = a[3] is not None and "self.linter.user_rules" in norm(a[3])
                chk.require(ok0 and ok1 and ok2, "R24a", c, "deferred task packet is not (filename of this iteration, self.config, fix)", detail=f"{q}: deferred packet fields")
                chk.require(ok3, "R24a", c, "deferred task packet does not carry the linter's user rules: a worker would lint with a different rule set than a sequential run",
                            detail=f"{q}: deferred packet user rules")
                chk.count("R24a.deferred_packets")
        # both generators sequence files with the runner's root config
        for c in calls_in(f):
            if last_attr(c) == "sequence_files":
                e = kwarg(c, "config")
                chk.require(e is not None and norm(e) == "self.config", "R24a", c, "sequence_files is not given the runner's root config", detail=f"{q}: sequence_files config")
    chk.count("R24a.render_sites", n_sites)
    chk.floor("R24a.render_sites", 3)
    chk.floor("R24a.lint_sites", 3)
    chk.floor("R24a.deferred_packets", 1)


# ---------------------------------------------------------------------------
def _self_attr_reads(repo, cls: ast.ClassDef, method: str, seen: Set[str]) -> Set[str]:
    """self.<attr> reads of a method, following self.<method>() calls."""
    out: Set[str] = set()
    if method in seen:
        return out
    seen.add(method)
    fn = next((i for i in cls.body if isinstance(i, FuncNode) and i.name == method), None)
    if fn is None:
        return out
    first = fn.args.args[0].arg if fn.args.args else None
    if first not in ("self",):
        return out
    methods = {i.name for i in cls.body if isinstance(i, FuncNode)}
    for n in ast.walk(fn):
        if isinstance(n, ast.Attribute) and isinstance(n.value, ast.Name) and n.value.id == "self" and isinstance(n.ctx, ast.Load):
            if n.attr in methods:
                out |= _self_attr_reads(repo, cls, n.attr, seen)
            else:
                out.add(n.attr)
    return out


def _r24e(chk, repo, mod) -> None:
    lcls = repo.cls(LINTER, "Linter")
    init = repo.fn(LINTER, "Linter.__init__")
    icfg = cfg_of(init)
    # attribute -> constructor params it is computed from
    attr_from: dict = {}
    iparams = [a.arg for a in init.args.args][1:]
    for n in walk_local(init):
        if isinstance(n, ast.Assign) and isinstance(n.targets[0], ast.Attribute) and isinstance(n.targets[0].value, ast.Name) and n.targets[0].value.id == "self":
            names = {x.id for x in ast.walk(n.value) if isinstance(x, ast.Name)} & set(iparams)
            attr_from[n.targets[0].attr] = names
    n_workers = 0
    for q, f in mod.functions():
        cfg = cfg_of(f)
        for c in calls_in(f):
            if not (isinstance(c.func, ast.Name) and c.func.id == "Linter"):
                continue
            n_workers += 1
            st = cfg.stmt_of(c)
            var = None
            if isinstance(st, ast.Assign) and isinstance(st.targets[0], ast.Name):
                var = st.targets[0].id
            passed = {k.arg for k in c.keywords if k.arg} | set(iparams[: len(c.args)])
            called = {last_attr(x) for x in calls_in(f) if isinstance(x.func, ast.Attribute) and isinstance(x.func.value, ast.Name) and x.func.value.id == var}
            reads: Set[str] = set()
            for m in called:
                reads |= _self_attr_reads(repo, lcls, m, set())
            assigned_after = {
                n.targets[0].attr for n in walk_local(f)
                if isinstance(n, ast.Assign) and isinstance(n.targets[0], ast.Attribute) and isinstance(n.targets[0].value, ast.Name) and n.targets[0].value.id == var
            }
            needed = set()
            for attr in reads:
                for p in attr_from.get(attr, ()):  # constructor inputs behind attributes the worker reads
                    if attr not in assigned_after:
                        needed.add(p)
            missing = sorted(p for p in needed if p not in passed and p not in WORKER_LINTER_EXEMPT)
            chk.require(
                not missing, "R24e", c,
                f"the Linter rebuilt in the worker is not given {missing}, although the methods it runs ({sorted(called)}) read the attributes derived from them; "
                f"the main-process path uses the caller's Linter, so results differ with the number of processes",
                detail=f"{q}: worker Linter inputs",
            )
            # the values passed must come from the task packet
            for k in c.keywords:
                if k.arg in needed:
                    roots = {root_name(x) for x in ast.walk(k.value) if isinstance(x, ast.Attribute)}
                    os_ok = any(r is not None for r in roots)
                    chk.require(os_ok, "R24e", c, f"worker Linter input {k.arg} does not come from the task packet", detail=f"{q}: worker Linter {k.arg} from task")
            chk.sample({"rule": "R24e", "site": f"{RUNNER}:{c.lineno}", "methods_called": sorted(called), "attributes_read": sorted(reads), "inputs_needed": sorted(needed), "passed": sorted(passed)})
            # templater is re-created from the same config
            if "templater" in reads:
                ok = False
                for n in walk_local(f):
                    if isinstance(n, ast.Assign) and isinstance(n.targets[0], ast.Attribute) and n.targets[0].attr == "templater" and root_name(n.targets[0]) == var:
                        v = n.value
                        cfg_arg = kwarg(c, "config")
                        if isinstance(v, ast.Call) and last_attr(v) == "get_templater" and cfg_arg is not None and norm(v.func.value) == norm(cfg_arg):
                            ok = True
                chk.require(ok, "R24e", c, "worker does not re-create the templater from the config it was given (the pickled config carries no templater object)", detail=f"{q}: worker templater re-created")
    chk.count("R24e.worker_linters", n_workers)
    chk.floor("R24e.worker_linters", 1)


# ---------------------------------------------------------------------------
def _r24b(chk, repo) -> None:
    f = repo.fn(LINTER, "Linter.lint_paths")
    cfg = cfg_of(f)
    loop = None
    for n in walk_local(f):
        if isinstance(n, ast.For) and isinstance(n.iter, ast.Call) and call_name(n.iter) == "enumerate" and n.iter.args:
            o = origins(cfg, n.iter.args[0], n) if isinstance(n.iter.args[0], ast.Name) else []
            if any(isinstance(x.expr, ast.Call) and last_attr(x.expr) == "run" for x in o):
                loop = n
        if isinstance(n, ast.For) and isinstance(n.iter, ast.Name):
            o = origins(cfg, n.iter, n)
            if any(isinstance(x.expr, ast.Call) and last_attr(x.expr) == "run" for x in o):
                loop = n
    if loop is None:
        raise AnalysisError("R24b: loop over runner.run(...) not found in Linter.lint_paths")
    tvars = [x.id for x in ast.walk(loop.target) if isinstance(x, ast.Name)]
    adds = [c for c in calls_in(loop) if last_attr(c) == "add" and c.args and isinstance(c.args[0], ast.Name) and c.args[0].id in tvars]
    chk.require(len(adds) == 1, "R24b", loop, "each runner result must be added to exactly one LintedDir", detail="one add per result")
    for c in adds:
        st = cfg.stmt_of(c)
        recv = c.func.value
        ok = False
        os_ = origins(cfg, recv, st) if isinstance(recv, ast.Name) else []
        for o in os_:
            e = o.expr
            if isinstance(e, ast.Subscript) and isinstance(e.slice, ast.Attribute) and e.slice.attr == "path" and isinstance(e.slice.value, ast.Name) and e.slice.value.id == c.args[0].id:
                ok = len(os_) == 1
        chk.require(ok, "R24b", c, "a result is filed under a directory that is not looked up by the result's own path (arrival order would matter)", detail="result filed by own path")
    # the lookup table is filled per discovered file
    fills = [n for n in walk_local(f) if isinstance(n, ast.Assign) and isinstance(n.targets[0], ast.Subscript) and isinstance(n.targets[0].slice, ast.Name)]
    ok = False
    for n in fills:
        o = origins(cfg, n.targets[0].slice, n)
        if o and all(x.kind == "for" and isinstance(x.expr, ast.Call) and last_attr(x.expr) == "paths_from_path" for x in o):
            ok = True
    chk.require(ok, "R24b", f, "the path -> LintedDir table is not filled for every file yielded by paths_from_path", detail="lookup table filled per file")
    # skip counter read after the loop
    sk = [n for n in walk_local(f) if isinstance(n, ast.Assign) and isinstance(n.targets[0], ast.Attribute) and n.targets[0].attr == "files_skipped"]
    chk.require(bool(sk) and all(not _inside(n, loop) and n.lineno > loop.lineno for n in sk), "R24b", f, "files_skipped must be transferred from the runner after the result stream ended", detail="skip counter after stream")
    ar = repo.fn(LRES, "LintingResult.as_records")
    rets = [r for r in walk_local(ar) if isinstance(r, ast.Return)]
    ok = all(isinstance(r.value, ast.Call) and call_name(r.value) == "sorted" and kwarg(r.value, "key") is not None and "filepath" in norm(kwarg(r.value, "key")) for r in rets) and bool(rets)
    chk.require(ok, "R24b", ar, "LintingResult.as_records does not return the records sorted by file path", detail="records sorted by path")


def _inside(n, container) -> bool:
    p = n
    while p is not None:
        if p is container:
            return True
        p = getattr(p, "_parent", None)
    return False


# ---------------------------------------------------------------------------
def _r24c(chk, repo) -> None:
    g = repo.fn(FCONF, "FluffConfig.__getstate__")
    dels = [n for n in walk_local(g) if isinstance(n, ast.Delete)]
    deleted = [norm(t) for n in dels for t in n.targets]
    chk.require(deleted == ["state['_plugin_manager']"], "R24c", g, f"__getstate__ must delete exactly the plugin manager from the state copy, deletes {deleted}", detail="getstate deletes plugin manager only")
    stores = [n for n in walk_local(g) if isinstance(n, ast.Assign) and isinstance(n.targets[0], ast.Subscript)]
    nulls = [n for n in stores if isinstance(n.value, ast.Constant) and n.value.value is None]
    chk.require([norm(n.targets[0]) for n in nulls] == ["state['_configs']['core']['templater_obj']"], "R24c", g,
                f"__getstate__ must null exactly core.templater_obj, nulls {[norm(n.targets[0]) for n in nulls]}", detail="getstate nulls templater_obj only")
    other = [n for n in stores if n not in nulls]
    copies_ok = all(isinstance(n.value, ast.Call) and last_attr(n.value) in ("copy", "deepcopy") and norm(n.value.func.value) == norm(n.targets[0]) for n in other)
    copied = {norm(n.targets[0]) for n in other}
    chk.require(copies_ok and {"state['_configs']", "state['_configs']['core']"} <= copied, "R24c", g,
                "__getstate__ edits nested dicts without copying them first (the live config of the main process would lose its templater)", detail="getstate copies before editing")
    st0 = [n for n in walk_local(g) if isinstance(n, ast.Assign) and isinstance(n.targets[0], ast.Name) and isinstance(n.value, ast.Call) and norm(n.value) == "self.__dict__.copy()"]
    chk.require(len(st0) == 1, "R24c", g, "__getstate__ must start from a copy of self.__dict__", detail="getstate starts from dict copy")
    # no in-place edit of self
    selfstores = [n for n in ast.walk(g) if isinstance(n, (ast.Attribute, ast.Subscript)) and isinstance(n.ctx, (ast.Store, ast.Del)) and root_name(n) == "self"]
    chk.require(not selfstores, "R24c", g, "__getstate__ modifies self", detail="getstate leaves self alone")
    s = repo.fn(FCONF, "FluffConfig.__setstate__")
    upd = any(norm(c) == "self.__dict__.update(state)" for c in calls_in(s))
    pm = any(isinstance(n, ast.Assign) and norm(n.targets[0]) == "self._plugin_manager" and isinstance(n.value, ast.Call) and last_attr(n.value) == "get_plugin_manager" for n in walk_local(s))
    chk.require(upd and pm, "R24c", s, "__setstate__ must restore the state and fetch a fresh plugin manager", detail="setstate restores + fresh plugin manager")


# ---------------------------------------------------------------------------
def _r24d(chk, repo, mod) -> None:
    funnel = repo.fn(RUNNER, "BaseRunner._handle_lint_path_exception")
    fcfg = cfg_of(funnel)
    params = [a.arg for a in funnel.args.args]
    # (1) the funnel re-raises I/O and user errors
    reraised: Set[str] = set()
    for r in [n for n in walk_local(funnel) if isinstance(n, ast.Raise)]:
        for e, pol in fcfg.conditions(r):
            if pol and isinstance(e, ast.Call) and call_name(e) == "isinstance" and len(e.args) == 2:
                t = e.args[1]
                names = [norm(x) for x in (t.elts if isinstance(t, ast.Tuple) else [t])]
                raised = r.exc
                if raised is not None and root_name(raised) in params:
                    reraised |= set(names)
    for need, why in (("IOError", "I/O errors are reported by the CLI"), ("SQLFluffUserError", "user/config errors must reach the CLI handler and exit 2, whatever the number of processes")):
        ok = need in reraised or (need == "IOError" and "OSError" in reraised)
        chk.require(ok, "R24d", funnel, f"the runners' exception funnel logs {need} instead of re-raising it: {why}", detail=f"funnel re-raises {need}")
    # (2) every catch-all in runner.py feeds the funnel or the carrier
    n_catch = 0
    for q, f in mod.functions():
        for h in [n for n in walk_local(f) if isinstance(n, ast.ExceptHandler)]:
            tnames = [] if h.type is None else [norm(x) for x in (h.type.elts if isinstance(h.type, ast.Tuple) else [h.type])]
            if h.type is not None and not any(t in ("Exception", "BaseException") for t in tnames):
                continue
            n_catch += 1
            ok = False
            for s in h.body:  # top-level statements of the handler only
                for c in ([s.value] if isinstance(s, (ast.Expr, ast.Return)) and isinstance(s.value, ast.Call) else []):
                    if last_attr(c) == "_handle_lint_path_exception" and len(c.args) >= 2 and isinstance(c.args[1], ast.Name) and c.args[1].id == h.name:
                        ok = True
                    if last_attr(c) == "DelayedException" and c.args and isinstance(c.args[0], ast.Name) and c.args[0].id == h.name and isinstance(s, ast.Return):
                        ok = True
                if isinstance(s, ast.Raise) and s.exc is None:
                    ok = True
            chk.require(ok, "R24d", h, "a catch-all in the runners neither hands the caught exception to the shared funnel nor returns it in the DelayedException carrier: "
                        "user errors raised while linting a file would be swallowed here", detail=f"{q}: catch-all feeds funnel")
    chk.count("R24d.catch_alls", n_catch)
    chk.floor("R24d.catch_alls", 3)
    # (3) the carrier is re-raised into the funnel in the main process
    run = repo.fn(RUNNER, "ParallelRunner.run")
    ok = False
    for t in [n for n in walk_local(run) if isinstance(n, ast.Try)]:
        if any(isinstance(c, ast.Call) and last_attr(c) == "reraise" for s in t.body for c in ast.walk(s)):
            for h in t.handlers:
                for s in h.body:
                    if isinstance(s, ast.Expr) and isinstance(s.value, ast.Call) and last_attr(s.value) == "_handle_lint_path_exception" and len(s.value.args) >= 2 \
                            and isinstance(s.value.args[1], ast.Name) and s.value.args[1].id == h.name:
                        ok = True
    chk.require(ok, "R24d", run, "a DelayedException from a worker is not re-raised into the shared funnel in the main process", detail="carrier re-raised into funnel")
    rr = repo.fn(RUNNER, "DelayedException.reraise")
    ok = any(isinstance(n, ast.Raise) and n.exc is not None and "self.ee" in norm(n.exc) for n in walk_local(rr))
    chk.require(ok, "R24d", rr, "DelayedException.reraise does not raise the carried exception", detail="carrier raises carried exception")


def _self_attr(t):
    return t.attr if isinstance(t, ast.Attribute) and isinstance(t.value, ast.Name) and t.value.id == "self" else None


def _derived_only_param(init, p, const, args, params) -> bool:
    """May __reduce__ pass the literal `const` for constructor parameter `p`?

    Yes exactly when doing so rebuilds the same object state: `const` is p's
    (falsy) default, p is consumed only by `if p: <derive attrs from p> else:
    <attrs from other parameters>` statements of __init__, and every attribute
    the true-branch derives from p is assigned in the else-branch directly from
    a parameter q whose position in the __reduce__ tuple carries that very
    attribute.  (SQLBaseError: pos -> line_no/line_pos, which are pickled.)"""
    pos = init.args.args[1:]
    defaults = dict(zip([a.arg for a in pos[len(pos) - len(init.args.defaults):]], init.args.defaults))
    defaults.update({a.arg: d for a, d in zip(init.args.kwonlyargs, init.args.kw_defaults) if d is not None})
    d = defaults.get(p)
    if not (isinstance(d, ast.Constant) and d.value == const.value and type(d.value) is type(const.value) and not const.value):
        return False
    guards = [s for s in ast.walk(init) if isinstance(s, ast.If) and isinstance(s.test, ast.Name) and s.test.id == p]
    covered = {id(s.test) for s in guards}
    for g in guards:
        for st in g.body:
            covered.update(id(x) for x in ast.walk(st))
    uses = [x for x in ast.walk(init) if isinstance(x, ast.Name) and x.id == p]
    if not guards or any(id(x) not in covered for x in uses):
        return False
    carried = {q: _self_attr(a) for a, q in zip(args, params)}
    for g in guards:
        derived = set()
        for st in g.body:
            for x in ast.walk(st):
                if isinstance(x, (ast.Assign, ast.AugAssign, ast.AnnAssign)):
                    tgts = x.targets if isinstance(x, ast.Assign) else [x.target]
                    for t in tgts:
                        for e in (t.elts if isinstance(t, (ast.Tuple, ast.List)) else [t]):
                            if _self_attr(e):
                                derived.add(_self_attr(e))
                elif isinstance(x, ast.Call):
                    r = x.func
                    while isinstance(r, ast.Attribute):
                        r = r.value
                    if not (isinstance(x.func, ast.Attribute) and isinstance(r, ast.Name) and r.id == p):
                        return False  # only methods of p itself: any other call may set state the else-branch does not replay
        restored = {}
        for st in g.orelse:
            if isinstance(st, ast.Assign) and len(st.targets) == 1 and _self_attr(st.targets[0]) and isinstance(st.value, ast.Name):
                restored[_self_attr(st.targets[0])] = st.value.id
        for attr in derived:
            q = restored.get(attr)
            if q is None or carried.get(q) != attr:
                return False
    return True


def _r24f(chk, repo) -> None:
    """Results travel back from workers by pickling: every error class with a
    custom __reduce__ must hand *all* constructor inputs back to its constructor,
    in order (otherwise e.g. the ignore/warning flags set in the worker are lost
    in the parent, and exit codes differ with the number of processes)."""
    chk.rule("R24f", "every error class with a custom __reduce__ round-trips all constructor parameters, in order (worker results are pickled back to the parent)")
    ERR = "src/sqlfluff/core/errors.py"
    m = repo.mod(ERR)
    n = 0
    for q, c in m.classes():
        red = next((i for i in c.body if isinstance(i, FuncNode) and i.name == "__reduce__"), None)
        if red is None:
            continue
        n += 1
        init = repo.lookup_method(m, c, "__init__")
        params = [a.arg for a in init[1].args.args[1:]] + [a.arg for a in init[1].args.kwonlyargs] if init else []
        # attribute <- parameter map from __init__ bodies along the MRO
        attr_of = {}
        for mm, cc in repo.mro(m, c):
            for item in cc.body:
                if isinstance(item, FuncNode) and item.name == "__init__":
                    for st in ast.walk(item):
                        if isinstance(st, ast.Assign) and isinstance(st.targets[0], ast.Attribute) and isinstance(st.targets[0].value, ast.Name) and st.targets[0].value.id == "self":
                            names = [x.id for x in ast.walk(st.value) if isinstance(x, ast.Name)]
                            for nm in names:
                                attr_of.setdefault(st.targets[0].attr, set()).add(nm)
        rets = [r for r in walk_local(red) if isinstance(r, ast.Return)]
        ok, why = True, ""
        for r in rets:
            v = r.value
            if not (isinstance(v, ast.Tuple) and len(v.elts) == 2 and isinstance(v.elts[1], ast.Tuple)):
                ok, why = False, "__reduce__ does not return (type(self), (args...))"
                break
            args = v.elts[1].elts
            if len(args) != len(params):
                ok, why = False, f"__reduce__ passes {len(args)} values but __init__ takes {len(params)} parameters {params}: the missing ones are reset to their defaults when a result comes back from a worker"
                break
            for a, p in zip(args, params):
                good = isinstance(a, ast.Attribute) and isinstance(a.value, ast.Name) and a.value.id == "self" and (a.attr == p or p in attr_of.get(a.attr, ()))
                if not good and isinstance(a, ast.Constant):
                    good = _derived_only_param(init[1], p, a, args, params)
                if not good:
                    ok, why = False, f"__reduce__ passes {norm(a)} in the position of constructor parameter '{p}'"
                    break
        chk.require(ok and bool(rets), "R24f", red, f"{c.name}: {why or 'no return in __reduce__'}", detail=f"{c.name}.__reduce__ round-trips constructor inputs")
        chk.sample({"rule": "R24f", "class": c.name, "params": params})
    chk.count("R24f.reduce_methods", n)
    chk.floor("R24f.reduce_methods", 3)


from ..selftest import Variant  # noqa: E402

VARIANTS = [
    Variant("worker-rule-pack-from-root-config", RUNNER,
            "                rule_pack = linter.get_rulepack(config=rendered.config)\n",
            "                rule_pack = linter.get_rulepack(config=task.root_config)\n", "R24a", "_apply", "seeded C24-2"),
    Variant("serial-rule-pack-from-root-config", RUNNER,
            "            rule_pack = self.linter.get_rulepack(config=rendered.config)\n            yield (\n",
            "            rule_pack = self.linter.get_rulepack(config=self.config)\n            yield (\n", "R24a", "iter_partials"),
    Variant("quiet-worker-rule-pack-through-locals", RUNNER,
            "                rule_pack = linter.get_rulepack(config=rendered.config)\n                return Linter.lint_rendered(rendered, rule_pack, task.fix, None)\n",
            "                pack_for_file = linter.get_rulepack(config=rendered.config)\n                rule_pack = pack_for_file\n                return Linter.lint_rendered(rendered, rule_pack, task.fix, None)\n",
            "QUIET", None, "rule pack passed through a second local"),
    Variant("base-error-pickle-loses-stored-pos", "src/sqlfluff/core/errors.py",
            "        self.description = description\n        if pos:",
            "        self.description = description\n        self.pos = pos\n        if pos:", "R24f", "SQLBaseError",
            "None for pos is only a round trip while pos is consumed by the guarded derivation alone"),
    Variant("base-error-pickle-else-drops-line-pos", "src/sqlfluff/core/errors.py",
            "            self.line_no = line_no\n            self.line_pos = line_pos\n",
            "            self.line_no = line_no\n            self.line_pos = 0\n", "R24f", "SQLBaseError",
            "line_pos derived from pos in the worker is reset when the pickled error is rebuilt with pos=None"),
    Variant("base-error-pickle-swaps-line-fields", "src/sqlfluff/core/errors.py",
            "            None,\n            self.line_no,\n            self.line_pos,",
            "            None,\n            self.line_pos,\n            self.line_no,", "R24f", "SQLBaseError"),
    Variant("base-error-pickle-nondefault-pos", "src/sqlfluff/core/errors.py",
            "            self.description,\n            None,\n            self.line_no,",
            "            self.description,\n            0,\n            self.line_no,", "R24f", "SQLBaseError",
            "only the parameter's own default selects the replaying branch by construction"),
    Variant("lint-error-pickle-drops-warning", "src/sqlfluff/core/errors.py",
            "            self.fixes,\n            self.ignore,\n            self.fatal,\n            self.warning,\n        )",
            "            self.fixes,\n            self.ignore,\n            self.fatal,\n        )", "R24f", "SQLLintError", "seeded C22-1"),
    Variant("parse-error-pickle-swaps-flags", "src/sqlfluff/core/errors.py",
            "            self.segment,\n            self.line_no,\n            self.line_pos,\n            self.ignore,\n            self.fatal,\n            self.warning,",
            "            self.segment,\n            self.line_no,\n            self.line_pos,\n            self.fatal,\n            self.ignore,\n            self.warning,", "R24f", "SQLParseError"),
    Variant("worker-renders-with-default-config", RUNNER,
            "                rendered = linter.render_file(task.fname, task.root_config)",
            "                rendered = linter.render_file(task.fname, linter.config.copy())", "R24a", "_apply"),
    Variant("worker-ignores-fix-flag", RUNNER,
            "                return Linter.lint_rendered(rendered, rule_pack, task.fix, None)",
            "                return Linter.lint_rendered(rendered, rule_pack, False, None)", "R24a", "_apply"),
    Variant("deferred-packet-without-user-rules", RUNNER,
            "                    DeferredRenderTask(\n                        fname, self.config, fix, tuple(self.linter.user_rules)\n                    ),",
            "                    DeferredRenderTask(fname, self.config, fix),", "R24a", "iter_partials", "the original defect"),
    Variant("worker-linter-without-user-rules", RUNNER,
            "                linter = Linter(\n                    config=task.root_config, user_rules=list(task.user_rules)\n                )",
            "                linter = Linter(config=task.root_config)", "R24e", "_apply", "the original defect"),
    Variant("worker-templater-not-recreated", RUNNER,
            "                linter.templater = task.root_config.get_templater()\n", "", "R24e", "_apply"),
    Variant("deferred-packet-linter-config", RUNNER,
            "                        fname, self.config, fix, tuple(self.linter.user_rules)",
            "                        fname, self.linter.config, fix, tuple(self.linter.user_rules)", "R24a", "iter_partials"),
    Variant("result-filed-under-last-dir", LINTER,
            "                linted_dir = expanded_path_to_linted_dir[linted_file.path]\n", "", "R24b", "lint_paths"),
    Variant("result-filed-by-arrival-index", LINTER,
            "                linted_dir = expanded_path_to_linted_dir[linted_file.path]\n",
            "                linted_dir = expanded_path_to_linted_dir[expanded_paths[i - 1]]\n", "R24b", "lint_paths"),
    Variant("records-unsorted", LRES,
            "        return sorted(\n            (record for linted_dir in self.paths for record in linted_dir.as_records()),\n            # Sort records by filename\n            key=lambda record: record[\"filepath\"],\n        )",
            "        return [record for linted_dir in self.paths for record in linted_dir.as_records()]", "R24b", "as_records"),
    Variant("getstate-edits-live-config", FCONF,
            "        state[\"_configs\"] = state[\"_configs\"].copy()\n        state[\"_configs\"][\"core\"] = state[\"_configs\"][\"core\"].copy()\n", "", "R24c", "__getstate__"),
    Variant("getstate-drops-overrides", FCONF,
            "        del state[\"_plugin_manager\"]\n",
            "        del state[\"_plugin_manager\"]\n        del state[\"_overrides\"]\n", "R24c", "__getstate__"),
    Variant("funnel-swallows-user-errors", RUNNER,
            "        if isinstance(e, (IOError, SQLFluffUserError)):",
            "        if isinstance(e, IOError):", "R24d", "_handle_lint_path_exception", "the original defect F15"),
    Variant("parallel-funnel-logs-only", RUNNER,
            "                        except Exception as e:\n                            self._handle_lint_path_exception(lint_result.fname, e)",
            "                        except Exception as e:\n                            linter_logger.warning(str(e))", "R24d", "run"),
    Variant("worker-swallows-exception", RUNNER,
            "        except Exception as e:\n            return DelayedException(e, fname=fname)",
            "        except Exception as e:\n            return DelayedException(RuntimeError(str(e)), fname=fname)", "R24d", "_apply"),
]
