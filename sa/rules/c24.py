"""C24 — parallel and serial runs agree.

R24a  every place that turns a filename into a LintedFile performs
      render_file(<task filename>, <runner root config>) -> get_rulepack(config=
      rendered.config) -> lint_rendered(rendered, pack, <task fix flag>); the deferred
      task packet is built from (filename, self.config, fix, user rules of the linter).
R24e  worker-linter equivalence: the Linter rebuilt in the worker receives every
      constructor input whose stored attribute is read by the methods the worker
      calls on it (today: config and user_rules; templater re-created from the same
      config; formatter is the reviewed output-only exception).
R24b  result assembly in lint_paths does not depend on arrival order: results are
      filed under the directory registered for *their own* path; records come out
      sorted by file path; the skipped-file counter is read after the stream ended.
R24c  pickling a config removes only the plugin manager and the templater object, on
      copies; unpickling restores a fresh plugin manager.
R24d  exception funnels agree (also serves C22 "user errors exit 2"): every catch-all
      in runner.py hands the caught object to the shared funnel (or wraps it in the
      DelayedException carrier that the main process re-raises into that funnel), and
      the funnel re-raises I/O and user errors instead of logging them.
R24f  every error class with its own __reduce__ hands every constructor parameter back
      in its position (worker results return to the parent by pickling).

Accepted spellings (all decided on resolved facts: origins() of the value, identity of
the object a local holds, reachability) - none of them is a different program:
  * any value may be read into a local (or several, or an annotated local) before use;
    an iterable may be bound to a local before the loop that walks it; a call result may
    be bound to a local before it is returned / yielded / raised;
  * arguments may be positional or keyword (positions come from the callee's signature:
    DeferredRenderTask fields, Linter.__init__, sequence_files, the funnel, the carrier);
  * "fields of the same task" means attributes of one and the same object, under any
    number of local names (task = partial), unpacked from the parameter or indexed;
  * R24c follows __getstate__ as straight-line code over abstract dicts (live object /
    copy of it / None): d.copy(), dict(d), copy(d), deepcopy(d); edits made through locals
    and stored back; del d[k] and d.pop(k);
  * R24d reads the re-raise test of the funnel as a set of classes: isinstance with a
    tuple, a disjunction of isinstance tests, if/elif chains, the test held in a boolean
    local, the inverted test with the logging branch first.  A re-raise that also depends
    on anything but the class of the exception does not count;
  * R24f: `if p:` / `if not p:` with swapped branches; annotated attribute assignments;
    the argument tuple or the whole pair bound to a local.
"""

from __future__ import annotations

import ast
from typing import List, Optional, Set

from ..cfg import cfg_of, origins
from ..counts import root_name
from ..index import AnalysisError, FuncNode, call_name, calls_in, enclosing_class, kwarg, last_attr, norm, short, walk_local

RUNNER = "src/sqlfluff/core/linter/runner.py"
LINTER = "src/sqlfluff/core/linter/linter.py"
COMMON = "src/sqlfluff/core/linter/common.py"
FCONF = "src/sqlfluff/core/config/fluffconfig.py"
LRES = "src/sqlfluff/core/linter/linting_result.py"

# Linter constructor inputs a worker may legitimately not receive: (param, reason)
WORKER_LINTER_EXEMPT = {
    "formatter": "output only: formatters do not pickle; the main process dispatches file violations itself in ParallelRunner.run",
    "dialect": "convenience kwarg, mutually exclusive with config (Linter.__init__ raises if both are given)",
    "rules": "convenience kwarg, mutually exclusive with config",
    "exclude_rules": "convenience kwarg, mutually exclusive with config",
}


# ---------------------------------------------------------------------------
# resolved-fact helpers (a value read through a local, a walrus, an alias or a
# keyword argument is the same value)
def _ident(cfg, name: ast.Name, at) -> frozenset:
    """Identity of the object a local name holds at statement `at`: the set of leaves of
    its origin expansion (the very expression node / loop / parameter that produced it)."""
    out = set()
    for o in origins(cfg, name, at):
        if o.kind == "unknown":
            out.add(("global", name.id))
        else:
            out.add((o.kind, tuple(o.path), id(o.expr)))
    return frozenset(out)


def _field_of(cfg, e: Optional[ast.expr], at, attr: str) -> Optional[frozenset]:
    """When every origin of `e` is `<X>.<attr>` for a local X holding one and the same
    object: the identity of X; otherwise None."""
    if e is None:
        return None
    ids = set()
    for o in origins(cfg, e, at):
        x = o.expr
        if not (o.kind == "expr" and not o.path and isinstance(x, ast.Attribute) and x.attr == attr and isinstance(x.value, ast.Name)):
            return None
        ids.add(_ident(cfg, x.value, o.stmt))
    return next(iter(ids)) if len(ids) == 1 else None


def _leaves_are(cfg, e: Optional[ast.expr], at, pred) -> bool:
    """Every origin of `e` (at least one) satisfies pred(origin)."""
    if e is None:
        return False
    os_ = origins(cfg, e, at)
    return bool(os_) and all(pred(o) for o in os_)


def _is_text(text: str):
    return lambda o: o.kind == "expr" and not o.path and isinstance(o.expr, ast.AST) and norm(o.expr) == text


def _is_param(o) -> bool:
    return o.kind == "param" and not o.path


def _loop_calls(cfg, o, method: str) -> list:
    """For the origin of a loop variable: the `<...>.method(...)` calls whose result is iterated
    (the iterable may be bound to a local before the loop); [] when it is anything else."""
    if o.kind != "for" or not isinstance(o.expr, ast.AST):
        return []
    its = origins(cfg, o.expr, o.stmt)
    if its and all(x.kind == "expr" and not x.path and isinstance(x.expr, ast.Call) and last_attr(x.expr) == method for x in its):
        return [(x.expr, x.stmt) for x in its]
    return []


def _loops_over(cfg, method: str):
    return lambda o: bool(_loop_calls(cfg, o, method))


def _comp_target_over(cfg, e: Optional[ast.expr], at, method: str) -> bool:
    """``e`` is the (plain) loop variable of an enclosing generator expression / comprehension whose iterable is a
    ``<...>.method(...)`` call (possibly bound to a local before): the comprehension spelling of ``_loops_over``."""
    if not isinstance(e, ast.Name):
        return False
    p = getattr(e, "_parent", None)
    while p is not None and not isinstance(p, (ast.FunctionDef, ast.AsyncFunctionDef, ast.Lambda)):
        if isinstance(p, (ast.GeneratorExp, ast.ListComp, ast.SetComp)):
            for g in p.generators:
                if isinstance(g.target, ast.Name) and g.target.id == e.id:
                    its = origins(cfg, g.iter, at)
                    return bool(its) and all(x.kind == "expr" and not x.path and isinstance(x.expr, ast.Call) and last_attr(x.expr) == method for x in its)
                if any(isinstance(n, ast.Name) and n.id == e.id for n in ast.walk(g.target)):
                    return False
        p = getattr(p, "_parent", None)
    return False


def _value_key(cfg, e: Optional[ast.expr], at) -> Optional[frozenset]:
    """Comparable key of a value: two expressions with equal keys evaluate the same text
    over the same local objects."""
    if e is None:
        return None
    out = set()
    for o in origins(cfg, e, at):
        if o.kind == "expr" and isinstance(o.expr, ast.AST):
            names = frozenset((n.id, _ident(cfg, n, o.stmt)) for n in ast.walk(o.expr) if isinstance(n, ast.Name))
            out.add(("expr", tuple(o.path), norm(o.expr), names))
        else:
            out.add((o.kind, tuple(o.path), id(o.expr)))
    return frozenset(out)


def _mentions(cfg, e: Optional[ast.expr], at, needle: str, _seen=None) -> bool:
    """Does `e`, with local names expanded through their definitions, contain `needle`?"""
    if e is None:
        return False
    if needle in norm(e):
        return True
    _seen = _seen if _seen is not None else set()
    for n in ast.walk(e):
        if isinstance(n, ast.Name) and isinstance(n.ctx, ast.Load):
            for o in origins(cfg, n, at):
                if o.kind == "expr" and isinstance(o.expr, ast.AST) and o.expr is not n and id(o.expr) not in _seen:
                    _seen.add(id(o.expr))
                    if _mentions(cfg, o.expr, o.stmt, needle, _seen):
                        return True
    return False


def _arg(c: ast.Call, pos: int, name: Optional[str]) -> Optional[ast.expr]:
    """Argument of a call given positionally or by keyword."""
    if len(c.args) > pos and not any(isinstance(a, ast.Starred) for a in c.args[: pos + 1]):
        return c.args[pos]
    return kwarg(c, name) if name else None


def _param_names(fn, skip_first: bool = True) -> List[str]:
    names = [a.arg for a in fn.args.posonlyargs + fn.args.args]
    return names[1:] if skip_first and names and names[0] in ("self", "cls") else names


def _lint_partial(cfg, c: ast.Call) -> bool:
    """functools.partial(<...>.lint_rendered, ...) - the callee may be held in a local."""
    if last_attr(c) != "partial" or not c.args:
        return False
    return _leaves_are(cfg, c.args[0], cfg.stmt_of(c), lambda o: o.kind == "expr" and isinstance(o.expr, ast.Attribute) and o.expr.attr == "lint_rendered")


_SELF_MUTATORS = ("append", "extend", "insert", "add", "update", "setdefault", "pop", "popitem", "clear", "remove", "discard", "sort", "reverse", "__setitem__")


def _r24g(chk, repo) -> None:
    cls = repo.cls(LINTER, "Linter")
    n = 0
    for f in [x for x in cls.body if isinstance(x, FuncNode)]:
        if f.name == "__init__" or not f.args.args or f.args.args[0].arg != "self":
            continue
        n += 1
        for node in walk_local(f):
            bad = None
            tg = []
            if isinstance(node, ast.Assign):
                tg = node.targets
            elif isinstance(node, (ast.AugAssign, ast.AnnAssign)):
                tg = [node.target]
            elif isinstance(node, ast.Delete):
                tg = node.targets
            for t in tg:
                for x in ast.walk(t):
                    if isinstance(x, ast.Attribute) and isinstance(x.value, ast.Name) and x.value.id == "self" and isinstance(x.ctx, (ast.Store, ast.Del)):
                        bad = f"self.{x.attr} is re-bound"
                    if isinstance(x, ast.Subscript) and isinstance(x.ctx, (ast.Store, ast.Del)) and isinstance(x.value, ast.Attribute) and isinstance(x.value.value, ast.Name) and x.value.value.id == "self":
                        bad = f"an item of self.{x.value.attr} is stored"
            if isinstance(node, ast.Call) and isinstance(node.func, ast.Attribute) and node.func.attr in _SELF_MUTATORS and isinstance(node.func.value, ast.Attribute) \
                    and isinstance(node.func.value.value, ast.Name) and node.func.value.value.id == "self" and node.func.value.attr not in ("formatter", "config", "templater"):
                bad = f"self.{node.func.value.attr}.{node.func.attr}(..) changes it in place"
            if bad:
                chk.fail(
                    "R24g", node,
                    f"Linter.{f.name}: {bad} ({short(node, 60)}): what one file leaves on the Linter is seen by the next file of a serial run but not by a worker's fresh Linter, so "
                    "the results depend on the process count and on the order of the files",
                    detail=f"Linter.{f.name}: no state kept on the Linter between files",
                )
    chk.count("R24g.linter_methods", n)
    chk.floor("R24g.linter_methods", 8)


def _r24h(chk, repo, mod) -> None:
    """Every sequenced file becomes a task, whichever runner dispatches it.

    A dispatch loop is a ``for`` with a ``yield`` in its body, or a generator expression / list comprehension handed to
    ``yield from`` (directly or through a local); it is looked for in ``iter_partials`` and in the generators of the
    same class / module / function that ``iter_partials`` delegates to with ``yield from <call>`` (``super()`` leads
    to the other anchored function and is not followed)."""
    from ..flowutil import must_pass

    funcs = dict(mod.functions())

    def delegates(q, f):
        """Generators that ``f`` hands over to with ``yield from``: nested functions, methods of its class, module functions."""
        out = []
        cls_q = q.rsplit(".", 2)[0] if "." in q else None
        for y in [x for x in walk_local(f) if isinstance(x, ast.YieldFrom) and isinstance(x.value, ast.Call)]:
            fn = y.value.func
            if isinstance(fn, ast.Name):
                nested = [d for d in ast.walk(f) if isinstance(d, ast.FunctionDef) and d is not f and d.name == fn.id]
                if nested:
                    out.append((f"{q}.<locals>.{fn.id}", nested[0]))
                elif fn.id in funcs:
                    out.append((fn.id, funcs[fn.id]))
            elif isinstance(fn, ast.Attribute) and isinstance(fn.value, ast.Name) and fn.value.id in ("self", "cls"):
                owner = q.rsplit(".", 1)[0] if "." in q else None
                while owner:
                    if f"{owner}.{fn.attr}" in funcs:
                        out.append((f"{owner}.{fn.attr}", funcs[f"{owner}.{fn.attr}"]))
                        break
                    # a method inherited from a base class of the same module
                    try:
                        bases = [b.id for b in repo.cls(RUNNER, owner).bases if isinstance(b, ast.Name)]
                    except AnalysisError:
                        bases = []
                    owner = bases[0] if bases else None
        return out

    n = 0
    for q, f in mod.functions():
        if not q.endswith(".iter_partials"):
            continue
        todo, seen = [(q, f)], set()
        while todo:
            gq, g = todo.pop()
            if id(g) in seen or len(seen) > 6:
                continue
            seen.add(id(g))
            if not gq.endswith(".iter_partials"):
                todo += delegates(gq, g)
            else:
                todo += [(dq, d) for dq, d in delegates(gq, g) if not dq.endswith(".iter_partials")]
            cfg = cfg_of(g)
            for l in [x for x in walk_local(g) if isinstance(x, ast.For)]:
                ys = [st for b in l.body for st in ast.walk(b) if isinstance(st, ast.Expr) and isinstance(st.value, (ast.Yield, ast.YieldFrom))]
                if not ys:
                    continue
                n += 1
                chk.require(
                    (any(l.body[0] is y for y in ys) or must_pass(cfg, l.body[0], l, ys)) and not any(isinstance(x, ast.Break) for b in l.body for x in ast.walk(b)), "R24h", l,
                    f"{q}: a path through the loop over the files to lint reaches the next file without yielding a task for this one (a test made in the dispatching process, with the run-wide "
                    "config): the file is dropped here although the per-file decision -- made where the file is loaded, with the file's own config -- may differ; serial and parallel runs then disagree",
                    detail=f"{q}: every sequenced file yields a task",
                )
            for y in [x for x in walk_local(g) if isinstance(x, ast.YieldFrom)]:
                v = y.value
                if isinstance(v, ast.Name):
                    os_ = origins(cfg, v, cfg.stmt_of(y))
                    if len(os_) == 1 and os_[0].kind == "expr" and not os_[0].path:
                        v = os_[0].expr
                if not isinstance(v, (ast.GeneratorExp, ast.ListComp)):
                    continue
                n += 1
                chk.require(
                    not any(c.ifs for c in v.generators), "R24h", y,
                    f"{q}: the generator expression that turns the files to lint into tasks has a filter: a file is dropped in the dispatching process (with the run-wide config) although "
                    "the per-file decision is made where the file is loaded; serial and parallel runs then disagree",
                    detail=f"{q}: every sequenced file yields a task",
                )
            for st in walk_local(g):
                tg = st.target if isinstance(st, ast.AugAssign) else (st.targets[0] if isinstance(st, ast.Assign) and len(st.targets) == 1 else None)
                if isinstance(tg, ast.Attribute) and tg.attr == "skipped_file_count":
                    chk.fail("R24h", st, f"{q} counts a skipped file while dispatching: the skip decision belongs to the load of the file (its own config), the runner only counts SQLFluffSkipFile it receives",
                             detail=f"{q}: no skip counting at dispatch")
    chk.count("R24h.dispatch_loops", n)
    chk.floor("R24h.dispatch_loops", 2)


def run(chk) -> None:
    repo = chk.repo
    chk.rule("R24a", "every render->pack->lint site uses the task's filename, the runner's root config and the task's fix flag; the deferred task packet carries filename, root config, fix and user rules")
    chk.rule("R24e", "the Linter rebuilt in a worker receives every constructor input that the methods called on it read")
    chk.rule("R24b", "lint_paths files each result under the directory registered for the result's own path; records are sorted by path; skip counter read after the stream")
    chk.rule("R24c", "config pickling drops only the plugin manager and the templater object, on copies")
    chk.rule("R24d", "every catch-all in the runners feeds the shared funnel, which re-raises I/O and user errors")
    mod = repo.mod(RUNNER)
    _r24a(chk, repo, mod)
    _r24e(chk, repo, mod)
    _r24b(chk, repo)
    _r24c(chk, repo)
    _r24d(chk, repo, mod)
    _r24f(chk, repo)
    chk.rule("R24g", "a Linter carries nothing from one file to the next: no method of Linter other than __init__ stores to self (attribute, item of an attribute, or an in-place change of an attribute) -- the serial runner reuses one Linter for every file while a worker builds a fresh one per task")
    _r24g(chk, repo)
    chk.rule("R24h", "each runner's iter_partials yields a task for every file its file sequence produces (no test in the dispatching process drops a file, no skip is counted there): whether a file is skipped is decided once, where it is loaded with its own config, identically for every process count")
    _r24h(chk, repo, mod)


# ---------------------------------------------------------------------------
def _packet_fields(repo) -> List[str]:
    """Field names of the DeferredRenderTask packet, in constructor order."""
    cls = repo.cls(COMMON, "DeferredRenderTask")
    return [s.target.id for s in cls.body if isinstance(s, ast.AnnAssign) and isinstance(s.target, ast.Name)]


def _r24a(chk, repo, mod) -> None:
    n_sites = 0
    fields = _packet_fields(repo)
    if fields[:3] != ["fname", "root_config", "fix"] or "user_rules" not in fields:
        raise AnalysisError(f"R24a: DeferredRenderTask fields changed: {fields}")
    try:
        seq_params = _param_names(repo.fn("src/sqlfluff/core/templaters/base.py", "RawTemplater.sequence_files"))
        seq_cfg_pos = seq_params.index("config")
    except (AnalysisError, ValueError):
        seq_cfg_pos = 1
    for q, f in mod.functions():
        cfg = cfg_of(f)
        from_fnames_param = lambda o: bool(_loop_calls(cfg, o, "sequence_files")) and all(  # noqa: E731
            bool(call.args) and _leaves_are(cfg, call.args[0], at, _is_param) for call, at in _loop_calls(cfg, o, "sequence_files")
        )
        for c in calls_in(f):
            if last_attr(c) != "render_file":
                continue
            n_sites += 1
            st = cfg.stmt_of(c)
            a_f = _arg(c, 0, "fname")
            a_r = _arg(c, 1, "root_config")
            # filename: <task>.fname (possibly read into a local first) or the loop variable over sequence_files(<fnames param>)
            task = _field_of(cfg, a_f, st, "fname")
            ok_f = task is not None or _leaves_are(cfg, a_f, st, from_fnames_param)
            chk.require(ok_f, "R24a", c, "render_file is not given the task's own filename (the loop variable over sequence_files(fnames) or <task>.fname)", detail=f"{q}: render_file filename")
            ok_r = False
            if _leaves_are(cfg, a_r, st, _is_text("self.config")):
                ok_r = task is None
            else:
                t_r = _field_of(cfg, a_r, st, "root_config")
                ok_r = t_r is not None and t_r == task
            chk.require(ok_r, "R24a", c, "render_file is not given the runner's root config (self.config, or the root_config of the same task)", detail=f"{q}: render_file root config")
            # the lint call that consumes this rendering gets the task's fix flag
            lints = [x for x in calls_in(f) if last_attr(x) == "lint_rendered" and isinstance(x.func, ast.Attribute)]
            for lc in lints:
                a_fix = _arg(lc, 2, "fix")
                lst = cfg.stmt_of(lc)
                if task is not None:
                    t_x = _field_of(cfg, a_fix, lst, "fix")
                    good = t_x is not None and t_x == task
                else:
                    good = _leaves_are(cfg, a_fix, lst, _is_param)
                chk.require(good, "R24a", lc, "lint_rendered is not given the fix flag of the same task", detail=f"{q}: lint_rendered fix flag")
            chk.sample({"rule": "R24a", "site": f"{RUNNER}:{c.lineno}", "function": q, "call": short(c, 80)})
        # partial(self.linter.lint_rendered, rendered, rule_pack, fix, ...)
        for c in calls_in(f):
            if _lint_partial(cfg, c):
                st = cfg.stmt_of(c)
                a_fix = _arg(c, 3, "fix")
                chk.require(_leaves_are(cfg, a_fix, st, _is_param), "R24a", c, "the lint partial does not forward the runner's fix flag", detail=f"{q}: partial fix flag")
                a_rend = _arg(c, 1, "rendered")
                chk.require(
                    _leaves_are(cfg, a_rend, st, _loops_over(cfg, "iter_rendered")),
                    "R24a", c, "the lint partial is not built on the rendering produced by iter_rendered for that file", detail=f"{q}: partial rendering",
                )
        # the rule pack of every lint call is built from the per-file config of the rendering it lints
        for c in calls_in(f):
            rend = rp = None
            if last_attr(c) == "lint_rendered" and isinstance(c.func, ast.Attribute):
                rend = _arg(c, 0, "rendered")
                rp = _arg(c, 1, "rule_pack")
            elif _lint_partial(cfg, c):
                rend = _arg(c, 1, "rendered")
                rp = _arg(c, 2, "rule_pack")
            else:
                continue
            chk.count("R24a.lint_sites")
            st = cfg.stmt_of(c)
            ok = False
            why = "rule pack or rendering argument missing"
            if isinstance(rend, ast.Name) and rp is not None:
                rid = _ident(cfg, rend, st)
                os_ = origins(cfg, rp, st)
                ok = bool(os_)
                for o in os_:
                    if not (o.kind == "expr" and isinstance(o.expr, ast.Call) and last_attr(o.expr) == "get_rulepack" and not o.path):
                        ok, why = False, f"rule pack derives from {o.text()[:60]}, not from get_rulepack(config=<rendering>.config)"
                        break
                    e = _arg(o.expr, 0, "config")
                    # <the linted rendering>.config, possibly read into a local first
                    src = _field_of(cfg, e, o.stmt, "config")
                    if not (src is not None and src == rid):
                        ok = False
                        why = (
                            f"rule pack is built from {norm(e) if e is not None else 'no config'!r}, not from the per-file config of the "
                            f"rendering that is linted ({rend.id}.config): this site selects and configures rules differently from its siblings"
                        )
                        break
            chk.require(ok, "R24a", c, why, detail=f"{q}: rule pack from the rendering's own config")
        # the deferred packet
        for c in calls_in(f):
            if last_attr(c) == "DeferredRenderTask":
                st = cfg.stmt_of(c)
                a = {name: _arg(c, i, name) for i, name in enumerate(fields)}
                ok0 = _leaves_are(cfg, a["fname"], st, _loops_over(cfg, "sequence_files")) or _comp_target_over(cfg, a["fname"], st, "sequence_files")
                ok1 = _leaves_are(cfg, a["root_config"], st, _is_text("self.config"))
                ok2 = _leaves_are(cfg, a["fix"], st, _is_param)
                ok3 = _leaves_are(cfg, a["user_rules"], st, lambda o: o.kind == "expr" and isinstance(o.expr, ast.AST) and _mentions(cfg, o.expr, o.stmt, "self.linter.user_rules"))
                chk.require(ok0 and ok1 and ok2, "R24a", c, "deferred task packet is not (filename of this iteration, self.config, fix)", detail=f"{q}: deferred packet fields")
                chk.require(ok3, "R24a", c, "deferred task packet does not carry the linter's user rules: a worker would lint with a different rule set than a sequential run",
                            detail=f"{q}: deferred packet user rules")
                chk.count("R24a.deferred_packets")
        # both generators sequence files with the runner's root config
        for c in calls_in(f):
            if last_attr(c) == "sequence_files":
                e = _arg(c, seq_cfg_pos, "config")
                chk.require(_leaves_are(cfg, e, cfg.stmt_of(c), _is_text("self.config")), "R24a", c, "sequence_files is not given the runner's root config", detail=f"{q}: sequence_files config")
    chk.count("R24a.render_sites", n_sites)
    chk.floor("R24a.render_sites", 3)
    chk.floor("R24a.lint_sites", 3)
    chk.floor("R24a.deferred_packets", 1)


# ---------------------------------------------------------------------------
def _self_attr_reads(repo, cls: ast.ClassDef, method: str, seen: Set[str]) -> Set[str]:
    """self.<attr> reads of a method, following self.<method>() calls."""
    out: Set[str] = set()
    if method in seen:
        return out
    seen.add(method)
    fn = next((i for i in cls.body if isinstance(i, FuncNode) and i.name == method), None)
    if fn is None:
        return out
    first = fn.args.args[0].arg if fn.args.args else None
    if first not in ("self",):
        return out
    methods = {i.name for i in cls.body if isinstance(i, FuncNode)}
    for n in ast.walk(fn):
        if isinstance(n, ast.Attribute) and isinstance(n.value, ast.Name) and n.value.id == "self" and isinstance(n.ctx, ast.Load):
            if n.attr in methods:
                out |= _self_attr_reads(repo, cls, n.attr, seen)
            else:
                out.add(n.attr)
    return out


def _root_node(e: ast.AST) -> Optional[ast.Name]:
    while isinstance(e, (ast.Attribute, ast.Subscript, ast.Call)):
        e = e.func if isinstance(e, ast.Call) else e.value
    return e if isinstance(e, ast.Name) else None


def _rooted_in_param(cfg, name: ast.Name, at, depth: int = 0) -> bool:
    """The local holds (a member / an element of) something the function received as a parameter."""
    def ok(o) -> bool:
        if o.kind == "param":
            return True
        if o.kind == "expr" and isinstance(o.expr, (ast.Attribute, ast.Subscript)) and depth < 4:
            r = _root_node(o.expr)
            return r is not None and r is not name and _rooted_in_param(cfg, r, o.stmt, depth + 1)
        return False
    return _leaves_are(cfg, name, at, ok)


def _from_packet(cfg, v: ast.expr, at) -> bool:
    """Every origin of `v` reads a member of something the function received as a parameter."""
    def leaf_ok(o) -> bool:
        if not (o.kind == "expr" and isinstance(o.expr, ast.AST)):
            return False
        for x in ast.walk(o.expr):
            if isinstance(x, ast.Attribute):
                r = _root_node(x)
                if r is not None and _rooted_in_param(cfg, r, o.stmt):
                    return True
        return False
    return _leaves_are(cfg, v, at, leaf_ok)


def _r24e(chk, repo, mod) -> None:
    lcls = repo.cls(LINTER, "Linter")
    init = repo.fn(LINTER, "Linter.__init__")
    # attribute -> constructor params it is computed from
    attr_from: dict = {}
    iparams = [a.arg for a in init.args.args][1:]
    for n in walk_local(init):
        if isinstance(n, (ast.Assign, ast.AnnAssign)) and n.value is not None:
            tgt = n.targets[0] if isinstance(n, ast.Assign) else n.target
            if isinstance(tgt, ast.Attribute) and isinstance(tgt.value, ast.Name) and tgt.value.id == "self":
                names = {x.id for x in ast.walk(n.value) if isinstance(x, ast.Name)} & set(iparams)
                attr_from[tgt.attr] = names
    n_workers = 0
    for q, f in mod.functions():
        cfg = cfg_of(f)
        for c in calls_in(f):
            if not (isinstance(c.func, ast.Name) and c.func.id == "Linter"):
                continue
            n_workers += 1
            st = cfg.stmt_of(c)
            # a local name holds the rebuilt Linter where all its origins are this very constructor call
            holds = lambda name: isinstance(name, ast.Name) and _leaves_are(cfg, name, cfg.stmt_of(name), lambda o: o.expr is c and not o.path)  # noqa: E731
            passed = {k.arg for k in c.keywords if k.arg} | set(iparams[: len(c.args)])
            value_of = {p: _arg(c, i, p) for i, p in enumerate(iparams)}
            called = {last_attr(x) for x in calls_in(f) if isinstance(x.func, ast.Attribute) and holds(x.func.value)}
            reads: Set[str] = set()
            for m in called:
                reads |= _self_attr_reads(repo, lcls, m, set())
            assigned_after = {
                n.targets[0].attr for n in walk_local(f)
                if isinstance(n, ast.Assign) and isinstance(n.targets[0], ast.Attribute) and holds(n.targets[0].value)
            }
            needed = set()
            for attr in reads:
                for p in attr_from.get(attr, ()):  # constructor inputs behind attributes the worker reads
                    if attr not in assigned_after:
                        needed.add(p)
            missing = sorted(p for p in needed if p not in passed and p not in WORKER_LINTER_EXEMPT)
            chk.require(
                not missing, "R24e", c,
                f"the Linter rebuilt in the worker is not given {missing}, although the methods it runs ({sorted(called)}) read the attributes derived from them; "
                f"the main-process path uses the caller's Linter, so results differ with the number of processes",
                detail=f"{q}: worker Linter inputs",
            )
            # the values passed must come from the task packet
            for p in iparams:
                if p in needed and value_of.get(p) is not None:
                    chk.require(_from_packet(cfg, value_of[p], st), "R24e", c, f"worker Linter input {p} does not come from the task packet", detail=f"{q}: worker Linter {p} from task")
            chk.sample({"rule": "R24e", "site": f"{RUNNER}:{c.lineno}", "methods_called": sorted(called), "attributes_read": sorted(reads), "inputs_needed": sorted(needed), "passed": sorted(passed)})
            # templater is re-created from the same config
            if "templater" in reads:
                ok = False
                cfg_arg = value_of.get("config")
                cfg_key = _value_key(cfg, cfg_arg, st)
                from_same_config = lambda o: (  # noqa: E731
                    o.kind == "expr" and not o.path and isinstance(o.expr, ast.Call) and last_attr(o.expr) == "get_templater"
                    and isinstance(o.expr.func, ast.Attribute) and _value_key(cfg, o.expr.func.value, o.stmt) == cfg_key
                )
                for n in walk_local(f):
                    if isinstance(n, ast.Assign) and isinstance(n.targets[0], ast.Attribute) and n.targets[0].attr == "templater" and holds(n.targets[0].value):
                        if cfg_arg is not None and _leaves_are(cfg, n.value, n, from_same_config):
                            ok = True
                chk.require(ok, "R24e", c, "worker does not re-create the templater from the config it was given (the pickled config carries no templater object)", detail=f"{q}: worker templater re-created")
    chk.count("R24e.worker_linters", n_workers)
    chk.floor("R24e.worker_linters", 1)


# ---------------------------------------------------------------------------
def _r24b(chk, repo) -> None:
    f = repo.fn(LINTER, "Linter.lint_paths")
    cfg = cfg_of(f)
    loop = None
    runs = lambda x: x.kind == "expr" and isinstance(x.expr, ast.Call) and last_attr(x.expr) == "run"  # noqa: E731
    for n in walk_local(f):
        if not isinstance(n, ast.For):
            continue
        for x in origins(cfg, n.iter, n):
            if runs(x):
                loop = n
            elif x.kind == "expr" and isinstance(x.expr, ast.Call) and call_name(x.expr) == "enumerate" and x.expr.args:
                if any(runs(y) for y in origins(cfg, x.expr.args[0], x.stmt)):
                    loop = n
    if loop is None:
        raise AnalysisError("R24b: loop over runner.run(...) not found in Linter.lint_paths")
    is_result = lambda e: isinstance(e, ast.Name) and _leaves_are(cfg, e, cfg.stmt_of(e), lambda o: o.kind == "for" and o.stmt is loop)  # noqa: E731
    adds = [c for c in calls_in(loop) if last_attr(c) == "add" and c.args and is_result(c.args[0])]
    chk.require(len(adds) == 1, "R24b", loop, "each runner result must be added to exactly one LintedDir", detail="one add per result")
    for c in adds:
        st = cfg.stmt_of(c)
        rid = _ident(cfg, c.args[0], st)

        def own_path_lookup(o) -> bool:
            # <table>[<this result>.path]; the key may be read into a local first
            e = o.expr
            if not (o.kind == "expr" and not o.path and isinstance(e, ast.Subscript)):
                return False
            src = _field_of(cfg, e.slice, o.stmt, "path")
            return src is not None and src == rid

        ok = _leaves_are(cfg, c.func.value, st, own_path_lookup)
        chk.require(ok, "R24b", c, "a result is filed under a directory that is not looked up by the result's own path (arrival order would matter)", detail="result filed by own path")
    # the lookup table is filled per discovered file
    fills = [n for n in walk_local(f) if isinstance(n, ast.Assign) and isinstance(n.targets[0], ast.Subscript)]
    ok = any(_leaves_are(cfg, n.targets[0].slice, n, _loops_over(cfg, "paths_from_path")) for n in fills)
    chk.require(ok, "R24b", f, "the path -> LintedDir table is not filled for every file yielded by paths_from_path", detail="lookup table filled per file")
    # skip counter read after the loop: outside its body, downstream of it, and the loop cannot be reached again from there.
    # (Not decided by dominance: the CFG lets the exceptional exit of a `finally` continue after the try statement, so a
    # statement placed in front of the loop inside the try would break "the loop dominates what follows the try".)
    after = lambda n: n is not None and not _inside(n, loop) and cfg.reaches(loop, n) and not cfg.reaches(n, loop)  # noqa: E731
    counter_read_after = lambda o: o.kind == "expr" and isinstance(o.expr, ast.Attribute) and o.expr.attr == "skipped_file_count" and after(o.stmt)  # noqa: E731
    sk = [n for n in walk_local(f) if isinstance(n, ast.Assign) and isinstance(n.targets[0], ast.Attribute) and n.targets[0].attr == "files_skipped"]
    chk.require(bool(sk) and all(after(n) and _leaves_are(cfg, n.value, n, counter_read_after) for n in sk), "R24b", f,
                "files_skipped must be transferred from the runner after the result stream ended", detail="skip counter after stream")
    ar = repo.fn(LRES, "LintingResult.as_records")
    acfg = cfg_of(ar)
    rets = [r for r in walk_local(ar) if isinstance(r, ast.Return)]
    sorted_by_path = lambda o: (  # noqa: E731
        o.kind == "expr" and not o.path and isinstance(o.expr, ast.Call) and call_name(o.expr) == "sorted"
        and kwarg(o.expr, "key") is not None and _mentions(acfg, kwarg(o.expr, "key"), o.stmt, "filepath")
    )
    ok = bool(rets) and all(_leaves_are(acfg, r.value, r, sorted_by_path) for r in rets)
    chk.require(ok, "R24b", ar, "LintingResult.as_records does not return the records sorted by file path", detail="records sorted by path")


def _inside(n, container) -> bool:
    p = n
    while p is not None:
        if p is container:
            return True
        p = getattr(p, "_parent", None)
    return False


# ---------------------------------------------------------------------------
class _Dict:
    """Abstract dict value while following __getstate__: 'live' = an object reachable from
    self (key path below self.__dict__), 'copy' = a fresh shallow/deep copy of that object
    with the stores and deletions made on it so far, 'none' = the constant None, 'other'."""

    def __init__(self, kind: str, path: tuple = (), deep: bool = False):
        self.kind, self.path, self.deep = kind, path, deep
        self.over: dict = {}
        self.deleted: list = []
        self.kids: dict = {}

    def child(self, key):
        if key in self.over:
            return self.over[key]
        if self.kind == "copy" and self.deep:
            return self.kids.setdefault(key, _Dict("copy", self.path + (key,), True))
        return _Dict("live", self.path + (key,))  # a shallow copy shares its values with the live object

    def copied(self, deep: bool = False) -> "_Dict":
        c = _Dict("copy", self.path, deep or (self.kind == "copy" and self.deep))
        c.over, c.deleted = dict(self.over), list(self.deleted)
        return c


def _follow_getstate(g):
    """Straight-line abstract execution of __getstate__ -> (returned, edits_live, unfollowed)."""
    env: dict = {}
    edits_live: List[str] = []
    unfollowed: List[str] = []
    returned: List[_Dict] = []

    def key_of(sub: ast.Subscript):
        return sub.slice.value if isinstance(sub.slice, ast.Constant) and isinstance(sub.slice.value, str) else None

    def ev(e) -> _Dict:
        if isinstance(e, ast.Attribute) and norm(e) == "self.__dict__":
            return _Dict("live", ())
        if isinstance(e, ast.Call) and norm(e) == "vars(self)":
            return _Dict("live", ())
        if isinstance(e, ast.Name):
            return env.get(e.id, _Dict("other"))
        if isinstance(e, ast.Constant) and e.value is None:
            return _Dict("none")
        if isinstance(e, ast.Subscript) and key_of(e) is not None:
            b = ev(e.value)
            return b.child(key_of(e)) if b.kind in ("live", "copy") else _Dict("other")
        if isinstance(e, ast.Call) and not e.keywords:
            fn = call_name(e) or ""
            if isinstance(e.func, ast.Attribute) and e.func.attr == "copy" and not e.args:
                b = ev(e.func.value)
                if b.kind in ("live", "copy"):
                    return b.copied()
            if len(e.args) == 1 and fn in ("dict", "copy", "copy.copy", "deepcopy", "copy.deepcopy"):
                b = ev(e.args[0])
                if b.kind in ("live", "copy"):
                    return b.copied(deep=fn.endswith("deepcopy"))
        return _Dict("other")

    def store(target: ast.Subscript, value: Optional[_Dict], what: ast.AST) -> None:
        k = key_of(target)
        b = ev(target.value)
        if b.kind == "live":
            edits_live.append(norm(target))
        elif b.kind == "copy" and k is not None:
            if value is None:
                b.over.pop(k, None)
                b.deleted.append(k)
            else:
                b.over[k] = value
                if k in b.deleted:
                    b.deleted.remove(k)
        else:
            unfollowed.append(short(what, 70))

    for s in g.body:
        if isinstance(s, ast.Expr) and isinstance(s.value, ast.Constant):
            continue
        if isinstance(s, (ast.Assign, ast.AnnAssign)) and s.value is not None:
            tgts = s.targets if isinstance(s, ast.Assign) else [s.target]
            if len(tgts) == 1 and isinstance(tgts[0], ast.Name):
                env[tgts[0].id] = ev(s.value)
                continue
            if len(tgts) == 1 and isinstance(tgts[0], ast.Subscript):
                store(tgts[0], ev(s.value), s)
                continue
        if isinstance(s, ast.Delete) and all(isinstance(t, ast.Subscript) for t in s.targets):
            for t in s.targets:
                store(t, None, s)
            continue
        if isinstance(s, ast.Expr) and isinstance(s.value, ast.Call) and isinstance(s.value.func, ast.Attribute) and s.value.func.attr == "pop" \
                and len(s.value.args) == 1 and not s.value.keywords and isinstance(s.value.args[0], ast.Constant):
            # d.pop(k) without a default removes exactly k (KeyError when absent, like del)
            fake = ast.Subscript(value=s.value.func.value, slice=s.value.args[0], ctx=ast.Del())
            store(ast.copy_location(fake, s.value), None, s)
            continue
        if isinstance(s, ast.Return):
            returned.append(ev(s.value) if s.value is not None else _Dict("none"))
            continue
        if any(isinstance(x, ast.Name) and (x.id == "self" or x.id in env) for x in ast.walk(s)):
            unfollowed.append(short(s, 70))
    return returned, edits_live, unfollowed


def _state_diff(obj: _Dict, path: tuple, deleted: list, nulls: list, replaced: list) -> None:
    for k in obj.deleted:
        deleted.append(path + (k,))
    for k, v in obj.over.items():
        p = path + (k,)
        if v.kind == "none":
            nulls.append(p)
        elif v.kind == "copy" and v.path == p:
            _state_diff(v, p, deleted, nulls, replaced)
        elif v.kind == "live" and v.path == p:
            continue  # stored back unchanged
        else:
            replaced.append(p)


def _keys(paths) -> List[str]:
    return ["state" + "".join(f"[{k!r}]" for k in p) for p in paths]


def _r24c(chk, repo) -> None:
    g = repo.fn(FCONF, "FluffConfig.__getstate__")
    returned, edits_live, unfollowed = _follow_getstate(g)
    chk.require(not unfollowed, "R24c", g, f"__getstate__ contains statements on the state that the straight-line reading cannot follow: {unfollowed}", detail="getstate statements followed")
    starts_ok = bool(returned) and all(r.kind == "copy" and r.path == () for r in returned)
    chk.require(starts_ok, "R24c", g, "__getstate__ must start from a copy of self.__dict__", detail="getstate starts from dict copy")
    deleted: list = []
    nulls: list = []
    replaced: list = []
    for r in returned:
        if r.kind == "copy":
            _state_diff(r, (), deleted, nulls, replaced)
    chk.require(deleted == [("_plugin_manager",)] * len(returned), "R24c", g, f"__getstate__ must delete exactly the plugin manager from the state copy, deletes {_keys(deleted)}", detail="getstate deletes plugin manager only")
    chk.require(nulls == [("_configs", "core", "templater_obj")] * len(returned) and not replaced, "R24c", g,
                f"__getstate__ must null exactly core.templater_obj, nulls {_keys(nulls)}" + (f", replaces {_keys(replaced)}" if replaced else ""), detail="getstate nulls templater_obj only")
    chk.require(not edits_live, "R24c", g,
                f"__getstate__ edits nested dicts without copying them first (the live config of the main process would lose its templater): {edits_live}", detail="getstate copies before editing")
    # no in-place edit of self
    selfstores = [n for n in ast.walk(g) if isinstance(n, (ast.Attribute, ast.Subscript)) and isinstance(n.ctx, (ast.Store, ast.Del)) and root_name(n) == "self"]
    chk.require(not selfstores, "R24c", g, "__getstate__ modifies self", detail="getstate leaves self alone")
    s = repo.fn(FCONF, "FluffConfig.__setstate__")
    scfg = cfg_of(s)
    upd = any(
        isinstance(c.func, ast.Attribute) and c.func.attr == "update" and norm(c.func.value) == "self.__dict__" and len(c.args) == 1
        and _leaves_are(scfg, c.args[0], scfg.stmt_of(c), _is_param)
        for c in calls_in(s)
    )
    pm = any(
        isinstance(n, ast.Assign) and norm(n.targets[0]) == "self._plugin_manager"
        and _leaves_are(scfg, n.value, n, lambda o: o.kind == "expr" and not o.path and isinstance(o.expr, ast.Call) and last_attr(o.expr) == "get_plugin_manager")
        for n in walk_local(s)
    )
    chk.require(upd and pm, "R24c", s, "__setstate__ must restore the state and fetch a fresh plugin manager", detail="setstate restores + fresh plugin manager")


# ---------------------------------------------------------------------------
_NEUTRAL = "neutral"


def _reraise_types(cfg, test: ast.expr, truth: bool, at, is_subject, depth: int = 0):
    """What does `test` being `truth` say about the class of the funnel's exception?

    set of class names  the fact is exactly "isinstance(<exception>, one of these)"
    _NEUTRAL            the fact only excludes classes (a failed isinstance test)
    None                the fact depends on something else: the raise is conditional"""
    if depth > 6:
        return None
    if isinstance(test, ast.UnaryOp) and isinstance(test.op, ast.Not):
        return _reraise_types(cfg, test.operand, not truth, at, is_subject, depth + 1)
    if isinstance(test, ast.Name):  # test hoisted into a boolean local
        os_ = origins(cfg, test, at)
        if len(os_) == 1 and os_[0].kind == "expr" and not os_[0].path and os_[0].expr is not test:
            return _reraise_types(cfg, os_[0].expr, truth, os_[0].stmt, is_subject, depth + 1)
        return None
    if isinstance(test, ast.Call) and call_name(test) == "isinstance" and len(test.args) == 2 and not test.keywords and is_subject(test.args[0], at):
        if not truth:
            return _NEUTRAL
        t = test.args[1]
        return {norm(x) for x in (t.elts if isinstance(t, ast.Tuple) else [t])}
    if isinstance(test, ast.BoolOp):
        disjunction = (isinstance(test.op, ast.Or) and truth) or (isinstance(test.op, ast.And) and not truth)
        parts = [_reraise_types(cfg, v, truth, at, is_subject, depth + 1) for v in test.values]
        if any(p is None for p in parts):
            return None
        sets = [p for p in parts if p != _NEUTRAL]
        if disjunction:
            # A or B: reached for every class named in any disjunct - provided no disjunct is a mere exclusion
            return set().union(*sets) if len(sets) == len(parts) else None
        if not sets:
            return _NEUTRAL
        out = set(sets[0])
        for x in sets[1:]:
            out &= x
        return out
    return None


def _feeds_funnel(cfg, h: ast.ExceptHandler, funnel_params: List[str], carrier_params: List[str]) -> bool:
    """A top-level statement of the handler hands the caught object to the funnel, returns
    it in the carrier, or re-raises it."""
    caught = lambda e, at: e is not None and _leaves_are(cfg, e, at, lambda o: o.kind == "except" and o.stmt is h and not o.path)  # noqa: E731
    exc_pos = funnel_params.index("e") if "e" in funnel_params else 1
    ee_pos = carrier_params.index("ee") if "ee" in carrier_params else 0

    def carrier(o) -> bool:
        return o.kind == "expr" and not o.path and isinstance(o.expr, ast.Call) and last_attr(o.expr) == "DelayedException" and caught(_arg(o.expr, ee_pos, "ee"), o.stmt)

    for s in h.body:  # top-level statements of the handler only
        if isinstance(s, (ast.Expr, ast.Return)) and isinstance(s.value, ast.Call):
            c = s.value
            if last_attr(c) == "_handle_lint_path_exception" and caught(_arg(c, exc_pos, "e"), s):
                return True
        if isinstance(s, ast.Return) and s.value is not None and _leaves_are(cfg, s.value, s, carrier):
            return True
        if isinstance(s, ast.Raise) and s.exc is None:
            return True
    return False


def _r24d(chk, repo, mod) -> None:
    funnel = repo.fn(RUNNER, "BaseRunner._handle_lint_path_exception")
    fcfg = cfg_of(funnel)
    funnel_params = _param_names(funnel)
    carrier_params = _param_names(repo.fn(RUNNER, "DelayedException.__init__"))
    is_subject = lambda e, at: _leaves_are(fcfg, e, at, _is_param)  # noqa: E731
    # (1) the funnel re-raises I/O and user errors
    reraised: Set[str] = set()
    for r in [n for n in walk_local(funnel) if isinstance(n, ast.Raise)]:
        raised = r.exc
        root = _root_node(raised) if raised is not None else None
        if root is None or not is_subject(root, r):
            continue
        facts = []
        for g in fcfg.guards(r):
            if isinstance(g.stmt, (ast.If, ast.While)):
                facts.append(_reraise_types(fcfg, g.stmt.test, g.polarity, g.stmt, is_subject))
        if any(x is None for x in facts):
            continue  # re-raised only under some further condition
        sets = [x for x in facts if x != _NEUTRAL]
        if sets:
            common = set(sets[0])
            for x in sets[1:]:
                common &= x
            reraised |= common
    for need, why in (("IOError", "I/O errors are reported by the CLI"), ("SQLFluffUserError", "user/config errors must reach the CLI handler and exit 2, whatever the number of processes")):
        ok = need in reraised or (need == "IOError" and "OSError" in reraised)
        chk.require(ok, "R24d", funnel, f"the runners' exception funnel logs {need} instead of re-raising it: {why}", detail=f"funnel re-raises {need}")
    # (2) every catch-all in runner.py feeds the funnel or the carrier
    n_catch = 0
    for q, f in mod.functions():
        cfg = cfg_of(f)
        for h in [n for n in walk_local(f) if isinstance(n, ast.ExceptHandler)]:
            tnames = [] if h.type is None else [norm(x) for x in (h.type.elts if isinstance(h.type, ast.Tuple) else [h.type])]
            if h.type is not None and not any(t in ("Exception", "BaseException") for t in tnames):
                continue
            n_catch += 1
            chk.require(_feeds_funnel(cfg, h, funnel_params, carrier_params), "R24d", h,
                        "a catch-all in the runners neither hands the caught exception to the shared funnel nor returns it in the DelayedException carrier: "
                        "user errors raised while linting a file would be swallowed here", detail=f"{q}: catch-all feeds funnel")
    chk.count("R24d.catch_alls", n_catch)
    chk.floor("R24d.catch_alls", 2)  # the main-process one is required by (3) below, as a violation rather than a vanished anchor
    # (3) the carrier is re-raised into the funnel in the main process
    run = repo.fn(RUNNER, "ParallelRunner.run")
    rcfg = cfg_of(run)
    ok = False
    for t in [n for n in walk_local(run) if isinstance(n, ast.Try)]:
        if any(isinstance(c, ast.Call) and last_attr(c) == "reraise" for s in t.body for c in ast.walk(s)):
            for h in t.handlers:
                if any(
                    isinstance(s, ast.Expr) and isinstance(s.value, ast.Call) and last_attr(s.value) == "_handle_lint_path_exception" for s in h.body
                ) and _feeds_funnel(rcfg, h, funnel_params, carrier_params):
                    ok = True
    chk.require(ok, "R24d", run, "a DelayedException from a worker is not re-raised into the shared funnel in the main process", detail="carrier re-raised into funnel")
    rr = repo.fn(RUNNER, "DelayedException.reraise")
    rrcfg = cfg_of(rr)
    ok = any(isinstance(n, ast.Raise) and n.exc is not None and _mentions(rrcfg, n.exc, n, "self.ee") for n in walk_local(rr))
    chk.require(ok, "R24d", rr, "DelayedException.reraise does not raise the carried exception", detail="carrier raises carried exception")


def _self_attr(t):
    return t.attr if isinstance(t, ast.Attribute) and isinstance(t.value, ast.Name) and t.value.id == "self" else None


def _split_on_param(s: ast.If, p: str):
    """(statements run when p is truthy, statements run when it is falsy) for `if p:` / `if not p:`."""
    if isinstance(s.test, ast.Name) and s.test.id == p:
        return s.body, s.orelse
    if isinstance(s.test, ast.UnaryOp) and isinstance(s.test.op, ast.Not) and isinstance(s.test.operand, ast.Name) and s.test.operand.id == p:
        return s.orelse, s.body
    return None


def _derived_only_param(init, p, const, args, params) -> bool:
    """May __reduce__ pass the literal `const` for constructor parameter `p`?

    Yes exactly when doing so rebuilds the same object state: `const` is p's
    (falsy) default, p is consumed only by `if p: <derive attrs from p> else:
    <attrs from other parameters>` statements of __init__, and every attribute
    the true-branch derives from p is assigned in the else-branch directly from
    a parameter q whose position in the __reduce__ tuple carries that very
    attribute.  (SQLBaseError: pos -> line_no/line_pos, which are pickled.)"""
    pos = init.args.args[1:]
    defaults = dict(zip([a.arg for a in pos[len(pos) - len(init.args.defaults):]], init.args.defaults))
    defaults.update({a.arg: d for a, d in zip(init.args.kwonlyargs, init.args.kw_defaults) if d is not None})
    d = defaults.get(p)
    if not (isinstance(d, ast.Constant) and d.value == const.value and type(d.value) is type(const.value) and not const.value):
        return False
    guards = [s for s in ast.walk(init) if isinstance(s, ast.If) and _split_on_param(s, p) is not None]
    covered = {id(x) for s in guards for x in ast.walk(s.test)}
    for g in guards:
        for st in _split_on_param(g, p)[0]:
            covered.update(id(x) for x in ast.walk(st))
    uses = [x for x in ast.walk(init) if isinstance(x, ast.Name) and x.id == p]
    if not guards or any(id(x) not in covered for x in uses):
        return False
    carried = {q: _self_attr(a) for a, q in zip(args, params)}
    for g in guards:
        derived = set()
        when_set, when_unset = _split_on_param(g, p)
        for st in when_set:
            for x in ast.walk(st):
                if isinstance(x, (ast.Assign, ast.AugAssign, ast.AnnAssign)):
                    tgts = x.targets if isinstance(x, ast.Assign) else [x.target]
                    for t in tgts:
                        for e in (t.elts if isinstance(t, (ast.Tuple, ast.List)) else [t]):
                            if _self_attr(e):
                                derived.add(_self_attr(e))
                elif isinstance(x, ast.Call):
                    r = x.func
                    while isinstance(r, ast.Attribute):
                        r = r.value
                    if not (isinstance(x.func, ast.Attribute) and isinstance(r, ast.Name) and r.id == p):
                        return False  # only methods of p itself: any other call may set state the else-branch does not replay
        restored = {}
        for st in when_unset:
            tgt = st.targets[0] if isinstance(st, ast.Assign) and len(st.targets) == 1 else st.target if isinstance(st, ast.AnnAssign) else None
            if tgt is not None and _self_attr(tgt) and isinstance(st.value, ast.Name):
                restored[_self_attr(tgt)] = st.value.id
        for attr in derived:
            q = restored.get(attr)
            if q is None or carried.get(q) != attr:
                return False
    return True


def _r24f(chk, repo) -> None:
    """Results travel back from workers by pickling: every error class with a
    custom __reduce__ must hand *all* constructor inputs back to its constructor,
    in order (otherwise e.g. the ignore/warning flags set in the worker are lost
    in the parent, and exit codes differ with the number of processes)."""
    chk.rule("R24f", "every error class with a custom __reduce__ round-trips all constructor parameters, in order (worker results are pickled back to the parent)")
    ERR = "src/sqlfluff/core/errors.py"
    m = repo.mod(ERR)
    n = 0
    for q, c in m.classes():
        red = next((i for i in c.body if isinstance(i, FuncNode) and i.name == "__reduce__"), None)
        if red is None:
            continue
        n += 1
        init = repo.lookup_method(m, c, "__init__")
        params = [a.arg for a in init[1].args.args[1:]] + [a.arg for a in init[1].args.kwonlyargs] if init else []
        # attribute <- parameter map from __init__ bodies along the MRO
        attr_of = {}
        for mm, cc in repo.mro(m, c):
            for item in cc.body:
                if isinstance(item, FuncNode) and item.name == "__init__":
                    for st in ast.walk(item):
                        if isinstance(st, (ast.Assign, ast.AnnAssign)) and st.value is not None:
                            tgt = st.targets[0] if isinstance(st, ast.Assign) else st.target
                            if _self_attr(tgt):
                                for nm in [x.id for x in ast.walk(st.value) if isinstance(x, ast.Name)]:
                                    attr_of.setdefault(tgt.attr, set()).add(nm)
        rets = [r for r in walk_local(red) if isinstance(r, ast.Return)]
        rcfg = cfg_of(red)
        ok, why = True, ""
        # every (callable, (args...)) pair that may be returned; the pair or the argument tuple may be bound to a local first
        arg_tuples = []
        for r in rets:
            for o in (origins(rcfg, r.value, r) if r.value is not None else []):
                v = o.expr
                inner = []
                if o.kind == "expr" and not o.path and isinstance(v, ast.Tuple) and len(v.elts) == 2:
                    inner = [oo.expr for oo in origins(rcfg, v.elts[1], o.stmt) if oo.kind == "expr" and not oo.path and isinstance(oo.expr, ast.Tuple)]
                    if len(inner) != len(origins(rcfg, v.elts[1], o.stmt)):
                        inner = []
                if not inner:
                    ok, why = False, "__reduce__ does not return (type(self), (args...))"
                arg_tuples += inner
        for tup in (arg_tuples if ok else []):
            args = tup.elts
            if len(args) != len(params):
                ok, why = False, f"__reduce__ passes {len(args)} values but __init__ takes {len(params)} parameters {params}: the missing ones are reset to their defaults when a result comes back from a worker"
                break
            for a, p in zip(args, params):
                good = isinstance(a, ast.Attribute) and isinstance(a.value, ast.Name) and a.value.id == "self" and (a.attr == p or p in attr_of.get(a.attr, ()))
                if not good and isinstance(a, ast.Constant):
                    good = _derived_only_param(init[1], p, a, args, params)
                if not good:
                    ok, why = False, f"__reduce__ passes {norm(a)} in the position of constructor parameter '{p}'"
                    break
        chk.require(ok and bool(rets) and bool(arg_tuples), "R24f", red, f"{c.name}: {why or 'no return in __reduce__'}", detail=f"{c.name}.__reduce__ round-trips constructor inputs")
        chk.sample({"rule": "R24f", "class": c.name, "params": params})
    chk.count("R24f.reduce_methods", n)
    chk.floor("R24f.reduce_methods", 3)


from ..selftest import Variant  # noqa: E402

ERRORS = "src/sqlfluff/core/errors.py"

_FUNNEL_WARNING = (
    "        linter_logger.warning(\n"
    "            f\"\"\"Unable to lint {fname} due to an internal error. \\\n"
    "Please report this as an issue with your query's contents and stacktrace below!\n"
    "To hide this warning, add the failing file to .sqlfluffignore\n"
    "{traceback.format_exc()}\"\"\",\n"
    "        )\n"
)

_FUNNEL_WARNING_INDENTED = (
    "            linter_logger.warning(\n"
    "                f\"\"\"Unable to lint {fname} due to an internal error. \\\n"
    "Please report this as an issue with your query's contents and stacktrace below!\n"
    "To hide this warning, add the failing file to .sqlfluffignore\n"
    "{traceback.format_exc()}\"\"\",\n"
    "            )\n"
)
_FUNNEL_RAISE = (
    "        if isinstance(e, (IOError, SQLFluffUserError)):\n"
    "            # IOErrors and user errors are caught in commands.py, so\n"
    "            # propagate them (regardless of which runner is in use).\n"
    "            raise (e)  # pragma: no cover\n"
)
_APPLY_COMMENT = (
    "                # FluffConfig.__getstate__ strips templater_obj to None before\n"
    "                # pickling (it's designed for main-process use only). Since we\n"
    "                # are deliberately rendering here in the worker, re-instantiate\n"
    "                # the templater from the config's templater name.\n"
)

VARIANTS = [
    Variant(
        "parallel-dispatch-skips-large-files-with-the-root-limit", RUNNER,
        "            ):\n                yield (\n                    fname,\n                    DeferredRenderTask(\n",
        "            ):\n                if len(fname) > int(self.config.get(\"large_file_skip_byte_limit\") or 0) > 0:\n                    continue\n                yield (\n                    fname,\n                    DeferredRenderTask(\n",
        "R24h", "ParallelRunner.iter_partials", "seeded C24-8 family: a file dropped at dispatch under the run-wide config",
    ),
    Variant(
        "rule-pack-memoised-on-the-linter", LINTER,
        "        cfg = config or self.config\n        return rs.get_rulepack(config=cfg)\n",
        "        cfg = config or self.config\n        key = (cfg.get(\"dialect\"), tuple(cfg.get(\"rule_allowlist\") or ()))\n        cache = self.__dict__.setdefault(\"_rulepacks\", {})\n        if key not in cache:\n            self._rulepacks[key] = rs.get_rulepack(config=cfg)\n        return cache[key]\n",
        "R24g", "get_rulepack", "seeded C24-5 (same shape): the first file's rule options stick for the rest of a serial run",
    ),
    # behaviour-preserving refactors: must stay quiet (R24h sweep)
    Variant(
        'quiet-dispatch-as-a-generator-expression', RUNNER,
        '            for fname in self.linter.templater.sequence_files(\n                fnames, config=self.config, formatter=None\n            ):\n                yield (\n                    fname,\n                    DeferredRenderTask(\n                        fname, self.config, fix, tuple(self.linter.user_rules)\n                    ),\n                )\n',
        '            yield from (\n                (fname, DeferredRenderTask(fname, self.config, fix, tuple(self.linter.user_rules)))\n                for fname in self.linter.templater.sequence_files(\n                    fnames, config=self.config, formatter=None\n                )\n            )\n',
        'QUIET', None, 'R24h: the loop as a generator expression without a filter',
    ),
    Variant(
        'quiet-dispatch-task-and-sequence-through-locals', RUNNER,
        '            for fname in self.linter.templater.sequence_files(\n                fnames, config=self.config, formatter=None\n            ):\n                yield (\n                    fname,\n                    DeferredRenderTask(\n                        fname, self.config, fix, tuple(self.linter.user_rules)\n                    ),\n                )\n',
        '            sequenced = self.linter.templater.sequence_files(\n                fnames, config=self.config, formatter=None\n            )\n            user_rules = tuple(self.linter.user_rules)\n            for path in sequenced:\n                task = DeferredRenderTask(path, self.config, fix, user_rules)\n                yield path, task\n',
        'QUIET', None, 'R24h: sequence, task and loop variable through locals',
    ),
    Variant(
        'quiet-dispatch-loop-in-a-helper-generator', RUNNER,
        '            for fname in self.linter.templater.sequence_files(\n                fnames, config=self.config, formatter=None\n            ):\n                yield (\n                    fname,\n                    DeferredRenderTask(\n                        fname, self.config, fix, tuple(self.linter.user_rules)\n                    ),\n                )\n',
        '            yield from self._deferred_tasks(fnames, fix)\n        else:\n            yield from super().iter_partials(fnames, fix=fix)\n\n    def _deferred_tasks(self, fnames, fix):\n        """One deferred task per sequenced file."""\n        if True:\n            for fname in self.linter.templater.sequence_files(\n                fnames, config=self.config, formatter=None\n            ):\n                yield (\n                    fname,\n                    DeferredRenderTask(\n                        fname, self.config, fix, tuple(self.linter.user_rules)\n                    ),\n                )\n',
        'QUIET', None, 'R24h: the loop moved into a helper generator of the same class',
    ),
    Variant(
        'quiet-dispatch-early-return-for-main-process-templaters', RUNNER,
        '        if self.linter.templater.templates_in_worker:\n            for fname in self.linter.templater.sequence_files(\n                fnames, config=self.config, formatter=None\n            ):\n                yield (\n                    fname,\n                    DeferredRenderTask(\n                        fname, self.config, fix, tuple(self.linter.user_rules)\n                    ),\n                )\n        else:\n            yield from super().iter_partials(fnames, fix=fix)\n',
        '        if not self.linter.templater.templates_in_worker:\n            yield from super().iter_partials(fnames, fix=fix)\n            return\n        for fname in self.linter.templater.sequence_files(\n            fnames, config=self.config, formatter=None\n        ):\n            yield (\n                fname,\n                DeferredRenderTask(\n                    fname, self.config, fix, tuple(self.linter.user_rules)\n                ),\n            )\n',
        'QUIET', None, 'R24h: if/else as an early return',
    ),
    Variant(
        'quiet-serial-dispatch-partial-through-a-local-and-logging', RUNNER,
        "        for fname, rendered in self.iter_rendered(fnames):\n            # Generate a fresh ruleset\n            rule_pack = self.linter.get_rulepack(config=rendered.config)\n            yield (\n                fname,\n                functools.partial(\n                    self.linter.lint_rendered,\n                    rendered,\n                    rule_pack,\n                    fix,\n                    # Formatters may or may not be passed. They don't pickle\n                    # nicely so aren't appropriate in a multiprocessing world.\n                    self.linter.formatter if self.pass_formatter else None,\n                ),\n            )\n",
        '        for fname, rendered in self.iter_rendered(fnames):\n            # Generate a fresh ruleset\n            rule_pack = self.linter.get_rulepack(config=rendered.config)\n            if self.pass_formatter:\n                formatter = self.linter.formatter\n            else:\n                formatter = None\n            partial = functools.partial(\n                self.linter.lint_rendered, rendered, rule_pack, fix, formatter\n            )\n            yield fname, partial\n',
        'QUIET', None, 'R24h: a branch in the loop body that does not skip the yield',
    ),
    # breaking twins of the spellings above
    Variant(
        'dispatch-generator-expression-with-a-filter', RUNNER,
        '            for fname in self.linter.templater.sequence_files(\n                fnames, config=self.config, formatter=None\n            ):\n                yield (\n                    fname,\n                    DeferredRenderTask(\n                        fname, self.config, fix, tuple(self.linter.user_rules)\n                    ),\n                )\n',
        '            yield from (\n                (fname, DeferredRenderTask(fname, self.config, fix, tuple(self.linter.user_rules)))\n                for fname in self.linter.templater.sequence_files(\n                    fnames, config=self.config, formatter=None\n                )\n                if not fname.endswith(".jinja")\n            )\n',
        'R24h', 'ParallelRunner.iter_partials', 'generator twin: a filter drops files at dispatch',
    ),
    Variant(
        'dispatch-helper-generator-skips-files', RUNNER,
        '            for fname in self.linter.templater.sequence_files(\n                fnames, config=self.config, formatter=None\n            ):\n                yield (\n                    fname,\n                    DeferredRenderTask(\n                        fname, self.config, fix, tuple(self.linter.user_rules)\n                    ),\n                )\n',
        '            yield from self._deferred_tasks(fnames, fix)\n        else:\n            yield from super().iter_partials(fnames, fix=fix)\n\n    def _deferred_tasks(self, fnames, fix):\n        """One deferred task per sequenced file."""\n        if True:\n            for fname in self.linter.templater.sequence_files(\n                fnames, config=self.config, formatter=None\n            ):\n                if self.config.get("ignore_templated_areas") and fname.startswith("_"):\n                    continue\n                yield (\n                    fname,\n                    DeferredRenderTask(\n                        fname, self.config, fix, tuple(self.linter.user_rules)\n                    ),\n                )\n',
        'R24h', 'ParallelRunner.iter_partials', 'helper twin: the helper generator drops a file',
    ),
    Variant(
        'dispatch-helper-generator-counts-a-skip', RUNNER,
        '            for fname in self.linter.templater.sequence_files(\n                fnames, config=self.config, formatter=None\n            ):\n                yield (\n                    fname,\n                    DeferredRenderTask(\n                        fname, self.config, fix, tuple(self.linter.user_rules)\n                    ),\n                )\n',
        '            yield from self._deferred_tasks(fnames, fix)\n        else:\n            yield from super().iter_partials(fnames, fix=fix)\n\n    def _deferred_tasks(self, fnames, fix):\n        """One deferred task per sequenced file."""\n        if True:\n            for fname in self.linter.templater.sequence_files(\n                fnames, config=self.config, formatter=None\n            ):\n                if not fname:\n                    self.linter.skipped_file_count += 1\n                yield (\n                    fname,\n                    DeferredRenderTask(\n                        fname, self.config, fix, tuple(self.linter.user_rules)\n                    ),\n                )\n',
        'R24h', 'ParallelRunner.iter_partials', 'helper twin: a skip counted in the helper generator',
    ),
    # behaviour-preserving refactors: must stay quiet
    Variant("quiet-worker-rule-pack-through-locals", RUNNER,
            "                rule_pack = linter.get_rulepack(config=rendered.config)\n                return Linter.lint_rendered(rendered, rule_pack, task.fix, None)\n",
            "                pack_for_file = linter.get_rulepack(config=rendered.config)\n                rule_pack = pack_for_file\n                return Linter.lint_rendered(rendered, rule_pack, task.fix, None)\n",
            "QUIET", None, "rule pack passed through a second local"),
    Variant("quiet-worker-filename-and-fix-through-locals", RUNNER,
            "                rendered = linter.render_file(task.fname, task.root_config)\n"
            "                rule_pack = linter.get_rulepack(config=rendered.config)\n"
            "                return Linter.lint_rendered(rendered, rule_pack, task.fix, None)\n",
            "                task_file = task.fname\n"
            "                fix_flag = task.fix\n"
            "                rendered = linter.render_file(task_file, task.root_config)\n"
            "                rule_pack = linter.get_rulepack(config=rendered.config)\n"
            "                return Linter.lint_rendered(rendered, rule_pack, fix_flag, None)\n",
            "QUIET", None, "the task's filename and fix flag are read into locals first"),
    Variant("quiet-worker-root-config-through-local", RUNNER,
            "                linter = Linter(\n                    config=task.root_config, user_rules=list(task.user_rules)\n                )\n" + _APPLY_COMMENT
            + "                linter.templater = task.root_config.get_templater()\n                rendered = linter.render_file(task.fname, task.root_config)\n",
            "                root = task.root_config\n                linter = Linter(config=root, user_rules=list(task.user_rules))\n"
            "                linter.templater = root.get_templater()\n                rendered = linter.render_file(task.fname, root)\n",
            "QUIET", None, "task.root_config read once into a local and used for the Linter, the templater and the rendering"),
    Variant("quiet-worker-linter-positional-config-rules-local", RUNNER,
            "                linter = Linter(\n                    config=task.root_config, user_rules=list(task.user_rules)\n                )\n",
            "                worker_rules = list(task.user_rules)\n                linter = Linter(task.root_config, user_rules=worker_rules)\n",
            "QUIET", None, "config passed positionally (first parameter), user rules through a local"),
    Variant("quiet-worker-templater-through-local", RUNNER,
            "                linter.templater = task.root_config.get_templater()\n",
            "                fresh_templater = task.root_config.get_templater()\n                linter.templater = fresh_templater\n",
            "QUIET", None, "re-created templater held in a local"),
    Variant("quiet-worker-calls-with-keywords", RUNNER,
            "                rendered = linter.render_file(task.fname, task.root_config)\n"
            "                rule_pack = linter.get_rulepack(config=rendered.config)\n"
            "                return Linter.lint_rendered(rendered, rule_pack, task.fix, None)\n",
            "                rendered = linter.render_file(fname=task.fname, root_config=task.root_config)\n"
            "                rule_pack = linter.get_rulepack(rendered.config)\n"
            "                return Linter.lint_rendered(rendered=rendered, rule_pack=rule_pack, fix=task.fix, formatter=None)\n",
            "QUIET", None, "keyword <-> positional arguments"),
    Variant("quiet-serial-file-config-through-local", RUNNER,
            "            rule_pack = self.linter.get_rulepack(config=rendered.config)\n            yield (\n",
            "            file_config = rendered.config\n            rule_pack = self.linter.get_rulepack(config=file_config)\n            yield (\n",
            "QUIET", None, "per-file config of the rendering read into a local"),
    Variant("quiet-partial-callee-hoisted", RUNNER,
            "            rule_pack = self.linter.get_rulepack(config=rendered.config)\n            yield (\n                fname,\n                functools.partial(\n                    self.linter.lint_rendered,\n",
            "            rule_pack = self.linter.get_rulepack(config=rendered.config)\n            lint_one = self.linter.lint_rendered\n            yield (\n                fname,\n                functools.partial(\n                    lint_one,\n",
            "QUIET", None, "bound lint method hoisted into a local before building the partial"),
    Variant("quiet-deferred-packet-keywords", RUNNER,
            "                    DeferredRenderTask(\n                        fname, self.config, fix, tuple(self.linter.user_rules)\n                    ),",
            "                    DeferredRenderTask(\n                        fname=fname, root_config=self.config, fix=fix, user_rules=tuple(self.linter.user_rules)\n                    ),",
            "QUIET", None, "packet fields by keyword"),
    Variant("quiet-deferred-packet-fields-through-locals", RUNNER,
            "                yield (\n                    fname,\n                    DeferredRenderTask(\n                        fname, self.config, fix, tuple(self.linter.user_rules)\n                    ),\n                )\n",
            "                rules_for_worker = tuple(self.linter.user_rules)\n                root_config = self.config\n"
            "                packet = DeferredRenderTask(fname, root_config, fix, rules_for_worker)\n                yield (fname, packet)\n",
            "QUIET", None, "packet fields and the packet itself held in locals"),
    Variant("quiet-iter-rendered-root-config-local", RUNNER,
            "                yield fname, self.linter.render_file(fname, self.config)\n",
            "                root_config = self.config\n                rendered = self.linter.render_file(fname, root_config)\n                yield fname, rendered\n",
            "QUIET", None, "root config and rendering through locals"),
    Variant("quiet-sequence-files-positional-config", RUNNER,
            "            fnames, config=self.config, formatter=self.linter.formatter\n",
            "            fnames, self.config, formatter=self.linter.formatter\n",
            "QUIET", None, "config is the second positional parameter of sequence_files"),
    Variant("quiet-result-dir-lookup-inline", LINTER,
            "                linted_dir = expanded_path_to_linted_dir[linted_file.path]\n                linted_dir.add(linted_file)\n",
            "                expanded_path_to_linted_dir[linted_file.path].add(linted_file)\n",
            "QUIET", None, "directory lookup inlined into the add call"),
    Variant("quiet-result-path-through-local", LINTER,
            "                linted_dir = expanded_path_to_linted_dir[linted_file.path]\n",
            "                own_path = linted_file.path\n                linted_dir = expanded_path_to_linted_dir[own_path]\n",
            "QUIET", None, "the result's own path read into a local before the lookup"),
    Variant("quiet-skip-counter-through-local", LINTER,
            "        result.files_skipped = runner.skipped_file_count\n",
            "        skipped_total = runner.skipped_file_count\n        result.files_skipped = skipped_total\n",
            "QUIET", None, "skip counter through a local, still read after the stream"),
    Variant("quiet-records-sorted-through-local", LRES,
            "        return sorted(\n            (record for linted_dir in self.paths for record in linted_dir.as_records()),\n            # Sort records by filename\n            key=lambda record: record[\"filepath\"],\n        )",
            "        records = sorted(\n            (record for linted_dir in self.paths for record in linted_dir.as_records()),\n            # Sort records by filename\n            key=lambda record: record[\"filepath\"],\n        )\n        return records",
            "QUIET", None, "sorted list bound to a local before returning"),
    Variant("quiet-getstate-nested-copies-through-locals", FCONF,
            "        state[\"_configs\"] = state[\"_configs\"].copy()\n        state[\"_configs\"][\"core\"] = state[\"_configs\"][\"core\"].copy()\n        state[\"_configs\"][\"core\"][\"templater_obj\"] = None\n",
            "        configs = state[\"_configs\"].copy()\n        core = configs[\"core\"].copy()\n        core[\"templater_obj\"] = None\n        configs[\"core\"] = core\n        state[\"_configs\"] = configs\n",
            "QUIET", None, "nested dict copies edited through locals, then stored back"),
    Variant("quiet-getstate-dict-constructor-and-pop", FCONF,
            "        state = self.__dict__.copy()\n        # Remove the unpicklable entries.\n        del state[\"_plugin_manager\"]\n",
            "        state = dict(self.__dict__)\n        # Remove the unpicklable entries.\n        state.pop(\"_plugin_manager\")\n",
            "QUIET", None, "dict(d) is d.copy(); pop(k) without default is del d[k]"),
    Variant("quiet-setstate-plugin-manager-through-local", FCONF,
            "        self._plugin_manager = get_plugin_manager()\n",
            "        fresh_manager = get_plugin_manager()\n        self._plugin_manager = fresh_manager\n",
            "QUIET", None, "fresh plugin manager through a local"),
    Variant("quiet-funnel-test-in-boolean-local", RUNNER,
            "        if isinstance(e, (IOError, SQLFluffUserError)):\n",
            "        propagate = isinstance(e, (IOError, SQLFluffUserError))\n        if propagate:\n",
            "QUIET", None, "re-raise test hoisted into a boolean local"),
    Variant("quiet-funnel-or-of-isinstance", RUNNER,
            "        if isinstance(e, (IOError, SQLFluffUserError)):\n",
            "        if isinstance(e, IOError) or isinstance(e, SQLFluffUserError):\n",
            "QUIET", None, "isinstance with a tuple spelled as a disjunction"),
    Variant("quiet-funnel-elif", RUNNER,
            _FUNNEL_RAISE,
            "        if isinstance(e, IOError):\n            raise e\n        elif isinstance(e, SQLFluffUserError):\n            raise e\n",
            "QUIET", None, "if/elif instead of a tuple of classes"),
    Variant("quiet-funnel-log-branch-first", RUNNER,
            _FUNNEL_RAISE + _FUNNEL_WARNING,
            "        if not isinstance(e, (IOError, SQLFluffUserError)):\n" + _FUNNEL_WARNING_INDENTED + "            return\n        raise e\n",
            "QUIET", None, "inverted test: log and return early, otherwise re-raise"),
    Variant("quiet-handler-funnel-keywords", RUNNER,
            "            except Exception as e:\n                self._handle_lint_path_exception(fname, e)\n",
            "            except Exception as e:\n                self._handle_lint_path_exception(fname=fname, e=e)\n",
            "QUIET", None, "funnel called with keyword arguments"),
    Variant("quiet-handler-caught-through-local", RUNNER,
            "            except Exception as e:\n                self._handle_lint_path_exception(fname, e)\n",
            "            except Exception as e:\n                caught = e\n                self._handle_lint_path_exception(fname, caught)\n",
            "QUIET", None, "caught exception passed through a local"),
    Variant("quiet-worker-carrier-through-local", RUNNER,
            "        except Exception as e:\n            return DelayedException(e, fname=fname)",
            "        except Exception as e:\n            carrier = DelayedException(ee=e, fname=fname)\n            return carrier",
            "QUIET", None, "carrier built with keywords, bound to a local, then returned"),
    Variant("quiet-reraise-through-local", RUNNER,
            "        raise self.ee.with_traceback(self.tb)\n",
            "        carried = self.ee\n        raise carried.with_traceback(self.tb)\n",
            "QUIET", None, "carried exception read into a local"),
    Variant("quiet-lint-error-reduce-args-through-local", ERRORS,
            "        return type(self), (\n            self.description,\n            self.segment,\n            self.rule,\n            self.fixes,\n            self.ignore,\n            self.fatal,\n            self.warning,\n        )",
            "        ctor_args = (\n            self.description,\n            self.segment,\n            self.rule,\n            self.fixes,\n            self.ignore,\n            self.fatal,\n            self.warning,\n        )\n        return type(self), ctor_args",
            "QUIET", None, "constructor argument tuple bound to a local"),
    Variant("quiet-parse-error-reduce-result-through-local", ERRORS,
            "        return type(self), (\n            self.description,\n            self.segment,\n            self.line_no,\n            self.line_pos,\n            self.ignore,\n            self.fatal,\n            self.warning,\n        )",
            "        rebuilt = (type(self), (\n            self.description,\n            self.segment,\n            self.line_no,\n            self.line_pos,\n            self.ignore,\n            self.fatal,\n            self.warning,\n        ))\n        return rebuilt",
            "QUIET", None, "whole (callable, args) pair bound to a local"),
    Variant("quiet-base-error-guard-flipped", ERRORS,
            "        if pos:\n            self.line_no, self.line_pos = pos.source_position()\n        else:\n            self.line_no = line_no\n            self.line_pos = line_pos\n",
            "        if not pos:\n            self.line_no = line_no\n            self.line_pos = line_pos\n        else:\n            self.line_no, self.line_pos = pos.source_position()\n",
            "QUIET", None, "branches of the pos test swapped"),
    Variant("quiet-base-error-position-unpacked-by-index", ERRORS,
            "            self.line_no, self.line_pos = pos.source_position()\n",
            "            where = pos.source_position()\n            self.line_no = where[0]\n            self.line_pos = where[1]\n",
            "QUIET", None, "tuple unpacking <-> indexing"),
    Variant("quiet-serial-deferred-task-alias", RUNNER,
            "                    rendered = self.linter.render_file(\n                        partial.fname, partial.root_config\n                    )\n"
            "                    rule_pack = self.linter.get_rulepack(config=rendered.config)\n"
            "                    yield self.linter.lint_rendered(\n                        rendered, rule_pack, partial.fix, self.linter.formatter\n                    )\n",
            "                    task = partial\n                    rendered = self.linter.render_file(task.fname, partial.root_config)\n"
            "                    rule_pack = self.linter.get_rulepack(config=rendered.config)\n"
            "                    linted = self.linter.lint_rendered(\n                        rendered, rule_pack, task.fix, self.linter.formatter\n                    )\n                    yield linted\n",
            "QUIET", None, "the packet under a second name; the linted file bound to a local before the yield"),
    Variant("quiet-worker-packet-by-index", RUNNER,
            "        fname, task = partial_tuple\n",
            "        fname = partial_tuple[0]\n        task = partial_tuple[1]\n",
            "QUIET", None, "tuple unpacking <-> indexing"),
    Variant("quiet-worker-linter-annotated", RUNNER,
            "                linter = Linter(\n                    config=task.root_config, user_rules=list(task.user_rules)\n                )\n",
            "                linter: Linter = Linter(\n                    config=task.root_config, user_rules=list(task.user_rules)\n                )\n",
            "QUIET", None, "annotated assignment of the rebuilt Linter"),
    Variant("quiet-sequence-files-iterable-through-local", RUNNER,
            "        for fname in self.linter.templater.sequence_files(\n            fnames, config=self.config, formatter=self.linter.formatter\n        ):\n",
            "        ordered = self.linter.templater.sequence_files(\n            fnames, config=self.config, formatter=self.linter.formatter\n        )\n        for fname in ordered:\n",
            "QUIET", None, "iterable bound to a local before the loop"),
    Variant("quiet-result-stream-enumerate-through-local", LINTER,
            "            for i, linted_file in enumerate(runner_iterator, start=1):\n",
            "            numbered = enumerate(runner_iterator, start=1)\n            for i, linted_file in numbered:\n",
            "QUIET", None, "enumerate(...) bound to a local before the loop"),
    Variant("quiet-paths-from-path-through-local", LINTER,
            "            for fname in paths_from_path(\n                path,\n                ignore_non_existent_files=ignore_non_existent_files,\n                ignore_files=ignore_files,\n                target_file_exts=sql_exts,\n            ):\n",
            "            found = paths_from_path(\n                path,\n                ignore_non_existent_files=ignore_non_existent_files,\n                ignore_files=ignore_files,\n                target_file_exts=sql_exts,\n            )\n            for fname in found:\n",
            "QUIET", None, "discovered files bound to a local before the loop"),
    Variant("quiet-base-error-else-annotated", ERRORS,
            "            self.line_no = line_no\n            self.line_pos = line_pos\n",
            "            self.line_no: int = line_no\n            self.line_pos: int = line_pos\n",
            "QUIET", None, "annotated attribute assignments in the replaying branch"),
    # breaking edits written in the idioms the QUIET variants use (the generalised matchers must keep their teeth)
    Variant("worker-fix-flag-local-constant", RUNNER,
            "                return Linter.lint_rendered(rendered, rule_pack, task.fix, None)",
            "                fix_flag = False\n                return Linter.lint_rendered(rendered, rule_pack, fix_flag, None)", "R24a", "lint_rendered fix flag"),
    Variant("worker-root-config-local-from-linter", RUNNER,
            "                rendered = linter.render_file(task.fname, task.root_config)",
            "                root = linter.config\n                rendered = linter.render_file(task.fname, root)", "R24a", "render_file root config"),
    Variant("worker-fields-of-two-different-packets", RUNNER,
            "                rendered = linter.render_file(task.fname, task.root_config)",
            "                other = DeferredRenderTask(fname, linter.config, False)\n                rendered = linter.render_file(task.fname, other.root_config)", "R24a", "render_file root config",
            "root_config read from another packet than the filename"),
    Variant("serial-rule-pack-local-from-root-config", RUNNER,
            "            rule_pack = self.linter.get_rulepack(config=rendered.config)\n            yield (\n",
            "            file_config = self.config\n            rule_pack = self.linter.get_rulepack(config=file_config)\n            yield (\n", "R24a", "iter_partials"),
    Variant("partial-ignores-fix-flag", RUNNER,
            "                    fix,\n                    # Formatters may or may not be passed.",
            "                    False,\n                    # Formatters may or may not be passed.", "R24a", "partial fix flag"),
    Variant("deferred-packet-keywords-linter-config", RUNNER,
            "                        fname, self.config, fix, tuple(self.linter.user_rules)",
            "                        fname=fname, root_config=self.linter.config, fix=fix, user_rules=tuple(self.linter.user_rules)", "R24a", "deferred packet fields"),
    Variant("deferred-packet-user-rules-local-empty", RUNNER,
            "                yield (\n                    fname,\n                    DeferredRenderTask(\n                        fname, self.config, fix, tuple(self.linter.user_rules)\n                    ),\n                )\n",
            "                rules_for_worker = ()\n                yield (fname, DeferredRenderTask(fname, self.config, fix, rules_for_worker))\n", "R24a", "deferred packet user rules"),
    Variant("sequence-files-positional-linter-config", RUNNER,
            "            fnames, config=self.config, formatter=self.linter.formatter\n",
            "            fnames, self.linter.config, formatter=self.linter.formatter\n", "R24a", "sequence_files config"),
    Variant("worker-templater-local-from-default-config", RUNNER,
            "                linter.templater = task.root_config.get_templater()\n",
            "                fresh_templater = linter.config.get_templater()\n                linter.templater = fresh_templater\n", "R24e", "worker templater re-created",
            "linter.config is the same object today, but the rule asks for the config the worker was given"),
    Variant("worker-linter-config-not-from-packet", RUNNER,
            "                    config=task.root_config, user_rules=list(task.user_rules)\n",
            "                    config=FluffConfig(overrides={\"dialect\": \"ansi\"}), user_rules=list(task.user_rules)\n", "R24e", "worker Linter config from task"),
    Variant("result-path-local-by-arrival-index", LINTER,
            "                linted_dir = expanded_path_to_linted_dir[linted_file.path]\n",
            "                own_path = expanded_paths[i - 1]\n                linted_dir = expanded_path_to_linted_dir[own_path]\n", "R24b", "result filed by own path"),
    Variant("skip-counter-not-from-runner", LINTER,
            "        result.files_skipped = runner.skipped_file_count\n",
            "        result.files_skipped = files_count - len(result.files)\n", "R24b", "skip counter after stream"),
    Variant("records-sorted-local-then-reversed-key", LRES,
            "            key=lambda record: record[\"filepath\"],\n        )",
            "            key=lambda record: len(record[\"violations\"]),\n        )", "R24b", "records sorted by path"),
    Variant("getstate-local-core-not-copied", FCONF,
            "        state[\"_configs\"] = state[\"_configs\"].copy()\n        state[\"_configs\"][\"core\"] = state[\"_configs\"][\"core\"].copy()\n        state[\"_configs\"][\"core\"][\"templater_obj\"] = None\n",
            "        configs = state[\"_configs\"].copy()\n        core = configs[\"core\"]\n        core[\"templater_obj\"] = None\n        state[\"_configs\"] = configs\n", "R24c", "getstate copies before editing",
            "the inner dict reached through a local is still the live one"),
    Variant("getstate-replaces-core-section", FCONF,
            "        state[\"_configs\"][\"core\"][\"templater_obj\"] = None\n",
            "        state[\"_configs\"][\"core\"] = {\"templater_obj\": None}\n", "R24c", "getstate nulls templater_obj only"),
    Variant("getstate-pops-overrides-too", FCONF,
            "        del state[\"_plugin_manager\"]\n",
            "        state.pop(\"_plugin_manager\")\n        state.pop(\"_overrides\")\n", "R24c", "getstate deletes plugin manager only"),
    Variant("funnel-reraise-also-needs-no-filename", RUNNER,
            "        if isinstance(e, (IOError, SQLFluffUserError)):\n",
            "        if isinstance(e, (IOError, SQLFluffUserError)) and fname is None:\n", "R24d", "funnel re-raises SQLFluffUserError",
            "the re-raise depends on something besides the class of the exception"),
    Variant("funnel-boolean-local-io-only", RUNNER,
            "        if isinstance(e, (IOError, SQLFluffUserError)):\n",
            "        propagate = isinstance(e, IOError)\n        if propagate:\n", "R24d", "funnel re-raises SQLFluffUserError"),
    Variant("funnel-conjunction-of-isinstance", RUNNER,
            "        if isinstance(e, (IOError, SQLFluffUserError)):\n",
            "        if isinstance(e, IOError) and isinstance(e, SQLFluffUserError):\n", "R24d", "funnel re-raises"),
    Variant("handler-passes-other-exception-through-local", RUNNER,
            "            except Exception as e:\n                self._handle_lint_path_exception(fname, e)\n",
            "            except Exception as e:\n                caught = RuntimeError(str(e))\n                self._handle_lint_path_exception(fname, caught)\n", "R24d", "catch-all feeds funnel"),
    Variant("reraise-raises-the-carrier", RUNNER,
            "        raise self.ee.with_traceback(self.tb)\n",
            "        carried = self\n        raise carried.with_traceback(self.tb)\n", "R24d", "carrier raises carried exception"),
    Variant("lint-error-reduce-local-tuple-drops-warning", ERRORS,
            "        return type(self), (\n            self.description,\n            self.segment,\n            self.rule,\n            self.fixes,\n            self.ignore,\n            self.fatal,\n            self.warning,\n        )",
            "        ctor_args = (\n            self.description,\n            self.segment,\n            self.rule,\n            self.fixes,\n            self.ignore,\n            self.fatal,\n        )\n        return type(self), ctor_args", "R24f", "SQLLintError"),
    Variant("base-error-flipped-guard-drops-line-pos", ERRORS,
            "        if pos:\n            self.line_no, self.line_pos = pos.source_position()\n        else:\n            self.line_no = line_no\n            self.line_pos = line_pos\n",
            "        if not pos:\n            self.line_no = line_no\n            self.line_pos = 0\n        else:\n            self.line_no, self.line_pos = pos.source_position()\n", "R24f", "SQLBaseError"),
    Variant("worker-rule-pack-from-root-config", RUNNER,
            "                rule_pack = linter.get_rulepack(config=rendered.config)\n",
            "                rule_pack = linter.get_rulepack(config=task.root_config)\n", "R24a", "_apply", "seeded C24-2"),
    Variant("serial-rule-pack-from-root-config", RUNNER,
            "            rule_pack = self.linter.get_rulepack(config=rendered.config)\n            yield (\n",
            "            rule_pack = self.linter.get_rulepack(config=self.config)\n            yield (\n", "R24a", "iter_partials"),
    Variant("base-error-pickle-loses-stored-pos", "src/sqlfluff/core/errors.py",
            "        self.description = description\n        if pos:",
            "        self.description = description\n        self.pos = pos\n        if pos:", "R24f", "SQLBaseError",
            "None for pos is only a round trip while pos is consumed by the guarded derivation alone"),
    Variant("base-error-pickle-else-drops-line-pos", "src/sqlfluff/core/errors.py",
            "            self.line_no = line_no\n            self.line_pos = line_pos\n",
            "            self.line_no = line_no\n            self.line_pos = 0\n", "R24f", "SQLBaseError",
            "line_pos derived from pos in the worker is reset when the pickled error is rebuilt with pos=None"),
    Variant("base-error-pickle-swaps-line-fields", "src/sqlfluff/core/errors.py",
            "            None,\n            self.line_no,\n            self.line_pos,",
            "            None,\n            self.line_pos,\n            self.line_no,", "R24f", "SQLBaseError"),
    Variant("base-error-pickle-nondefault-pos", "src/sqlfluff/core/errors.py",
            "            self.description,\n            None,\n            self.line_no,",
            "            self.description,\n            0,\n            self.line_no,", "R24f", "SQLBaseError",
            "only the parameter's own default selects the replaying branch by construction"),
    Variant("lint-error-pickle-drops-warning", "src/sqlfluff/core/errors.py",
            "            self.fixes,\n            self.ignore,\n            self.fatal,\n            self.warning,\n        )",
            "            self.fixes,\n            self.ignore,\n            self.fatal,\n        )", "R24f", "SQLLintError", "seeded C22-1"),
    Variant("parse-error-pickle-swaps-flags", "src/sqlfluff/core/errors.py",
            "            self.segment,\n            self.line_no,\n            self.line_pos,\n            self.ignore,\n            self.fatal,\n            self.warning,",
            "            self.segment,\n            self.line_no,\n            self.line_pos,\n            self.fatal,\n            self.ignore,\n            self.warning,", "R24f", "SQLParseError"),
    Variant("worker-renders-with-default-config", RUNNER,
            "                rendered = linter.render_file(task.fname, task.root_config)",
            "                rendered = linter.render_file(task.fname, linter.config.copy())", "R24a", "_apply"),
    Variant("worker-ignores-fix-flag", RUNNER,
            "                return Linter.lint_rendered(rendered, rule_pack, task.fix, None)",
            "                return Linter.lint_rendered(rendered, rule_pack, False, None)", "R24a", "_apply"),
    Variant("deferred-packet-without-user-rules", RUNNER,
            "                    DeferredRenderTask(\n                        fname, self.config, fix, tuple(self.linter.user_rules)\n                    ),",
            "                    DeferredRenderTask(fname, self.config, fix),", "R24a", "iter_partials", "the original defect"),
    Variant("worker-linter-without-user-rules", RUNNER,
            "                linter = Linter(\n                    config=task.root_config, user_rules=list(task.user_rules)\n                )",
            "                linter = Linter(config=task.root_config)", "R24e", "_apply", "the original defect"),
    Variant("worker-templater-not-recreated", RUNNER,
            "                linter.templater = task.root_config.get_templater()\n", "", "R24e", "_apply"),
    Variant("deferred-packet-linter-config", RUNNER,
            "                        fname, self.config, fix, tuple(self.linter.user_rules)",
            "                        fname, self.linter.config, fix, tuple(self.linter.user_rules)", "R24a", "iter_partials"),
    Variant("result-filed-under-last-dir", LINTER,
            "                linted_dir = expanded_path_to_linted_dir[linted_file.path]\n", "", "R24b", "lint_paths"),
    Variant("result-filed-by-arrival-index", LINTER,
            "                linted_dir = expanded_path_to_linted_dir[linted_file.path]\n",
            "                linted_dir = expanded_path_to_linted_dir[expanded_paths[i - 1]]\n", "R24b", "lint_paths"),
    Variant("records-unsorted", LRES,
            "        return sorted(\n            (record for linted_dir in self.paths for record in linted_dir.as_records()),\n            # Sort records by filename\n            key=lambda record: record[\"filepath\"],\n        )",
            "        return [record for linted_dir in self.paths for record in linted_dir.as_records()]", "R24b", "as_records"),
    Variant("getstate-edits-live-config", FCONF,
            "        state[\"_configs\"] = state[\"_configs\"].copy()\n        state[\"_configs\"][\"core\"] = state[\"_configs\"][\"core\"].copy()\n", "", "R24c", "__getstate__"),
    Variant("getstate-drops-overrides", FCONF,
            "        del state[\"_plugin_manager\"]\n",
            "        del state[\"_plugin_manager\"]\n        del state[\"_overrides\"]\n", "R24c", "__getstate__"),
    Variant("funnel-swallows-user-errors", RUNNER,
            "        if isinstance(e, (IOError, SQLFluffUserError)):",
            "        if isinstance(e, IOError):", "R24d", "_handle_lint_path_exception", "the original defect F15"),
    Variant("parallel-funnel-logs-only", RUNNER,
            "                        except Exception as e:\n                            self._handle_lint_path_exception(lint_result.fname, e)",
            "                        except Exception as e:\n                            linter_logger.warning(str(e))", "R24d", "run"),
    Variant("worker-swallows-exception", RUNNER,
            "        except Exception as e:\n            return DelayedException(e, fname=fname)",
            "        except Exception as e:\n            return DelayedException(RuntimeError(str(e)), fname=fname)", "R24d", "_apply"),
]
