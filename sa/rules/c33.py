"""C33 — violations are reported once and in source order.

R33a  every construction of ``LintedFile`` in the tree receives as ``violations`` the direct
      result of ``deduplicate_in_source_space(...)``; that function returns
      ``sorted(kept, key=lambda v: (v.line_no, v.line_pos, ...))`` where ``kept`` only receives
      violations that passed the seen-set test on their ``source_signature()`` (and each kept
      signature is recorded); ``line_no``/``line_pos`` are source positions
      (``pos.source_position()``); ``LintedDir.add`` serialises the records through a sort on
      ``(start_line_no, start_line_pos, code)``.
      Accepted idioms: ``if sig not in seen:`` / ``if sig in seen: continue``; the constructor
      argument may be the call itself or a local whose only definition is that call.
R33b  every ``source_signature`` contains the check tuple (code, line, pos) and the
      description; ``SQLLintError.source_signature`` additionally the edit raws and, per
      source fix, (edit, source start, source stop); it must not read any templated-space
      attribute of a source fix (``templated_slice``): that differs per loop iteration and
      would defeat the de-duplication.

Not decided: that equal signatures mean "the same violation" for a user.
"""

from __future__ import annotations

import ast

from ..cfg import cfg_of, origins
from ..flowutil import (
    attr_chain, callee, describe_origin, for_origin, is_fresh_list, is_fresh_set, must_pass, mutations_of,
    param_origin, sole_expr_origin, sorted_info,
)
from ..index import AnalysisError, FuncNode, arg_of, call_name, calls_in, kwarg, last_attr, norm, short, walk_local
from .c30 import _constructions, _enclosing_class, _enclosing_fn

LFILE = "src/sqlfluff/core/linter/linted_file.py"
LDIR = "src/sqlfluff/core/linter/linted_dir.py"
ERRORS = "src/sqlfluff/core/errors.py"
DEDUPE = "LintedFile.deduplicate_in_source_space"


def run(chk) -> None:
    repo = chk.repo
    chk.rule("R33a", "every LintedFile is built from deduplicate_in_source_space(...), which keeps a violation only if its source signature is new and returns the kept ones sorted by source (line, position); records are serialised sorted by (line, position, code)")
    chk.rule("R33b", "source signatures contain check tuple and description (lint errors: also edit raws and source-fix (edit, start, stop)) and never a templated-space attribute")
    chk.rule("R33c", "each rendering variant is linted and patched against its own templated file: the tree and the templated_file handed to lint_fix_parsed / generate_source_patches belong to the same variant")
    _r33a(chk, repo)
    _r33b(chk, repo)
    _r33c(chk, repo)


def _r33c(chk, repo) -> None:
    """A file with unreached template branches is rendered in several variants and each is linted;
    the results meet in deduplicate_in_source_space.  Fix discarding and source mapping go through
    the templated file that is passed along: with the wrong variant's file the rendered offsets of
    one variant are mapped through another, the same source violation comes back with different
    fixes (different signature) and is reported twice."""
    lp = repo.fn("src/sqlfluff/core/linter/linter.py", "Linter.lint_parsed")
    cfg = cfg_of(lp)

    def owner(e, at, depth=0):
        """(variable, reaching defs) of the variant an expression is an attribute of / derives from."""
        if isinstance(e, ast.Attribute) and isinstance(e.value, ast.Name) and e.attr in ("tree", "templated_file"):
            return (e.value.id, frozenset(id(d) for d in cfg.reaching().defs_at(at, e.value.id)))
        if isinstance(e, ast.Name) and depth < 4:
            os_ = origins(cfg, e, at)
            owners = set()
            for o in os_:
                if o.kind != "expr":
                    return None
                x = o.expr
                if isinstance(x, ast.Call) and last_attr(x) == "lint_fix_parsed" and o.path == (0,):
                    # the fixed tree returned for a variant belongs to the variant whose tree went in
                    a = x.args[0] if x.args else kwarg(x, "tree")
                    owners.add(owner(a, o.stmt, depth + 1))
                elif not o.path:
                    owners.add(owner(x, o.stmt, depth + 1))
                else:
                    return None
            return owners.pop() if len(owners) == 1 else None
        return None

    n = 0
    for c in calls_in(lp):
        name = last_attr(c) if isinstance(c.func, ast.Attribute) else (c.func.id if isinstance(c.func, ast.Name) else None)
        if name == "lint_fix_parsed":
            t = c.args[0] if c.args else kwarg(c, "tree")
            f = kwarg(c, "templated_file") or (c.args[6] if len(c.args) > 6 else None)
        elif name == "generate_source_patches":
            t = c.args[0] if c.args else kwarg(c, "tree")
            f = c.args[1] if len(c.args) > 1 else kwarg(c, "templated_file")
        else:
            continue
        n += 1
        st = cfg.stmt_of(c)
        if f is None or (isinstance(f, ast.Constant) and f.value is None):
            chk.fail("R33c", c, f"{name}() is not given the variant's templated file", detail=f"{name}: tree and templated_file of one variant")
            continue
        ot, of_ = (owner(t, st) if t is not None else None), owner(f, st)
        chk.require(
            ot is not None and ot == of_, "R33c", c,
            f"{name}() receives the tree of `{ot[0] if ot else norm(t) if t is not None else '?'}` but the templated file of `{of_[0] if of_ else norm(f)}`: "
            "the variant's rendered positions are mapped through another variant's source map",
            detail=f"{name}: tree and templated_file of one variant",
        )
    chk.count("R33c.variant_call_sites", n)
    chk.floor("R33c.variant_call_sites", 4)


def _r33a(chk, repo) -> None:
    lf = repo.cls(LFILE, "LintedFile")
    dd = repo.fn(LFILE, DEDUPE)
    # ---- constructions -----------------------------------------------------
    n = 0
    for call in _constructions(repo, lf):
        n += 1
        fn = _enclosing_fn(call)
        cfg = cfg_of(fn)
        if any(isinstance(a, ast.Starred) for a in call.args) or any(k.arg is None for k in call.keywords):
            chk.fail("R33a", call, "LintedFile built from unpacked arguments: the violations list cannot be traced", detail="LintedFile(*/**)")
            continue
        v = arg_of(call, 1, "violations")
        e = sole_expr_origin(cfg, v, cfg.stmt_of(call)) if v is not None else None
        good = isinstance(e, ast.Call) and (callee(repo, e) or (None, None))[1] is dd
        what = "nothing" if v is None else ", ".join(describe_origin(o) for o in origins(cfg, v, cfg.stmt_of(call))) if isinstance(v, ast.Name) else short(v, 70)
        chk.require(
            good, "R33a", call,
            f"LintedFile is built with violations = {what}, not the direct result of deduplicate_in_source_space(...): duplicates from loops/variants and out-of-order entries reach the user",
            detail="LintedFile(violations=deduplicate_in_source_space(...))",
        )
        if good and isinstance(v, ast.Name):
            for k, node in mutations_of(fn, v.id):
                chk.fail("R33a", node, f"deduplicated list changed by '{k}' before it is stored", detail=f"deduplicated list {k}")
        chk.sample({"rule": "R33a", "site": f"{call._module.relpath}:{call.lineno}", "violations_arg": what})
    chk.count("R33a.lintedfile_constructions", n)
    chk.floor("R33a.lintedfile_constructions", 1)
    for m in repo.iter_modules():
        if "_replace" not in m.text:
            continue
        for c in ast.walk(m.tree):
            if isinstance(c, ast.Call) and last_attr(c) == "_replace" and kwarg(c, "violations") is not None:
                chk.fail("R33a", c, "violations replaced on an existing record, bypassing de-duplication and ordering", detail="_replace(violations=...)")

    # ---- the de-duplication function ---------------------------------------
    cfg = cfg_of(dd)
    params = [a.arg for a in dd.args.args if a.arg not in ("self", "cls")]
    if not params:
        raise AnalysisError("deduplicate_in_source_space has no parameter")
    rets = [r for r in walk_local(dd) if isinstance(r, ast.Return)]
    chk.count("R33a.dedupe_returns", len(rets))
    chk.floor("R33a.dedupe_returns", 1)
    kept_names = set()
    for r in rets:
        e = sole_expr_origin(cfg, r.value, r) if r.value is not None else None
        si = sorted_info(e)
        key_ok = si is not None and si.components is not None and si.components[:2] == ["$.line_no", "$.line_pos"] and si.ascending
        chk.require(
            key_ok, "R33a", r,
            "deduplicate_in_source_space does not return the kept violations sorted (ascending) by (line_no, line_pos)",
            detail="returns sorted(key=(line_no, line_pos))",
        )
        if si is not None and isinstance(si.iterable, ast.Name):
            kept_names.add(si.iterable.id)
            os_ = origins(cfg, si.iterable, r)
            chk.require(
                bool(os_) and all(o.kind == "expr" and is_fresh_list(o.expr) for o in os_), "R33a", r,
                "the list that is sorted and returned is not a list created inside the function", detail="kept list is fresh",
            )
        elif si is not None:
            chk.fail("R33a", r, "the sorted iterable is not the local list filled under the seen-set test", detail="sorted over kept list")
        elif isinstance(r.value, ast.Name) and all(o.kind == "expr" and is_fresh_list(o.expr) for o in origins(cfg, r.value, r)):
            kept_names.add(r.value.id)  # unsorted return already reported; still check how the list is filled
    n_app = 0
    for kept in sorted(kept_names):
        for k, node in mutations_of(dd, kept):
            if k != "append":
                chk.fail("R33a", node, f"kept-violations list changed by '{k}', bypassing the seen-set test", detail=f"kept list {k}")
                continue
            n_app += 1
            st = cfg.stmt_of(node)
            fo = for_origin(cfg, node.args[0] if node.args else None, st)
            it_ok = fo is not None and not fo[1] and param_origin(cfg, fo[0].iter, fo[0]) == params[0]
            chk.require(it_ok, "R33a", node, "the kept value is not the violation currently iterated from the input list", detail="append: iterated violation")
            if not it_ok:
                continue
            ok, seen, sig = False, None, None
            for e, pol in cfg.conditions(st):
                if isinstance(e, ast.Compare) and len(e.ops) == 1 and (
                    (isinstance(e.ops[0], ast.NotIn) and pol) or (isinstance(e.ops[0], ast.In) and not pol)
                ):
                    d = sole_expr_origin(cfg, e.left, cfg.stmt_of(e))
                    if (
                        isinstance(d, ast.Call) and last_attr(d) == "source_signature" and isinstance(d.func, ast.Attribute) and not d.args
                        and for_origin(cfg, d.func.value, cfg.stmt_of(d)) == fo and isinstance(e.comparators[0], ast.Name)
                    ):
                        ok, seen, sig = True, e.comparators[0], d
            chk.require(ok, "R33a", node, "a violation is kept without a dominating test that its source signature was not seen before", detail="append: seen-set test on source_signature()")
            if ok:
                so = origins(cfg, seen, cfg.stmt_of(seen))
                fresh = bool(so) and all(o.kind == "expr" and is_fresh_set(o.expr) for o in so)
                rec = False
                for c in calls_in(dd):
                    if last_attr(c) == "add" and isinstance(c.func, ast.Attribute) and isinstance(c.func.value, ast.Name) and c.func.value.id == seen.id and c.args:
                        d2 = sole_expr_origin(cfg, c.args[0], cfg.stmt_of(c))
                        a = cfg.stmt_of(c)
                        same = d2 is sig or (isinstance(d2, ast.Call) and last_attr(d2) == "source_signature" and for_origin(cfg, d2.func.value, cfg.stmt_of(d2)) == fo)
                        if same and ((cfg.dominates(st, a) and must_pass(cfg, st, fo[0], [a])) or (cfg.dominates(a, st) and must_pass(cfg, a, fo[0], [st]))):
                            rec = True
                chk.require(fresh and rec, "R33a", node, "the signature of a kept violation is not recorded in the seen set (or the set outlives the call): later duplicates are kept as well", detail="append: kept signature recorded")
    chk.count("R33a.dedupe_append_sites", n_app)
    if kept_names:
        chk.floor("R33a.dedupe_append_sites", 1)

    # ---- the sort key is a source position -----------------------------------
    em = repo.mod(ERRORS)
    n_pos = 0
    for q, f in em.functions():
        c = cfg_of(f)
        for node in walk_local(f):
            if not isinstance(node, ast.Assign):
                continue
            tg = []
            for t in node.targets:
                tg += list(t.elts) if isinstance(t, ast.Tuple) else [t]
            chains = [attr_chain(t) for t in tg]
            if not any(ch in (("self", "line_no"), ("self", "line_pos")) for ch in chains):
                continue
            n_pos += 1
            os_ = origins(c, node.value, node) if isinstance(node.value, ast.Name) else None
            val = node.value
            good = False
            if isinstance(val, ast.Call):
                good = last_attr(val) == "source_position" and not val.args
            elif os_ is not None:
                good = all(o.kind == "param" for o in os_)
            chk.require(
                good, "R33a", node,
                f"violation position used for ordering is set from {short(val, 60)}, not from the marker's source position",
                detail=f"{norm(node.targets[0])} <- source position",
            )
    chk.count("R33a.position_assignments", n_pos)
    chk.floor("R33a.position_assignments", 2)

    # ---- LintedDir.add -------------------------------------------------------
    add = repo.fn(LDIR, "LintedDir.add")
    cfg = cfg_of(add)
    fparam = [a.arg for a in add.args.args if a.arg not in ("self", "cls")]
    dicts = []
    for node in walk_local(add):
        if isinstance(node, ast.Dict):
            for k, v in zip(node.keys, node.values):
                if isinstance(k, ast.Constant) and k.value == "violations":
                    dicts.append((node, v))
    chk.count("R33a.record_violation_fields", len(dicts))
    chk.floor("R33a.record_violation_fields", 1)
    want = ["$['start_line_no']", "$['start_line_pos']", "$['code']"]
    for d, v in dicts:
        e = sole_expr_origin(cfg, v, cfg.stmt_of(d))
        si = sorted_info(e)
        ok = si is not None and si.components == want and si.ascending
        chk.require(ok, "R33a", d, "the serialised violations of a record are not sorted by (start_line_no, start_line_pos, code)", detail="record violations sorted by (line, pos, code)")
        src_ok = False
        if si is not None:
            for c in ast.walk(si.iterable):
                if isinstance(c, ast.Call) and last_attr(c) == "get_violations" and isinstance(c.func, ast.Attribute) and fparam and param_origin(cfg, c.func.value, cfg.stmt_of(d)) == fparam[0]:
                    src_ok = True
        chk.require(src_ok, "R33a", d, "the serialised violations are not taken from the added file's get_violations()", detail="record violations from file.get_violations()")
    ldm = repo.mod(LDIR)
    for node in ast.walk(ldm.tree):
        if isinstance(node, (ast.Assign, ast.AugAssign)):
            tg = node.targets if isinstance(node, ast.Assign) else [node.target]
            for t in tg:
                if isinstance(t, ast.Subscript) and isinstance(t.slice, ast.Constant) and t.slice.value == "violations":
                    chk.fail("R33a", node, "a record's violations are overwritten after the sorted serialisation", detail=f"record['violations'] store: {short(node, 70)}")


def _r33b(chk, repo) -> None:
    defs = []
    for m in repo.iter_modules():
        if "def source_signature" not in m.text:
            continue
        for q, f in m.functions():
            if f.name == "source_signature":
                defs.append((m, q, f))
    chk.count("R33b.source_signature_definitions", len(defs))
    chk.floor("R33b.source_signature_definitions", 2)
    lint_err = repo.fn(ERRORS, "SQLLintError.source_signature")
    for m, q, f in defs:
        cfg = cfg_of(f)
        rets = [r for r in walk_local(f) if isinstance(r, ast.Return) and r.value is not None]
        chk.require(bool(rets), "R33b", f, "source_signature returns nothing", detail="returns a tuple")
        for r in rets:
            comps = list(r.value.elts) if isinstance(r.value, ast.Tuple) else [r.value]
            exprs = []
            for c in comps:
                if isinstance(c, ast.Name):
                    exprs += [(o.expr, o) for o in origins(cfg, c, r)]
                else:
                    exprs.append((c, None))
            has_ct = any(isinstance(e, ast.Call) and attr_chain(e.func) == ("self", "check_tuple") for e, _ in exprs)
            has_desc = any(
                attr_chain(e) == ("self", "description") or (isinstance(e, ast.Call) and attr_chain(e.func) == ("self", "desc")) for e, _ in exprs
            )
            chk.require(has_ct, "R33b", r, "signature lacks the check tuple (code, line, position): different violations collapse into one", detail="signature has check_tuple()")
            chk.require(has_desc, "R33b", r, "signature lacks the description: different messages at one position collapse into one", detail="signature has description")
            if f is lint_err:
                _lint_signature(chk, cfg, f, r, comps)
        # no templated-space reads anywhere in a signature
        # (rendered-file coordinates: PositionMarker's templated_* and working_* attributes)
        bad = [n for n in ast.walk(f) if isinstance(n, ast.Attribute) and n.attr.startswith(("templated", "working"))]
        for n in bad:
            chk.fail(
                "R33b", n,
                f"source_signature reads '{short(n, 50)}': a templated-space value differs for every pass of a template loop, so the same source violation is reported once per pass",
                detail=f"templated-space read: {short(n, 60)}",
            )
        if not bad:
            chk.ok("R33b", f"{m.relpath}::{q}", "no templated-space attribute read")
        chk.sample({"rule": "R33b", "site": f"{m.relpath}:{f.lineno}", "signature": [short(r.value, 100) for r in rets]})
    # the check tuple itself
    ct = repo.fn(ERRORS, "SQLBaseError.check_tuple")
    for r in [r for r in walk_local(ct) if isinstance(r, ast.Return)]:
        elts = [norm(e) for e in r.value.elts] if isinstance(r.value, ast.Tuple) else []
        chk.require(elts == ["self.rule_code()", "self.line_no", "self.line_pos"], "R33b", r, "check_tuple is not (rule code, line_no, line_pos)", detail="check_tuple = (code, line, pos)")


def _lint_signature(chk, cfg, f, r, comps) -> None:
    """Edit raws and source-fix triples of SQLLintError.source_signature."""
    fix_raws = False
    triples = False
    for c in comps:
        es = [o.expr for o in origins(cfg, c, r)] if isinstance(c, ast.Name) else [c]
        for e in es:
            # tuple(... e.raw for e in f.edit ... for f in self.fixes)
            raws = [n for n in ast.walk(e) if isinstance(n, ast.Attribute) and n.attr == "raw"]
            over_fixes = any(attr_chain(n) == ("self", "fixes") for n in ast.walk(e))
            over_edit = any(isinstance(n, ast.Attribute) and n.attr == "edit" for n in ast.walk(e))
            if raws and over_fixes and over_edit:
                fix_raws = True
            # tuple(<list>) where the list receives (x.edit, x.source_slice.start, x.source_slice.stop)
            if isinstance(e, ast.Call) and call_name(e) == "tuple" and e.args and isinstance(e.args[0], ast.Name):
                lst = e.args[0].id
                for k, node in mutations_of(f, lst):
                    if k != "append" or not node.args or not isinstance(node.args[0], ast.Tuple):
                        continue
                    chains = [attr_chain(x) for x in node.args[0].elts]
                    if not all(chains):
                        continue
                    base = {ch[0] for ch in chains}
                    tails = [ch[1:] for ch in chains]
                    if len(base) == 1 and ("edit",) in tails and ("source_slice", "start") in tails and ("source_slice", "stop") in tails:
                        fo = for_origin(cfg, ast.Name(id=base.pop(), ctx=ast.Load()), cfg.stmt_of(node))
                        if fo and isinstance(fo[0].iter, ast.Attribute) and fo[0].iter.attr == "source_fixes":
                            # and the walk covers every edit of every fix
                            outer = [p for p in _loops_around(node, f)]
                            roots = [norm(l.iter) for l in outer]
                            if any(x == "self.fixes" for x in roots) and any(x.endswith(".edit") for x in roots):
                                triples = True
    chk.require(fix_raws, "R33b", r, "lint-error signature lacks the raws of the proposed edits: violations with different fixes collapse into one", detail="signature has edit raws")
    chk.require(triples, "R33b", r, "lint-error signature lacks (edit, source start, source stop) of every source fix", detail="signature has source-fix (edit, start, stop)")


def _loops_around(node, stop):
    p = getattr(node, "_parent", None)
    while p is not None and p is not stop:
        if isinstance(p, ast.For):
            yield p
        p = getattr(p, "_parent", None)


from ..selftest import Variant  # noqa: E402

LINTER = "src/sqlfluff/core/linter/linter.py"

VARIANTS = [
    Variant(
        "signature-identifies-deletes-by-working-location", ERRORS,
        "            tuple(e.raw for e in f.edit) if f.edit else None for f in self.fixes\n",
        "            tuple(e.raw for e in f.edit) if f.edit else (f.anchor.raw, f.anchor.pos_marker.working_loc) for f in self.fixes\n",
        "R33b", "source_signature", "seeded C33-1: a delete fix inside a loop body is reported once per iteration",
    ),
    Variant(
        "alternate-variant-linted-with-root-templated-file", LINTER,
        "                    templated_file=alternate_variant.templated_file,\n",
        "                    templated_file=templated_file,\n",
        "R33c", "lint_parsed", "seeded C33-2",
    ),
    Variant(
        "quiet-alternate-variant-through-locals", LINTER,
        "                ) = cls.lint_fix_parsed(\n                    alternate_variant.tree,\n",
        "                ) = cls.lint_fix_parsed(\n                    tree=alternate_variant.tree,\n",
        "QUIET", None, "tree passed by keyword",
    ),
    Variant(
        "lintedfile-gets-raw-violations", LINTER,
        "            LintedFile.deduplicate_in_source_space(violations),\n",
        "            violations,\n",
        "R33a", "lint_parsed",
    ),
    Variant(
        "lintedfile-dedupe-then-extend", LINTER,
        "        linted_file = LintedFile(\n            parsed.fname,\n            # Deduplicate violations\n            LintedFile.deduplicate_in_source_space(violations),\n",
        "        deduped = LintedFile.deduplicate_in_source_space(violations[:1])\n        deduped.extend(violations[1:])\n        linted_file = LintedFile(\n            parsed.fname,\n            # Deduplicate violations\n            deduped,\n",
        "R33a", "lint_parsed",
    ),
    Variant(
        "dedupe-sort-dropped", LFILE,
        "        return sorted(new_violations, key=lambda v: (v.line_no, v.line_pos))\n",
        "        return new_violations\n",
        "R33a", "deduplicate_in_source_space",
    ),
    Variant(
        "dedupe-sort-by-position-only", LFILE,
        "key=lambda v: (v.line_no, v.line_pos))",
        "key=lambda v: (v.line_pos, v.line_no))",
        "R33a", "deduplicate_in_source_space",
    ),
    Variant(
        "dedupe-sort-descending", LFILE,
        "key=lambda v: (v.line_no, v.line_pos))",
        "key=lambda v: (v.line_no, v.line_pos), reverse=True)",
        "R33a", "deduplicate_in_source_space",
    ),
    Variant(
        "dedupe-seen-test-dropped", LFILE,
        "            if signature not in dedupe_buffer:\n",
        "            if True:\n",
        "R33a", "deduplicate_in_source_space",
    ),
    Variant(
        "dedupe-signature-not-recorded", LFILE,
        "                new_violations.append(v)\n                dedupe_buffer.add(signature)\n",
        "                new_violations.append(v)\n",
        "R33a", "deduplicate_in_source_space",
    ),
    Variant(
        "dedupe-keeps-duplicates-too", LFILE,
        "                linter_logger.debug(\"Removing duplicate source violation: %r\", v)\n",
        "                linter_logger.debug(\"Removing duplicate source violation: %r\", v)\n                new_violations.append(v)\n",
        "R33a", "deduplicate_in_source_space",
    ),
    Variant(
        "position-from-templated-space", ERRORS,
        "            self.line_no, self.line_pos = pos.source_position()\n",
        "            self.line_no, self.line_pos = pos.templated_position()\n",
        "R33a", "SQLBaseError.__init__",
    ),
    Variant(
        "records-sorted-by-code-first", LDIR,
        "key=lambda v: (v[\"start_line_no\"], v[\"start_line_pos\"], v[\"code\"]),",
        "key=lambda v: (v[\"code\"], v[\"start_line_no\"], v[\"start_line_pos\"]),",
        "R33a", "LintedDir.add",
    ),
    Variant(
        "records-unsorted", LDIR,
        "        violation_records = sorted(\n            # Keep the warnings\n            (v.to_dict() for v in file.get_violations(filter_warning=False)),\n            # The tuple allows sorting by line number, then position, then code\n            key=lambda v: (v[\"start_line_no\"], v[\"start_line_pos\"], v[\"code\"]),\n        )\n",
        "        violation_records = list(\n            # Keep the warnings\n            (v.to_dict() for v in file.get_violations(filter_warning=False)),\n        )\n",
        "R33a", "LintedDir.add",
    ),
    Variant(
        "signature-includes-templated-slice", ERRORS,
        "                            source_edit.source_slice.stop,\n",
        "                            source_edit.source_slice.stop,\n                            source_edit.templated_slice.start,\n",
        "R33b", "SQLLintError.source_signature",
    ),
    Variant(
        "signature-drops-check-tuple", ERRORS,
        "        return (self.check_tuple(), self.description, fix_raws, tuple(_source_fixes))\n",
        "        return (self.rule_code(), self.description, fix_raws, tuple(_source_fixes))\n",
        "R33b", "SQLLintError.source_signature", "all positions of one rule collapse",
    ),
    Variant(
        "signature-drops-fix-raws", ERRORS,
        "        return (self.check_tuple(), self.description, fix_raws, tuple(_source_fixes))\n",
        "        return (self.check_tuple(), self.description, tuple(_source_fixes))\n",
        "R33b", "SQLLintError.source_signature",
    ),
    Variant(
        "signature-source-fix-without-range", ERRORS,
        "                            source_edit.edit,\n                            source_edit.source_slice.start,\n                            source_edit.source_slice.stop,\n",
        "                            source_edit.edit,\n",
        "R33b", "SQLLintError.source_signature",
    ),
    Variant(
        "base-signature-drops-description", ERRORS,
        "        return (self.check_tuple(), self.desc())\n",
        "        return (self.check_tuple(),)\n",
        "R33b", "SQLBaseError.source_signature",
    ),
]
