"""C33 — violations are reported once and in source order.

R33a  every construction of ``LintedFile`` in the tree receives as ``violations`` the direct
      result of ``deduplicate_in_source_space(...)``; that function returns
      ``sorted(kept, key=lambda v: (v.line_no, v.line_pos, ...))`` where ``kept`` only receives
      violations that passed the seen-set test on their ``source_signature()`` (and each kept
      signature is recorded); ``line_no``/``line_pos`` are source positions
      (``pos.source_position()``); ``LintedDir.add`` serialises the records through a sort on
      ``(start_line_no, start_line_pos, code)``.
      Accepted idioms: ``if sig not in seen:`` / ``if sig in seen: continue`` / the test held
      in a boolean local (opened only when nothing it reads is rebound before the branch); the
      constructor argument may be the call itself or a local whose only definition is that call;
      ``kept.sort(key=...)`` + ``return kept`` for ``return sorted(kept, key=...)`` (one sort of
      the list created here, dominating the return, nothing changes the list after it); the key
      as a lambda, ``operator.attrgetter/itemgetter`` or a local bound to one; position stores
      through tuple unpacking, constant subscripts or locals (component 0 -> line_no,
      1 -> line_pos); the serialised records built from ``file.get_violations()`` directly,
      through a local, or by a loop appending to a fresh list.
R33b  every ``source_signature`` contains the check tuple (code, line, pos) and the
      description; ``SQLLintError.source_signature`` additionally the edit raws and, per
      source fix, (edit, source start, source stop); it must not read any templated-space
      attribute of a source fix (``templated_slice``): that differs per loop iteration and
      would defeat the de-duplication.  The returned tuple (and the check tuple) may be bound to
      a local first; iterated attributes and ``source_slice`` may be read through locals
      (canonical attribute chains); the edit raws may be collected by a generator or by a loop
      appending to a fresh list.
R33c  the tree and the templated file handed to ``lint_fix_parsed`` / ``generate_source_patches``
      belong to the same variant: identity of the variant is what the name can hold (origins),
      not its spelling; the fixed tree may come from unpacking the result or from ``result[0]``.

Not decided: that equal signatures mean "the same violation" for a user.
"""

from __future__ import annotations

import ast

from ..cfg import atoms, cfg_of, origins
from ..flowutil import (
    attr_chain, callee, describe_origin, for_origin, is_fresh_list, is_fresh_set, must_pass, mutations_of,
    param_origin, sole_expr_origin, sorted_info, SortedInfo,
)
from ..index import AnalysisError, FuncNode, arg_of, call_name, calls_in, kwarg, last_attr, norm, short, walk_local
from .c30 import _constructions, _enclosing_class, _enclosing_fn

LFILE = "src/sqlfluff/core/linter/linted_file.py"
LDIR = "src/sqlfluff/core/linter/linted_dir.py"
ERRORS = "src/sqlfluff/core/errors.py"
DEDUPE = "LintedFile.deduplicate_in_source_space"


_TEMPLATED_COORDS = ("working_line_no", "working_line_pos", "templated_slice", "templated_position", "working_loc")
_R33F_SCOPES = ("src/sqlfluff/rules/", "src/sqlfluff/utils/reflow/", "src/sqlfluff/core/rules/")


def _r33f_value_nodes(e: ast.AST):
    """The nodes of ``e`` whose value can become part of the value of ``e``: everything except the tests that only
    *select* (the ``if`` clauses of a comprehension / generator, the test of a conditional expression).  A
    coordinate read there decides which element / arm is taken, exactly as the test of an ``if`` statement or a
    ``for .. if ..: break`` search does, and is not written into the text."""
    todo = [e]
    while todo:
        n = todo.pop()
        yield n
        for fld, val in ast.iter_fields(n):
            if (isinstance(n, ast.comprehension) and fld == "ifs") or (isinstance(n, ast.IfExp) and fld == "test"):
                continue
            if isinstance(val, ast.AST):
                todo.append(val)
            elif isinstance(val, list):
                todo.extend(x for x in val if isinstance(x, ast.AST))


def _r33f_reads(cfg, e: ast.AST, at, depth: int = 0, seen=None):
    """Templated-space coordinate reads that can flow into expression ``e`` (through locals, all origins)."""
    seen = seen if seen is not None else set()
    out = []
    for n in _r33f_value_nodes(e):
        if isinstance(n, ast.Attribute) and n.attr in _TEMPLATED_COORDS:
            out.append(n)
        elif isinstance(n, ast.Name) and isinstance(n.ctx, ast.Load) and depth < 5:
            for o in origins(cfg, n, at):
                if o.kind in ("expr", "for") and isinstance(getattr(o, "expr", None), ast.AST) and id(o.expr) not in seen:
                    seen.add(id(o.expr))
                    out += _r33f_reads(cfg, o.expr, o.stmt if o.stmt is not None else at, depth + 1, seen)
    return out


def _r33f(chk, repo) -> None:
    n = 0
    for m in repo.iter_modules():
        if not m.relpath.startswith(_R33F_SCOPES):
            continue
        for q, f in m.functions():
            cs = [c for c in calls_in(f) if last_attr(c) in ("LintResult", "SQLLintError") and (kwarg(c, "description") is not None)]
            if not cs:
                continue
            cfg = cfg_of(f)
            for c in cs:
                d = kwarg(c, "description")
                if isinstance(d, ast.Constant):
                    continue
                n += 1
                st = cfg.stmt_of(c)
                reads = _r33f_reads(cfg, d, st) if st is not None else []
                chk.require(
                    not reads, "R33f", c,
                    f"{q} writes a templated-file coordinate (`{short(reads[0], 60) if reads else ''}`) into a violation description: the description is part of the source signature, so the same "
                    "violation raised once per loop iteration / rendering variant at one source position carries a different text each time and is no longer collapsed to one report (and the line quoted is not a line of the user's file)",
                    detail=f"{q}: description reads no templated-space coordinate",
                )
    chk.count("R33f.computed_descriptions", n)
    chk.floor("R33f.computed_descriptions", 20)


def run(chk) -> None:
    repo = chk.repo
    chk.rule("R33a", "every LintedFile is built from deduplicate_in_source_space(...), which keeps a violation only if its source signature is new and returns the kept ones sorted by source (line, position); records are serialised sorted by (line, position, code)")
    chk.rule("R33b", "source signatures contain check tuple and description (lint errors: also edit raws and source-fix (edit, start, stop)) and never a templated-space attribute")
    chk.rule("R33c", "each rendering variant is linted and patched against its own templated file: the tree and the templated_file handed to lint_fix_parsed / generate_source_patches belong to the same variant")
    _r33a(chk, repo)
    _r33b(chk, repo)
    _r33c(chk, repo)
    chk.rule("R33e", "the noqa filters applied after the sort keep the order they are given: each IgnoreMask._ignore_masked_violations_* returns either a comprehension over its violations parameter or a fresh list filled only by appending the variable of one loop over that parameter")
    _r33e(chk, repo)
    chk.rule("R33d", "the human-readable CLI output prints a file's violations in the order of a sort on (line_no, line_pos) made at the print site: get_violations() appends the unused-noqa warnings after the sorted list, so the list handed over is not in source order by itself")
    _r33d(chk, repo)
    chk.rule("R33f", "no violation description built in rules/, utils/reflow/ or core/rules/ (description= of LintResult / SQLLintError, read through locals) embeds a templated-file coordinate (working_line_no / working_line_pos / templated_slice / templated_position): descriptions are part of the source signature the dedupe keys on")
    _r33f(chk, repo)


FORMATTERS = "src/sqlfluff/cli/formatters.py"


def _r33e(chk, repo) -> None:
    NOQA_ = "src/sqlfluff/core/rules/noqa.py"
    n = 0
    for q, f in repo.mod(NOQA_).functions():
        if not f.name.startswith(("_ignore_masked_violations", "_filter_violations")):
            continue
        cfg = cfg_of(f)
        params = [a.arg for a in f.args.args if a.arg not in ("self", "cls")]
        if not params:
            continue
        vp = params[0]
        for r in [r for r in walk_local(f) if isinstance(r, ast.Return) and r.value is not None]:
            n += 1
            v = r.value
            problems = []

            def ordered_view(e, at) -> bool:
                """a comprehension / filter over the parameter, in its order"""
                if isinstance(e, (ast.ListComp, ast.GeneratorExp)) and len(e.generators) == 1:
                    g = e.generators[0]
                    return isinstance(e.elt, ast.Name) and isinstance(g.target, ast.Name) and e.elt.id == g.target.id and param_origin(cfg, g.iter, at) == vp
                if isinstance(e, ast.Call) and call_name(e) in ("list", "tuple") and len(e.args) == 1:
                    return ordered_view(e.args[0], at)
                if isinstance(e, ast.Call) and call_name(e) == "filter" and len(e.args) == 2:
                    return param_origin(cfg, e.args[1], at) == vp
                # a chain of the sibling filters (each judged on its own): x = d._filter_violations_..(x)
                if isinstance(e, ast.Call) and last_attr(e).startswith(("_ignore_masked_violations", "_filter_violations")) and e.args and isinstance(e.args[0], ast.Name):
                    os2 = origins(cfg, e.args[0], at)
                    return bool(os2) and all(o.kind == "param" or (o.kind == "expr" and (o.expr is e or ordered_view(o.expr, o.stmt))) for o in os2)
                return False

            if isinstance(v, ast.Name):
                os_ = origins(cfg, v, r)
                if param_origin(cfg, v, r) == vp:
                    continue
                if os_ and all(o.kind == "param" or (o.kind == "expr" and ordered_view(o.expr, o.stmt)) for o in os_) and not mutations_of(f, v.id):
                    continue
                fresh = bool(os_) and all(o.kind == "expr" and isinstance(o.expr, ast.List) and not o.expr.elts for o in os_)
                if not fresh:
                    problems.append(f"`{v.id}` does not start as an empty list (or a filtered view of `{vp}`)")
                loops = set()
                for kind, node in mutations_of(f, v.id):
                    if kind != "append":
                        problems.append(f"`{v.id}` is changed by {kind}")
                        continue
                    fo = for_origin(cfg, node.args[0] if node.args else None, cfg.stmt_of(node))
                    if fo is None or fo[1] or param_origin(cfg, fo[0].iter, fo[0]) != vp:
                        problems.append(f"`{short(node, 40)}` does not append the variable of a loop over `{vp}`")
                    else:
                        loops.add(id(fo[0]))
                if len(loops) > 1:
                    problems.append("elements are appended in more than one loop")
            elif not ordered_view(v, r):
                problems.append(f"returns `{short(v, 50)}`")
            chk.require(
                not problems, "R33e", r,
                f"{q} does not return its violations in the order it was given them ({'; '.join(problems)}): LintedFile.get_violations() applies the mask AFTER the sort, so what it "
                "returns is no longer in source order",
                detail=f"{q}: an order-preserving filter of its input",
            )
    chk.count("R33e.mask_filter_returns", n)
    chk.floor("R33e.mask_filter_returns", 2)


def _r33d(chk, repo) -> None:
    n = 0
    for q, f in repo.mod(FORMATTERS).functions():
        loops = []
        for l in walk_local(f):
            if isinstance(l, ast.For) and isinstance(l.target, ast.Name):
                if any(isinstance(c, ast.Call) and last_attr(c) == "format_violation" and c.args and isinstance(c.args[0], ast.Name) and c.args[0].id == l.target.id for b in l.body for c in ast.walk(b)):
                    loops.append(l)
        if not loops:
            continue
        cfg = cfg_of(f)
        for l in loops:
            it = l.iter if not isinstance(l.iter, ast.Name) else sole_expr_origin(cfg, l.iter, l)
            # only the listing of a linted file's violations (handed in as a parameter by the
            # dispatchers, fed from LintedFile.get_violations()); the `parse` command's listing of a
            # ParsedString's templating/lexing/parsing errors is not the subject of the property
            base = it.args[0] if isinstance(it, ast.Call) and call_name(it) == "sorted" and it.args else (it if it is not None else l.iter)
            if not (isinstance(base, ast.Name) and param_origin(cfg, base, cfg.stmt_of(base) or l) is not None):
                chk.count("R33d.other_listings")
                continue
            n += 1
            sf = _sorted_facts(cfg, it, cfg.stmt_of(it) or l) if it is not None else None
            ok = sf is not None and sf.ascending and sf.components is not None and sf.components[:2] == ["$.line_no", "$.line_pos"]
            chk.require(
                ok, "R33d", l,
                f"{q} prints the violations in the order of `{short(l.iter, 40)}`, which is not a sort on (line_no, line_pos) made here: the list from get_violations() ends with the "
                "unused-noqa warnings whatever their line, so with --warn-unused-ignores the output is not in source order",
                detail=f"{q}: printed violations are sorted by (line_no, line_pos) at the print site",
            )
    chk.count("R33d.print_loops", n)
    chk.floor("R33d.print_loops", 1)


def _conditions(cfg, stmt):
    """cfg.conditions with boolean locals opened up: ``is_new = sig not in seen`` / ``if is_new:``
    gives the same atoms as ``if sig not in seen:`` — only when the local has that one definition
    and nothing the test reads can have been rebound between the assignment and the branch."""
    rd = cfg.reaching()
    out = []
    work = list(cfg.conditions(stmt))
    budget = 50
    while work and budget:
        budget -= 1
        e, pol = work.pop(0)
        if isinstance(e, ast.Name):
            at = cfg.stmt_of(e)
            ds = list(rd.defs_at(at, e.id)) if at is not None else []
            if len(ds) == 1 and ds[0].kind == "assign" and not ds[0].path and ds[0].value is not None:
                d = ds[0]
                stable = all(
                    {id(x) for x in rd.defs_at(d.stmt, n.id)} == {id(x) for x in rd.defs_at(at, n.id)}
                    for n in ast.walk(d.value) if isinstance(n, ast.Name)
                )
                if stable:
                    work += atoms(d.value, pol)
                    continue
        out.append((e, pol))
    return out


def _const_index(e):
    """(value, index) of ``value[<non-negative int constant>]``, else None."""
    if (
        isinstance(e, ast.Subscript) and isinstance(e.slice, ast.Constant) and isinstance(e.slice.value, int)
        and not isinstance(e.slice.value, bool) and e.slice.value >= 0
    ):
        return e.value, e.slice.value
    return None


def _is_source_component(cfg, val, path, at, want, depth=0) -> bool:
    """``val[path]`` (evaluated at ``at``) is component ``want`` of a ``<marker>.source_position()``
    pair, or an unmodified parameter: through tuple displays, constant subscripts and locals."""
    path = tuple(path)
    if depth > 6 or val is None:
        return False
    while path and isinstance(val, (ast.Tuple, ast.List)) and isinstance(path[0], int) and path[0] < len(val.elts):
        val, path = val.elts[path[0]], path[1:]
    ci = _const_index(val)
    if ci is not None:
        return _is_source_component(cfg, ci[0], (ci[1],) + path, at, want, depth + 1)
    if isinstance(val, ast.Call):
        return last_attr(val) == "source_position" and isinstance(val.func, ast.Attribute) and not val.args and not val.keywords and path == (want,)
    if isinstance(val, ast.Name):
        os_ = origins(cfg, val, at, None, path)
        if not os_:
            return False
        for o in os_:
            if o.kind == "param" and not o.path:
                continue
            if o.kind == "expr" and not isinstance(o.expr, ast.Name) and _is_source_component(cfg, o.expr, o.path, o.stmt, want, depth + 1):
                continue
            return False
        return True
    return False


class _SortFacts:
    """iterable / key components ('$' = the element) / direction of ``sorted(it, key=...)`` or
    ``lst.sort(key=...)``.  The key may be a one-parameter lambda, ``operator.attrgetter(...)`` /
    ``operator.itemgetter(...)`` with constant arguments, or a local bound once to one of those."""

    def __init__(self, cfg, call: ast.Call, at):
        info = SortedInfo(call)
        self.call = call
        self.iterable = info.iterable
        self.ascending = info.ascending
        self.components = info.components
        key = info.key
        if isinstance(key, ast.Name):
            key = sole_expr_origin(cfg, key, at)
            if isinstance(key, ast.Lambda):
                self.components = SortedInfo(ast.Call(func=call.func, args=list(call.args), keywords=[ast.keyword(arg="key", value=key)])).components
        if isinstance(key, ast.Call) and not key.keywords and key.args and all(isinstance(a, ast.Constant) for a in key.args):
            fq = _operator_function(call, key)
            if fq == "operator.attrgetter" and all(isinstance(a.value, str) for a in key.args):
                self.components = [f"$.{a.value}" for a in key.args]
            elif fq == "operator.itemgetter":
                self.components = [f"$[{a.value!r}]" for a in key.args]


def _operator_function(ctx_node, call: ast.Call):
    """'operator.attrgetter' / 'operator.itemgetter' when the callee is that stdlib function."""
    m = ctx_node._module
    name = call_name(call)
    if not name:
        return None
    head, _, rest = name.partition(".")
    fq = m.imports.get(head)
    if fq is None or head in m.defs:
        return None
    fq = f"{fq}.{rest}" if rest else fq
    return fq if fq in ("operator.attrgetter", "operator.itemgetter") else None


def _sorted_facts(cfg, e, at):
    if isinstance(e, ast.Call) and call_name(e) == "sorted" and e.args:
        return _SortFacts(cfg, e, at)
    return None


def _sources_of(cfg, expr, at, depth=0, func=None):
    """``expr`` and, for every plain local read in it that has a single defining expression,
    that expression too (transitively): what the value is computed from."""
    out = [expr]
    if depth > 4:
        return out
    bound = {n.id for c in ast.walk(expr) if isinstance(c, ast.comprehension) for n in ast.walk(c.target) if isinstance(n, ast.Name)}
    for n in ast.walk(expr):
        if isinstance(n, ast.Name) and isinstance(n.ctx, ast.Load) and n.id not in bound:
            os_ = origins(cfg, n, at)
            if func is not None:
                # a list created here and only appended to: what is appended, and over what
                for filled in _filled_by(cfg, func, n, at):
                    out += _sources_of(cfg, filled, cfg.stmt_of(filled), depth + 1, func)
            if len(os_) == 1 and os_[0].kind == "expr" and not os_[0].path and os_[0].stmt is not None:
                out += _sources_of(cfg, os_[0].expr, os_[0].stmt, depth + 1, func)
    return out


def _canon_chain(cfg, e, at, depth=0):
    """attr_chain with the root opened when it is a local holding another chain
    (``s = x.source_slice; s.start`` -> ('x', 'source_slice', 'start'))."""
    ch = attr_chain(e)
    if not ch or depth > 4:
        return ch
    root = e
    while isinstance(root, ast.Attribute):
        root = root.value
    os_ = origins(cfg, root, at)
    if len(os_) == 1 and os_[0].kind == "expr" and not os_[0].path and isinstance(os_[0].expr, ast.Attribute) and os_[0].stmt is not None:
        head = _canon_chain(cfg, os_[0].expr, os_[0].stmt, depth + 1)
        if head:
            return tuple(head) + tuple(ch[1:])
    return ch


def _r33c(chk, repo) -> None:
    """A file with unreached template branches is rendered in several variants and each is linted;
    the results meet in deduplicate_in_source_space.  Fix discarding and source mapping go through
    the templated file that is passed along: with the wrong variant's file the rendered offsets of
    one variant are mapped through another, the same source violation comes back with different
    fixes (different signature) and is reported twice."""
    lp = repo.fn("src/sqlfluff/core/linter/linter.py", "Linter.lint_parsed")
    cfg = cfg_of(lp)

    def variant_key(name, at):
        """Identity of what a plain name holds, independent of its spelling: the statements /
        expressions its value can come from (a local copy of a variant is that variant)."""
        return frozenset((o.kind, id(o.stmt) if o.stmt is not None else id(o.expr), tuple(o.path)) for o in origins(cfg, name, at))

    def owner(e, at, depth=0):
        """(variable, identity) of the variant an expression is an attribute of / derives from."""
        if isinstance(e, ast.Attribute) and isinstance(e.value, ast.Name) and e.attr in ("tree", "templated_file"):
            return (e.value.id, variant_key(e.value, at))
        name, path = None, ()
        if isinstance(e, ast.Name):
            name = e
        elif (
            isinstance(e, ast.Subscript) and isinstance(e.value, ast.Name) and isinstance(e.slice, ast.Constant)
            and isinstance(e.slice.value, int) and not isinstance(e.slice.value, bool) and e.slice.value >= 0
        ):
            # ``result = lint_fix_parsed(...); result[0]``: the same component as unpacking by position
            name, path = e.value, (e.slice.value,)
        if name is not None and depth < 4:
            os_ = origins(cfg, name, at, None, path)
            owners = {}
            for o in os_:
                if o.kind != "expr":
                    return None
                x = o.expr
                if isinstance(x, ast.Call) and last_attr(x) == "lint_fix_parsed" and tuple(o.path) == (0,):
                    # the fixed tree returned for a variant belongs to the variant whose tree went in
                    a = x.args[0] if x.args else kwarg(x, "tree")
                    ow = owner(a, o.stmt, depth + 1) if a is not None else None
                elif not o.path:
                    ow = owner(x, o.stmt, depth + 1)
                else:
                    return None
                if ow is None:
                    return None
                owners[ow[1]] = ow
            return next(iter(owners.values())) if len(owners) == 1 else None
        return None

    n = 0
    for c in calls_in(lp):
        name = last_attr(c) if isinstance(c.func, ast.Attribute) else (c.func.id if isinstance(c.func, ast.Name) else None)
        if name == "lint_fix_parsed":
            t = c.args[0] if c.args else kwarg(c, "tree")
            f = kwarg(c, "templated_file") or (c.args[6] if len(c.args) > 6 else None)
        elif name == "generate_source_patches":
            t = c.args[0] if c.args else kwarg(c, "tree")
            f = c.args[1] if len(c.args) > 1 else kwarg(c, "templated_file")
        else:
            continue
        n += 1
        st = cfg.stmt_of(c)
        if f is None or (isinstance(f, ast.Constant) and f.value is None):
            chk.fail("R33c", c, f"{name}() is not given the variant's templated file", detail=f"{name}: tree and templated_file of one variant")
            continue
        ot, of_ = (owner(t, st) if t is not None else None), owner(f, st)
        chk.require(
            ot is not None and of_ is not None and ot[1] == of_[1], "R33c", c,
            f"{name}() receives the tree of `{ot[0] if ot else norm(t) if t is not None else '?'}` but the templated file of `{of_[0] if of_ else norm(f)}`: "
            "the variant's rendered positions are mapped through another variant's source map",
            detail=f"{name}: tree and templated_file of one variant",
        )
    chk.count("R33c.variant_call_sites", n)
    chk.floor("R33c.variant_call_sites", 4)


def _r33a(chk, repo) -> None:
    lf = repo.cls(LFILE, "LintedFile")
    dd = repo.fn(LFILE, DEDUPE)
    # ---- constructions -----------------------------------------------------
    n = 0
    for call in _constructions(repo, lf):
        n += 1
        fn = _enclosing_fn(call)
        cfg = cfg_of(fn)
        if any(isinstance(a, ast.Starred) for a in call.args) or any(k.arg is None for k in call.keywords):
            chk.fail("R33a", call, "LintedFile built from unpacked arguments: the violations list cannot be traced", detail="LintedFile(*/**)")
            continue
        v = arg_of(call, 1, "violations")
        e = sole_expr_origin(cfg, v, cfg.stmt_of(call)) if v is not None else None
        good = isinstance(e, ast.Call) and (callee(repo, e) or (None, None))[1] is dd
        what = "nothing" if v is None else ", ".join(describe_origin(o) for o in origins(cfg, v, cfg.stmt_of(call))) if isinstance(v, ast.Name) else short(v, 70)
        chk.require(
            good, "R33a", call,
            f"LintedFile is built with violations = {what}, not the direct result of deduplicate_in_source_space(...): duplicates from loops/variants and out-of-order entries reach the user",
            detail="LintedFile(violations=deduplicate_in_source_space(...))",
        )
        if good and isinstance(v, ast.Name):
            for k, node in mutations_of(fn, v.id):
                chk.fail("R33a", node, f"deduplicated list changed by '{k}' before it is stored", detail=f"deduplicated list {k}")
        chk.sample({"rule": "R33a", "site": f"{call._module.relpath}:{call.lineno}", "violations_arg": what})
    chk.count("R33a.lintedfile_constructions", n)
    chk.floor("R33a.lintedfile_constructions", 1)
    for m in repo.iter_modules():
        if "_replace" not in m.text:
            continue
        for c in ast.walk(m.tree):
            if isinstance(c, ast.Call) and last_attr(c) == "_replace" and kwarg(c, "violations") is not None:
                chk.fail("R33a", c, "violations replaced on an existing record, bypassing de-duplication and ordering", detail="_replace(violations=...)")

    # ---- the de-duplication function ---------------------------------------
    cfg = cfg_of(dd)
    params = [a.arg for a in dd.args.args if a.arg not in ("self", "cls")]
    if not params:
        raise AnalysisError("deduplicate_in_source_space has no parameter")
    rets = [r for r in walk_local(dd) if isinstance(r, ast.Return)]
    chk.count("R33a.dedupe_returns", len(rets))
    chk.floor("R33a.dedupe_returns", 1)
    kept_names = set()
    accepted_sorts = set()
    for r in rets:
        e = sole_expr_origin(cfg, r.value, r) if r.value is not None else None
        si = _sorted_facts(cfg, e, cfg.stmt_of(e) if e is not None else r)
        key_ok = si is not None and si.components is not None and si.components[:2] == ["$.line_no", "$.line_pos"] and si.ascending
        if si is None and isinstance(r.value, ast.Name) and (os_r := origins(cfg, r.value, r)) and all(o.kind == "expr" and is_fresh_list(o.expr) for o in os_r):
            # ``kept.sort(key=...)`` then ``return kept`` is sorted(kept, key=...) for a list created here:
            # one sort, with the same key, on every path to the return, and nothing changes the list after it
            muts = mutations_of(dd, r.value.id)
            sorts = [node for k, node in muts if k == "sort"]
            if len(sorts) == 1:
                srt = sorts[0]
                s_st = cfg.stmt_of(srt)
                info = _SortFacts(cfg, srt, s_st)
                later = [node for k, node in muts if node is not srt and cfg.reaches(s_st, cfg.stmt_of(node))]
                if (
                    not srt.args and info.components is not None and info.components[:2] == ["$.line_no", "$.line_pos"] and info.ascending
                    and {id(o.stmt) for o in origins(cfg, srt.func.value, s_st)} == {id(o.stmt) for o in os_r}  # the very list that is returned
                    and cfg.dominates(s_st, r) and not later
                ):
                    key_ok = True
                    accepted_sorts.add(id(srt))
                    kept_names.add(r.value.id)
        chk.require(
            key_ok, "R33a", r,
            "deduplicate_in_source_space does not return the kept violations sorted (ascending) by (line_no, line_pos)",
            detail="returns sorted(key=(line_no, line_pos))",
        )
        if si is not None and isinstance(si.iterable, ast.Name):
            kept_names.add(si.iterable.id)
            os_ = origins(cfg, si.iterable, r)
            chk.require(
                bool(os_) and all(o.kind == "expr" and is_fresh_list(o.expr) for o in os_), "R33a", r,
                "the list that is sorted and returned is not a list created inside the function", detail="kept list is fresh",
            )
        elif si is not None:
            chk.fail("R33a", r, "the sorted iterable is not the local list filled under the seen-set test", detail="sorted over kept list")
        elif key_ok:
            pass  # sorted in place (accepted above)
        elif isinstance(r.value, ast.Name) and all(o.kind == "expr" and is_fresh_list(o.expr) for o in origins(cfg, r.value, r)):
            kept_names.add(r.value.id)  # unsorted return already reported; still check how the list is filled
    n_app = 0
    for kept in sorted(kept_names):
        for k, node in mutations_of(dd, kept):
            if id(node) in accepted_sorts:
                continue
            if k != "append":
                chk.fail("R33a", node, f"kept-violations list changed by '{k}', bypassing the seen-set test", detail=f"kept list {k}")
                continue
            n_app += 1
            st = cfg.stmt_of(node)
            fo = for_origin(cfg, node.args[0] if node.args else None, st)
            it_ok = fo is not None and not fo[1] and param_origin(cfg, fo[0].iter, fo[0]) == params[0]
            chk.require(it_ok, "R33a", node, "the kept value is not the violation currently iterated from the input list", detail="append: iterated violation")
            if not it_ok:
                continue
            ok, seen, sig = False, None, None
            for e, pol in _conditions(cfg, st):
                if isinstance(e, ast.Compare) and len(e.ops) == 1 and (
                    (isinstance(e.ops[0], ast.NotIn) and pol) or (isinstance(e.ops[0], ast.In) and not pol)
                ):
                    d = sole_expr_origin(cfg, e.left, cfg.stmt_of(e))
                    if (
                        isinstance(d, ast.Call) and last_attr(d) == "source_signature" and isinstance(d.func, ast.Attribute) and not d.args
                        and for_origin(cfg, d.func.value, cfg.stmt_of(d)) == fo and isinstance(e.comparators[0], ast.Name)
                    ):
                        ok, seen, sig = True, e.comparators[0], d
            chk.require(ok, "R33a", node, "a violation is kept without a dominating test that its source signature was not seen before", detail="append: seen-set test on source_signature()")
            if ok:
                so = origins(cfg, seen, cfg.stmt_of(seen))
                fresh = bool(so) and all(o.kind == "expr" and is_fresh_set(o.expr) for o in so)
                rec = False
                for c in calls_in(dd):
                    if last_attr(c) == "add" and isinstance(c.func, ast.Attribute) and isinstance(c.func.value, ast.Name) and c.func.value.id == seen.id and c.args:
                        d2 = sole_expr_origin(cfg, c.args[0], cfg.stmt_of(c))
                        a = cfg.stmt_of(c)
                        same = d2 is sig or (isinstance(d2, ast.Call) and last_attr(d2) == "source_signature" and for_origin(cfg, d2.func.value, cfg.stmt_of(d2)) == fo)
                        if same and ((cfg.dominates(st, a) and must_pass(cfg, st, fo[0], [a])) or (cfg.dominates(a, st) and must_pass(cfg, a, fo[0], [st]))):
                            rec = True
                chk.require(fresh and rec, "R33a", node, "the signature of a kept violation is not recorded in the seen set (or the set outlives the call): later duplicates are kept as well", detail="append: kept signature recorded")
                # the seen set only grows while the input is iterated
                shrink = [c for c in calls_in(dd) if isinstance(c.func, ast.Attribute) and isinstance(c.func.value, ast.Name) and c.func.value.id == seen.id
                          and c.func.attr in ("clear", "discard", "remove", "pop", "difference_update", "intersection_update", "symmetric_difference_update")]
                loop_nodes = {id(x) for x in ast.walk(fo[0])}
                rebound = [o for o in so if o.stmt is not None and id(o.stmt) in loop_nodes]
                for x in ast.walk(fo[0]):
                    if isinstance(x, (ast.Assign, ast.AugAssign, ast.AnnAssign)):
                        tg = x.targets if isinstance(x, ast.Assign) else [x.target]
                        if any(isinstance(t, ast.Name) and t.id == seen.id for t in tg):
                            rebound.append(x)
                chk.require(
                    not shrink and not rebound, "R33a", (shrink[0] if shrink else node),
                    f"the seen set `{seen.id}` is emptied or re-created while the violations are iterated ("
                    + (short(shrink[0], 40) if shrink else "re-bound inside the loop")
                    + "): a violation whose copy comes later in the list (the same rule reporting from another rendered variant) is kept twice",
                    detail="append: the seen set only grows during the pass",
                )
    chk.count("R33a.dedupe_append_sites", n_app)
    if kept_names:
        chk.floor("R33a.dedupe_append_sites", 1)

    # ---- the sort key is a source position -----------------------------------
    em = repo.mod(ERRORS)
    n_pos = 0
    for q, f in em.functions():
        c = cfg_of(f)
        for node in walk_local(f):
            if not isinstance(node, ast.Assign):
                continue
            tg = []
            for t in node.targets:
                tg += list(t.elts) if isinstance(t, ast.Tuple) else [t]
            chains = [attr_chain(t) for t in tg]
            if not any(ch in (("self", "line_no"), ("self", "line_pos")) for ch in chains):
                continue
            n_pos += 1
            val = node.value
            # every stored component is the matching component of <marker>.source_position() or an
            # unmodified parameter (through tuple unpacking, constant subscripts and locals)
            good = True
            for t in node.targets:
                parts = [(x, (i,)) for i, x in enumerate(t.elts)] if isinstance(t, ast.Tuple) else [(t, ())]
                for x, pth in parts:
                    ch = attr_chain(x)
                    if ch == ("self", "line_no"):
                        good = good and _is_source_component(c, val, pth, node, 0)
                    elif ch == ("self", "line_pos"):
                        good = good and _is_source_component(c, val, pth, node, 1)
            chk.require(
                good, "R33a", node,
                f"violation position used for ordering is set from {short(val, 60)}, not from the marker's source position",
                detail=f"{norm(node.targets[0])} <- source position",
            )
    chk.count("R33a.position_assignments", n_pos)
    chk.floor("R33a.position_assignments", 2)

    # ---- LintedDir.add -------------------------------------------------------
    add = repo.fn(LDIR, "LintedDir.add")
    cfg = cfg_of(add)
    fparam = [a.arg for a in add.args.args if a.arg not in ("self", "cls")]
    dicts = []
    for node in walk_local(add):
        if isinstance(node, ast.Dict):
            for k, v in zip(node.keys, node.values):
                if isinstance(k, ast.Constant) and k.value == "violations":
                    dicts.append((node, v))
    chk.count("R33a.record_violation_fields", len(dicts))
    chk.floor("R33a.record_violation_fields", 1)
    want = ["$['start_line_no']", "$['start_line_pos']", "$['code']"]
    for d, v in dicts:
        e = sole_expr_origin(cfg, v, cfg.stmt_of(d))
        si = _sorted_facts(cfg, e, cfg.stmt_of(e) if e is not None else cfg.stmt_of(d))
        ok = si is not None and si.components == want and si.ascending
        chk.require(ok, "R33a", d, "the serialised violations of a record are not sorted by (start_line_no, start_line_pos, code)", detail="record violations sorted by (line, pos, code)")
        src_ok = False
        if si is not None:
            # the sorted iterable, with locals it reads opened (``vs = file.get_violations(); sorted(... for v in vs)``)
            for src in _sources_of(cfg, si.iterable, cfg.stmt_of(si.call), 0, add):
                for c in ast.walk(src):
                    if isinstance(c, ast.Call) and last_attr(c) == "get_violations" and isinstance(c.func, ast.Attribute) and fparam and param_origin(cfg, c.func.value, cfg.stmt_of(c)) == fparam[0]:
                        src_ok = True
        chk.require(src_ok, "R33a", d, "the serialised violations are not taken from the added file's get_violations()", detail="record violations from file.get_violations()")
    ldm = repo.mod(LDIR)
    for node in ast.walk(ldm.tree):
        if isinstance(node, (ast.Assign, ast.AugAssign)):
            tg = node.targets if isinstance(node, ast.Assign) else [node.target]
            for t in tg:
                if isinstance(t, ast.Subscript) and isinstance(t.slice, ast.Constant) and t.slice.value == "violations":
                    chk.fail("R33a", node, "a record's violations are overwritten after the sorted serialisation", detail=f"record['violations'] store: {short(node, 70)}")


def _r33b(chk, repo) -> None:
    defs = []
    for m in repo.iter_modules():
        if "def source_signature" not in m.text:
            continue
        for q, f in m.functions():
            if f.name == "source_signature":
                defs.append((m, q, f))
    chk.count("R33b.source_signature_definitions", len(defs))
    chk.floor("R33b.source_signature_definitions", 2)
    lint_err = repo.fn(ERRORS, "SQLLintError.source_signature")
    for m, q, f in defs:
        cfg = cfg_of(f)
        rets = [r for r in walk_local(f) if isinstance(r, ast.Return) and r.value is not None]
        chk.require(bool(rets), "R33b", f, "source_signature returns nothing", detail="returns a tuple")
        for r in rets:
            comps = _ret_components(cfg, r)
            exprs = []
            for c, at in comps:
                if isinstance(c, ast.Name):
                    exprs += [(o.expr, o) for o in origins(cfg, c, at)]
                else:
                    exprs.append((c, None))
            has_ct = any(isinstance(e, ast.Call) and attr_chain(e.func) == ("self", "check_tuple") for e, _ in exprs)
            has_desc = any(
                attr_chain(e) == ("self", "description") or (isinstance(e, ast.Call) and attr_chain(e.func) == ("self", "desc")) for e, _ in exprs
            )
            chk.require(has_ct, "R33b", r, "signature lacks the check tuple (code, line, position): different violations collapse into one", detail="signature has check_tuple()")
            chk.require(has_desc, "R33b", r, "signature lacks the description: different messages at one position collapse into one", detail="signature has description")
            if f is lint_err:
                _lint_signature(chk, cfg, f, r, comps)
        # no templated-space reads anywhere in a signature
        # (rendered-file coordinates: PositionMarker's templated_* and working_* attributes)
        bad = [n for n in ast.walk(f) if isinstance(n, ast.Attribute) and n.attr.startswith(("templated", "working"))]
        for n in bad:
            chk.fail(
                "R33b", n,
                f"source_signature reads '{short(n, 50)}': a templated-space value differs for every pass of a template loop, so the same source violation is reported once per pass",
                detail=f"templated-space read: {short(n, 60)}",
            )
        if not bad:
            chk.ok("R33b", f"{m.relpath}::{q}", "no templated-space attribute read")
        chk.sample({"rule": "R33b", "site": f"{m.relpath}:{f.lineno}", "signature": [short(r.value, 100) for r in rets]})
    # the check tuple itself
    ct = repo.fn(ERRORS, "SQLBaseError.check_tuple")
    ct_cfg = cfg_of(ct)
    for r in [r for r in walk_local(ct) if isinstance(r, ast.Return) and r.value is not None]:
        comps = _ret_components(ct_cfg, r)  # the tuple display, directly or through a local
        elts = [norm(sole_expr_origin(ct_cfg, c, at) or c) for c, at in comps] if len(comps) > 1 else []
        chk.require(elts == ["self.rule_code()", "self.line_no", "self.line_pos"], "R33b", r, "check_tuple is not (rule code, line_no, line_pos)", detail="check_tuple = (code, line, pos)")


def _ret_components(cfg, r):
    """(component expression, statement it is evaluated at) of the returned signature: the tuple
    display itself, or the one tuple display a returned local was bound to."""
    v, at = r.value, r
    if isinstance(v, ast.Name):
        os_ = origins(cfg, v, r)
        if len(os_) == 1 and os_[0].kind == "expr" and not os_[0].path and isinstance(os_[0].expr, ast.Tuple) and os_[0].stmt is not None:
            v, at = os_[0].expr, os_[0].stmt
    return [(x, at) for x in v.elts] if isinstance(v, ast.Tuple) else [(v, at)]


def _filled_by(cfg, f, e, at):
    """For ``tuple(L)`` / ``list(L)`` / ``L`` with L a list created in the function and changed only
    by ``append``: the appended expressions and the iterables of the loops around each append
    (what a generator expression would have spelled in one place); else nothing."""
    if isinstance(e, ast.Call) and call_name(e) in ("tuple", "list") and len(e.args) == 1 and not e.keywords:
        e = e.args[0]
    if not isinstance(e, ast.Name):
        return []
    os_ = origins(cfg, e, at)
    if not (os_ and all(o.kind == "expr" and is_fresh_list(o.expr) for o in os_)):
        return []
    muts = mutations_of(f, e.id)
    if not muts or any(k != "append" or len(node.args) != 1 for k, node in muts):
        return []
    out = []
    for _k, node in muts:
        out.append(node.args[0])
        out += [l.iter for l in _loops_around(node, f)]
    return out


def _lint_signature(chk, cfg, f, r, comps) -> None:
    """Edit raws and source-fix triples of SQLLintError.source_signature."""
    fix_raws = False
    triples = False
    for c, c_at in comps:
        es = [(o.expr, o.stmt) for o in origins(cfg, c, c_at)] if isinstance(c, ast.Name) else [(c, c_at)]
        for e, e_at in es:
            # tuple(... e.raw for e in f.edit ... for f in self.fixes), or the same walk as a loop filling a list
            nodes = [n for root in _sources_of(cfg, e, e_at, 0, f) + _filled_by(cfg, f, e, e_at) for n in ast.walk(root)]
            raws = [n for n in nodes if isinstance(n, ast.Attribute) and n.attr == "raw"]
            over_fixes = any(attr_chain(n) == ("self", "fixes") for n in nodes)
            over_edit = any(isinstance(n, ast.Attribute) and n.attr == "edit" for n in nodes)
            if raws and over_fixes and over_edit:
                fix_raws = True
            # tuple(<list>) where the list receives (x.edit, x.source_slice.start, x.source_slice.stop)
            if isinstance(e, ast.Call) and call_name(e) == "tuple" and e.args and isinstance(e.args[0], ast.Name):
                lst = e.args[0].id
                for k, node in mutations_of(f, lst):
                    if k != "append" or not node.args or not isinstance(node.args[0], ast.Tuple):
                        continue
                    # a component may be read through a local (``s = x.source_slice; s.start``)
                    chains = [_canon_chain(cfg, x, cfg.stmt_of(node)) for x in node.args[0].elts]
                    if not all(chains):
                        continue
                    base = {ch[0] for ch in chains}
                    tails = [ch[1:] for ch in chains]
                    if len(base) == 1 and ("edit",) in tails and ("source_slice", "start") in tails and ("source_slice", "stop") in tails:
                        fo = for_origin(cfg, ast.Name(id=base.pop(), ctx=ast.Load()), cfg.stmt_of(node))
                        # loop iterables may be read through locals (``edits = fix.edit; for edit in edits``)
                        if fo and (_canon_chain(cfg, fo[0].iter, fo[0]) or ("",))[-1] == "source_fixes" and len(_canon_chain(cfg, fo[0].iter, fo[0])) > 1:
                            # and the walk covers every edit of every fix
                            outer = [p for p in _loops_around(node, f)]
                            roots = [_canon_chain(cfg, l.iter, l) or () for l in outer]
                            if any(x == ("self", "fixes") for x in roots) and any(len(x) > 1 and x[-1] == "edit" for x in roots):
                                triples = True
    chk.require(fix_raws, "R33b", r, "lint-error signature lacks the raws of the proposed edits: violations with different fixes collapse into one", detail="signature has edit raws")
    chk.require(triples, "R33b", r, "lint-error signature lacks (edit, source start, source stop) of every source fix", detail="signature has source-fix (edit, start, stop)")


def _loops_around(node, stop):
    p = getattr(node, "_parent", None)
    while p is not None and p is not stop:
        if isinstance(p, ast.For):
            yield p
        p = getattr(p, "_parent", None)


from ..selftest import Variant  # noqa: E402

LINTER = "src/sqlfluff/core/linter/linter.py"

_DEDUPE_LOOP = (
    "        for v in violations:\n            signature = v.source_signature()\n            if signature not in dedupe_buffer:\n"
    "                new_violations.append(v)\n                dedupe_buffer.add(signature)\n            else:\n"
    "                linter_logger.debug(\"Removing duplicate source violation: %r\", v)\n"
)
_ALT_CALL = (
    "                (\n                    alt_fixed_tree,\n                    alt_linting_errors,\n                    _,  # Ignore Mask\n                    _,  # Timings\n"
    "                ) = cls.lint_fix_parsed(\n                    alternate_variant.tree,\n"
)
_ALT_REST = (
    "                    config=parsed.config,\n                    rule_pack=rule_pack,\n                    fix=fix,\n                    fname=parsed.fname,\n"
    "                    templated_file=alternate_variant.templated_file,\n                    formatter=formatter,\n                )\n"
    "                violations += alt_linting_errors\n"
)
_POS = "        if pos:\n            self.line_no, self.line_pos = pos.source_position()\n        else:\n            self.line_no = line_no\n            self.line_pos = line_pos\n"
_RECORDS = (
    "        violation_records = sorted(\n            # Keep the warnings\n            (v.to_dict() for v in file.get_violations(filter_warning=False)),\n"
    "            # The tuple allows sorting by line number, then position, then code\n"
    "            key=lambda v: (v[\"start_line_no\"], v[\"start_line_pos\"], v[\"code\"]),\n        )\n"
)
_TRIPLE = (
    "                    _source_fixes.append(\n                        (\n                            source_edit.edit,\n"
    "                            source_edit.source_slice.start,\n                            source_edit.source_slice.stop,\n                        )\n                    )\n"
)
_SIG_RETURN = "        return (self.check_tuple(), self.description, fix_raws, tuple(_source_fixes))\n"

VARIANTS = [
    Variant(
        "al08-quotes-the-templated-line-through-a-local", "src/sqlfluff/rules/aliasing/AL08.py",
        "                assert previous.pos_marker\n",
        "                assert previous.pos_marker\n                prev_line = previous.pos_marker.working_line_no\n",
        "QUIET", None, "the templated line is read but not written into the description",
    ),
    # behaviour-preserving refactors: must stay quiet (R33f)
    Variant(
        'quiet-r33f-removal-result-found-with-next', "src/sqlfluff/utils/reflow/elements.py",
        '                        for res in existing_results:\n                            if (\n                                res.anchor\n                                and res.anchor.pos_marker\n                                and res.anchor.pos_marker.templated_slice.stop\n                                == temp_idx\n                            ):\n                                break\n                        else:  # pragma: no cover\n                            raise NotImplementedError("Could not find removal result.")\n',
        '                        res = next(\n                            (\n                                r\n                                for r in existing_results\n                                if r.anchor\n                                and r.anchor.pos_marker\n                                and r.anchor.pos_marker.templated_slice.stop == temp_idx\n                            ),\n                            None,\n                        )\n                        if res is None:  # pragma: no cover\n                            raise NotImplementedError("Could not find removal result.")\n',
        "QUIET", None, 'for/else search as next() over a generator: the templated offset still only selects the result whose description is reused',
    ),
    Variant(
        'quiet-r33f-crash-line-from-the-source-property', "src/sqlfluff/core/rules/base.py",
        '                exception_line, _ = context.segment.pos_marker.source_position()\n',
        '                crash_marker = context.segment.pos_marker\n                exception_line = crash_marker.line_no\n',
        "QUIET", None, 'PositionMarker.line_no is source_position()[0]; marker through a local',
    ),
    Variant(
        'quiet-r33f-crash-line-by-index', "src/sqlfluff/core/rules/base.py",
        '                exception_line, _ = context.segment.pos_marker.source_position()\n',
        '                exception_line = context.segment.pos_marker.source_position()[0]\n',
        "QUIET", None, 'tuple unpacking as indexing',
    ),
    Variant(
        'quiet-r33f-al08-description-by-format', "src/sqlfluff/rules/aliasing/AL08.py",
        '                        description=(\n                            "Reuse of column alias "\n                            f"{column_alias.raw!r} from line "\n                            f"{previous.pos_marker.line_no}."\n                        ),\n',
        '                        description="Reuse of column alias {!r} from line {}.".format(\n                            column_alias.raw, previous.pos_marker.line_no\n                        ),\n',
        "QUIET", None, 'f-string as str.format',
    ),
    Variant(
        'quiet-r33f-jj01-message-and-slice-locals', "src/sqlfluff/rules/jinja/JJ01.py",
        '            source_fixes = [\n                SourceFix(\n                    fixed,\n                    slice(\n                        src_idx + position,\n                        src_idx + position + len(stripped),\n                    ),\n                    # This position in the templated file is rough, but\n                    # close enough for sequencing.\n                    raw_seg.pos_marker.templated_slice,\n                )\n            ]\n\n            results.append(\n                LintResult(\n                    anchor=raw_seg,\n                    description=f"Jinja tags should have a single "\n                    f"whitespace on either side: {stripped}",\n',
        '            rough_slice, message = (\n                raw_seg.pos_marker.templated_slice,\n                f"Jinja tags should have a single whitespace on either side: {stripped}",\n            )\n            source_fixes = [\n                SourceFix(\n                    fixed,\n                    slice(\n                        src_idx + position,\n                        src_idx + position + len(stripped),\n                    ),\n                    rough_slice,\n                )\n            ]\n\n            results.append(\n                LintResult(\n                    anchor=raw_seg,\n                    description=message,\n',
        "QUIET", None, 'templated slice and message bound by one tuple assignment; only the message reaches the description',
    ),
    # ---- breaking twins of the R33f spellings above
    Variant(
        'r33f-removal-result-described-by-its-templated-offset', "src/sqlfluff/utils/reflow/elements.py",
        '                        for res in existing_results:\n                            if (\n                                res.anchor\n                                and res.anchor.pos_marker\n                                and res.anchor.pos_marker.templated_slice.stop\n                                == temp_idx\n                            ):\n                                break\n                        else:  # pragma: no cover\n                            raise NotImplementedError("Could not find removal result.")\n                        existing_results.remove(res)\n                        new_results.append(\n                            LintResult(\n                                res.anchor,\n                                fixes=res.fixes + [LintFix("delete", last_whitespace)],\n                                description=res.description,\n',
        '                        res, found_at = next(\n                            (\n                                (r, r.anchor.pos_marker.templated_slice.stop)\n                                for r in existing_results\n                                if r.anchor\n                                and r.anchor.pos_marker\n                                and r.anchor.pos_marker.templated_slice.stop == temp_idx\n                            ),\n                            (None, None),\n                        )\n                        if res is None:  # pragma: no cover\n                            raise NotImplementedError("Could not find removal result.")\n                        existing_results.remove(res)\n                        new_results.append(\n                            LintResult(\n                                res.anchor,\n                                fixes=res.fixes + [LintFix("delete", last_whitespace)],\n                                description=f"{res.description} (at {found_at})",\n',
        "R33f", 'ReflowPoint.respace_point', 'twin of quiet-r33f-removal-result-found-with-next: the element of the generator carries the templated offset into the text',
    ),
    Variant(
        'r33f-jj01-conditional-arm-embeds-the-offset', "src/sqlfluff/rules/jinja/JJ01.py",
        '                    description=f"Jinja tags should have a single "\n                    f"whitespace on either side: {stripped}",\n',
        '                    description=f"Jinja tags should have a single "\n                    f"whitespace on either side: {stripped}"\n                    + (f" at {raw_seg.pos_marker.templated_slice.start}" if raw_seg.pos_marker.templated_slice else ""),\n',
        "R33f", 'Rule_JJ01._eval', 'a conditional expression whose taken arm embeds the templated offset (the test alone would not)',
    ),
    Variant(
        "al08-describes-with-the-templated-line-local", "src/sqlfluff/rules/aliasing/AL08.py",
        "                assert previous.pos_marker\n                violations.append(\n                    LintResult(\n                        anchor=column_alias,\n                        description=(\n                            \"Reuse of column alias \"\n                            f\"{column_alias.raw!r} from line \"\n                            f\"{previous.pos_marker.line_no}.\"\n",
        "                assert previous.pos_marker\n                prev_line = previous.pos_marker.working_line_no\n                violations.append(\n                    LintResult(\n                        anchor=column_alias,\n                        description=(\n                            \"Reuse of column alias \"\n                            f\"{column_alias.raw!r} from line \"\n                            f\"{prev_line}.\"\n",
        "R33f", "Rule_AL08._eval", "seeded C33-7 through a local: one report per loop iteration",
    ),
    Variant(
        "crash-report-quotes-the-templated-line", "src/sqlfluff/core/rules/base.py",
        "                exception_line, _ = context.segment.pos_marker.source_position()\n",
        "                exception_line = context.segment.pos_marker.working_line_no\n",
        "R33f", "BaseRule.crawl", "seeded C33-8",
    ),
    Variant(
        "cli-output-relies-on-the-order-it-is-given", FORMATTERS,
        "            s = sorted(violations, key=lambda v: (v.line_no, v.line_pos))\n            for violation in s:\n",
        "            for violation in violations:\n",
        "R33d", "_format_file_violations", "seeded C33-4: unused-noqa warnings are printed last whatever their line",
    ),
    Variant(
        "cli-output-sorted-by-code", FORMATTERS,
        "            s = sorted(violations, key=lambda v: (v.line_no, v.line_pos))\n",
        "            s = sorted(violations, key=lambda v: (v.rule_code(), v.line_no, v.line_pos))\n",
        "R33d", "_format_file_violations",
    ),
    Variant(
        "quiet-cli-output-sorted-in-the-loop-header", FORMATTERS,
        "            s = sorted(violations, key=lambda v: (v.line_no, v.line_pos))\n            for violation in s:\n",
        "            for violation in sorted(violations, key=lambda err: (err.line_no, err.line_pos), reverse=False):\n",
        "QUIET", None, "R33d: the sort inline, lambda parameter renamed, reverse=False spelled out",
    ),
    Variant(
        "dedupe-buffer-reset-per-rule-code", LFILE,
        "        for v in violations:\n            signature = v.source_signature()\n",
        "        last_code = None\n        for v in violations:\n            if v.rule_code() != last_code:\n                last_code = v.rule_code()\n                dedupe_buffer = set()\n            signature = v.source_signature()\n",
        "R33a", "deduplicate_in_source_space", "seeded C33-3 (re-created instead of cleared): copies of a violation from two variants are separated by other codes",
    ),
    # behaviour-preserving refactors: must stay quiet
    Variant(
        "quiet-alternate-variant-through-locals", LINTER,
        "                ) = cls.lint_fix_parsed(\n                    alternate_variant.tree,\n",
        "                ) = cls.lint_fix_parsed(\n                    tree=alternate_variant.tree,\n",
        "QUIET", None, "tree passed by keyword",
    ),
    Variant(
        "quiet-alternate-result-kept-whole-then-indexed", LINTER,
        _ALT_CALL + _ALT_REST,
        "                alt_result = cls.lint_fix_parsed(\n                    alternate_variant.tree,\n" + _ALT_REST.replace(
            "                violations += alt_linting_errors\n",
            "                alt_fixed_tree = alt_result[0]\n                violations += alt_result[1]\n",
        ),
        "QUIET", None, "R33c: the 4-tuple of lint_fix_parsed kept whole and subscripted, instead of unpacked",
    ),
    Variant(
        "quiet-alternate-templated-file-through-local", LINTER,
        _ALT_CALL + _ALT_REST.split("                    templated_file=")[0] + "                    templated_file=alternate_variant.templated_file,\n",
        "                alt_templated_file = alternate_variant.templated_file\n" + _ALT_CALL + _ALT_REST.split("                    templated_file=")[0] + "                    templated_file=alt_templated_file,\n",
        "QUIET", None, "R33c: the variant's templated file read into a local first",
    ),
    Variant(
        "quiet-lintedfile-dedupe-through-local-and-keywords", LINTER,
        "        linted_file = LintedFile(\n            parsed.fname,\n            # Deduplicate violations\n            LintedFile.deduplicate_in_source_space(violations),\n            FileTimings(time_dict, rule_timings),\n            tree,\n",
        "        unique_violations = LintedFile.deduplicate_in_source_space(violations)\n        linted_file = LintedFile(\n            path=parsed.fname,\n            violations=unique_violations,\n            timings=FileTimings(time_dict, rule_timings),\n            tree=tree,\n",
        "QUIET", None, "R33a: de-duplicated list bound to a local; keyword arguments",
    ),
    Variant(
        "quiet-dedupe-early-continue-and-add-first", LFILE,
        _DEDUPE_LOOP,
        "        for violation in violations:\n            signature = violation.source_signature()\n            if signature in dedupe_buffer:\n"
        "                linter_logger.debug(\"Removing duplicate source violation: %r\", violation)\n                continue\n"
        "            dedupe_buffer.add(signature)\n            new_violations.append(violation)\n",
        "QUIET", None, "R33a: if/else respelled as early continue; add before append; loop variable renamed",
    ),
    Variant(
        "quiet-dedupe-seen-test-in-boolean-local", LFILE,
        _DEDUPE_LOOP,
        "        for v in violations:\n            signature = v.source_signature()\n            is_new = signature not in dedupe_buffer\n            if is_new:\n"
        "                new_violations.append(v)\n                dedupe_buffer.add(signature)\n            else:\n"
        "                linter_logger.debug(\"Removing duplicate source violation: %r\", v)\n",
        "QUIET", None, "R33a: the seen-set test hoisted into a boolean local",
    ),
    Variant(
        "quiet-dedupe-sorts-in-place", LFILE,
        "        return sorted(new_violations, key=lambda v: (v.line_no, v.line_pos))\n",
        "        new_violations.sort(key=lambda v: (v.line_no, v.line_pos))\n        return new_violations\n",
        "QUIET", None, "R33a: list.sort on the fresh list instead of sorted() (both stable, same key)",
    ),
    Variant(
        "quiet-dedupe-signature-inlined-sorted-through-local", LFILE,
        _DEDUPE_LOOP + "        # Sort on return so that if any are out of order, they're now ordered\n        # appropriately. This happens most often when linting multiple variants.\n        return sorted(new_violations, key=lambda v: (v.line_no, v.line_pos))\n",
        "        for v in violations:\n            if v.source_signature() not in dedupe_buffer:\n"
        "                new_violations.append(v)\n                dedupe_buffer.add(v.source_signature())\n            else:\n"
        "                linter_logger.debug(\"Removing duplicate source violation: %r\", v)\n"
        "        ordered = sorted(new_violations, key=lambda v: (v.line_no, v.line_pos))\n        return ordered\n",
        "QUIET", None, "R33a: signature computed in place at both uses; sorted list through a local",
    ),
    Variant(
        "quiet-dedupe-sort-key-as-attrgetter", LFILE,
        "        return sorted(new_violations, key=lambda v: (v.line_no, v.line_pos))\n",
        "        from operator import attrgetter\n\n        return sorted(new_violations, key=attrgetter(\"line_no\", \"line_pos\"))\n",
        "QUIET", None, "R33a: key lambda respelled with operator.attrgetter",
    ),
    Variant(
        "quiet-records-filled-in-a-loop-sorted-by-itemgetter", LDIR,
        _RECORDS,
        "        from operator import itemgetter\n\n        unsorted_records = []\n        for v in file.get_violations(filter_warning=False):\n            unsorted_records.append(v.to_dict())\n"
        "        violation_records = sorted(\n            unsorted_records,\n            key=itemgetter(\"start_line_no\", \"start_line_pos\", \"code\"),\n        )\n",
        "QUIET", None, "R33a: generator respelled as a loop filling a list; key by operator.itemgetter",
    ),
    Variant(
        "quiet-check-tuple-through-locals", ERRORS,
        "        return (\n            self.rule_code(),\n            self.line_no,\n            self.line_pos,\n        )\n",
        "        code = self.rule_code()\n        check = (code, self.line_no, self.line_pos)\n        return check\n",
        "QUIET", None, "R33b: check tuple built through locals",
    ),
    Variant(
        "quiet-signature-walk-through-locals", ERRORS,
        "        for fix in self.fixes:\n            if not fix.edit:\n                continue\n            for edit in fix.edit:\n                for source_edit in edit.source_fixes:\n",
        "        fixes = self.fixes\n        for fix in fixes:\n            edits = fix.edit\n            if not edits:\n                continue\n            for edit in edits:\n                source_fixes = edit.source_fixes\n                for source_edit in source_fixes:\n",
        "QUIET", None, "R33b: the iterated attributes read into locals first",
    ),
    Variant(
        "quiet-signature-fix-raws-over-local-fixes", ERRORS,
        "        fix_raws = tuple(\n            tuple(e.raw for e in f.edit) if f.edit else None for f in self.fixes\n        )\n",
        "        fixes = self.fixes\n        fix_raws = tuple(\n            tuple(e.raw for e in f.edit) if f.edit else None for f in fixes\n        )\n",
        "QUIET", None, "R33b: self.fixes read into a local first",
    ),
    Variant(
        "quiet-position-unpacked-into-the-parameters-first", ERRORS,
        _POS,
        "        if pos:\n            line_no, line_pos = pos.source_position()\n        self.line_no = line_no\n        self.line_pos = line_pos\n",
        "QUIET", None, "R33a: source position unpacked over the defaults, one unconditional store",
    ),
    Variant(
        "quiet-position-kept-whole-then-indexed", ERRORS,
        _POS,
        "        if pos:\n            position = pos.source_position()\n            self.line_no = position[0]\n            self.line_pos = position[1]\n        else:\n            self.line_no = line_no\n            self.line_pos = line_pos\n",
        "QUIET", None, "R33a: (line, pos) pair kept whole and subscripted",
    ),
    Variant(
        "quiet-records-violations-through-local", LDIR,
        _RECORDS,
        "        file_violations = file.get_violations(filter_warning=False)\n        violation_records = sorted(\n            [violation.to_dict() for violation in file_violations],\n"
        "            key=lambda record: (\n                record[\"start_line_no\"],\n                record[\"start_line_pos\"],\n                record[\"code\"],\n            ),\n        )\n",
        "QUIET", None, "R33a: get_violations() result through a local, list comprehension, renamed lambda parameter",
    ),
    Variant(
        "quiet-records-sorted-inline-in-the-record", LDIR,
        _RECORDS + "\n        record: LintingRecord = {\n            \"filepath\": file.path,\n            \"violations\": violation_records,\n",
        "        record: LintingRecord = {\n            \"filepath\": file.path,\n            \"violations\": sorted(\n                (v.to_dict() for v in file.get_violations(filter_warning=False)),\n"
        "                key=lambda v: (v[\"start_line_no\"], v[\"start_line_pos\"], v[\"code\"]),\n            ),\n",
        "QUIET", None, "R33a: the local inlined into the dict display",
    ),
    Variant(
        "quiet-signature-tuple-through-local", ERRORS,
        _SIG_RETURN,
        "        signature = (\n            self.check_tuple(),\n            self.description,\n            fix_raws,\n            tuple(_source_fixes),\n        )\n        return signature\n",
        "QUIET", None, "R33b: the signature tuple bound to a local before it is returned",
    ),
    Variant(
        "quiet-signature-source-slice-hoisted", ERRORS,
        _TRIPLE,
        "                    source_slice = source_edit.source_slice\n                    _source_fixes.append(\n                        (source_edit.edit, source_slice.start, source_slice.stop)\n                    )\n",
        "QUIET", None, "R33b: source_edit.source_slice read into a local",
    ),
    Variant(
        "quiet-signature-fix-raws-built-in-a-loop", ERRORS,
        "        fix_raws = tuple(\n            tuple(e.raw for e in f.edit) if f.edit else None for f in self.fixes\n        )\n",
        "        raws_per_fix = []\n        for f in self.fixes:\n            raws_per_fix.append(tuple(e.raw for e in f.edit) if f.edit else None)\n        fix_raws = tuple(raws_per_fix)\n",
        "QUIET", None, "R33b: generator expression respelled as a loop filling a list",
    ),
    Variant(
        "quiet-signature-source-fixes-skip-as-nested-if", ERRORS,
        "            if not fix.edit:\n                continue\n            for edit in fix.edit:\n                for source_edit in edit.source_fixes:\n                    # NOTE: It's important that we don't dedupe on the\n                    # templated slice for the source fix, because that will\n                    # be different for different locations in any loop.\n" + _TRIPLE,
        "            if fix.edit:\n                for edit in fix.edit:\n                    for source_edit in edit.source_fixes:\n                        _source_fixes.append(\n                            (\n                                source_edit.edit,\n                                source_edit.source_slice.start,\n                                source_edit.source_slice.stop,\n                            )\n                        )\n",
        "QUIET", None, "R33b: early continue respelled as a nested if",
    ),
    Variant(
        "signature-identifies-deletes-by-working-location", ERRORS,
        "            tuple(e.raw for e in f.edit) if f.edit else None for f in self.fixes\n",
        "            tuple(e.raw for e in f.edit) if f.edit else (f.anchor.raw, f.anchor.pos_marker.working_loc) for f in self.fixes\n",
        "R33b", "source_signature", "seeded C33-1: a delete fix inside a loop body is reported once per iteration",
    ),
    Variant(
        "alternate-variant-linted-with-root-templated-file", LINTER,
        "                    templated_file=alternate_variant.templated_file,\n",
        "                    templated_file=templated_file,\n",
        "R33c", "lint_parsed", "seeded C33-2",
    ),
    Variant(
        "lintedfile-gets-raw-violations", LINTER,
        "            LintedFile.deduplicate_in_source_space(violations),\n",
        "            violations,\n",
        "R33a", "lint_parsed",
    ),
    Variant(
        "lintedfile-dedupe-then-extend", LINTER,
        "        linted_file = LintedFile(\n            parsed.fname,\n            # Deduplicate violations\n            LintedFile.deduplicate_in_source_space(violations),\n",
        "        deduped = LintedFile.deduplicate_in_source_space(violations[:1])\n        deduped.extend(violations[1:])\n        linted_file = LintedFile(\n            parsed.fname,\n            # Deduplicate violations\n            deduped,\n",
        "R33a", "lint_parsed",
    ),
    Variant(
        "dedupe-sort-dropped", LFILE,
        "        return sorted(new_violations, key=lambda v: (v.line_no, v.line_pos))\n",
        "        return new_violations\n",
        "R33a", "deduplicate_in_source_space",
    ),
    Variant(
        "dedupe-sort-by-position-only", LFILE,
        "key=lambda v: (v.line_no, v.line_pos))",
        "key=lambda v: (v.line_pos, v.line_no))",
        "R33a", "deduplicate_in_source_space",
    ),
    Variant(
        "dedupe-sort-descending", LFILE,
        "key=lambda v: (v.line_no, v.line_pos))",
        "key=lambda v: (v.line_no, v.line_pos), reverse=True)",
        "R33a", "deduplicate_in_source_space",
    ),
    Variant(
        "dedupe-seen-test-dropped", LFILE,
        "            if signature not in dedupe_buffer:\n",
        "            if True:\n",
        "R33a", "deduplicate_in_source_space",
    ),
    Variant(
        "dedupe-signature-not-recorded", LFILE,
        "                new_violations.append(v)\n                dedupe_buffer.add(signature)\n",
        "                new_violations.append(v)\n",
        "R33a", "deduplicate_in_source_space",
    ),
    Variant(
        "dedupe-keeps-duplicates-too", LFILE,
        "                linter_logger.debug(\"Removing duplicate source violation: %r\", v)\n",
        "                linter_logger.debug(\"Removing duplicate source violation: %r\", v)\n                new_violations.append(v)\n",
        "R33a", "deduplicate_in_source_space",
    ),
    Variant(
        "position-from-templated-space", ERRORS,
        "            self.line_no, self.line_pos = pos.source_position()\n",
        "            self.line_no, self.line_pos = pos.templated_position()\n",
        "R33a", "SQLBaseError.__init__",
    ),
    Variant(
        "records-sorted-by-code-first", LDIR,
        "key=lambda v: (v[\"start_line_no\"], v[\"start_line_pos\"], v[\"code\"]),",
        "key=lambda v: (v[\"code\"], v[\"start_line_no\"], v[\"start_line_pos\"]),",
        "R33a", "LintedDir.add",
    ),
    Variant(
        "records-unsorted", LDIR,
        "        violation_records = sorted(\n            # Keep the warnings\n            (v.to_dict() for v in file.get_violations(filter_warning=False)),\n            # The tuple allows sorting by line number, then position, then code\n            key=lambda v: (v[\"start_line_no\"], v[\"start_line_pos\"], v[\"code\"]),\n        )\n",
        "        violation_records = list(\n            # Keep the warnings\n            (v.to_dict() for v in file.get_violations(filter_warning=False)),\n        )\n",
        "R33a", "LintedDir.add",
    ),
    Variant(
        "signature-includes-templated-slice", ERRORS,
        "                            source_edit.source_slice.stop,\n",
        "                            source_edit.source_slice.stop,\n                            source_edit.templated_slice.start,\n",
        "R33b", "SQLLintError.source_signature",
    ),
    Variant(
        "signature-drops-check-tuple", ERRORS,
        "        return (self.check_tuple(), self.description, fix_raws, tuple(_source_fixes))\n",
        "        return (self.rule_code(), self.description, fix_raws, tuple(_source_fixes))\n",
        "R33b", "SQLLintError.source_signature", "all positions of one rule collapse",
    ),
    Variant(
        "signature-drops-fix-raws", ERRORS,
        "        return (self.check_tuple(), self.description, fix_raws, tuple(_source_fixes))\n",
        "        return (self.check_tuple(), self.description, tuple(_source_fixes))\n",
        "R33b", "SQLLintError.source_signature",
    ),
    Variant(
        "signature-source-fix-without-range", ERRORS,
        "                            source_edit.edit,\n                            source_edit.source_slice.start,\n                            source_edit.source_slice.stop,\n",
        "                            source_edit.edit,\n",
        "R33b", "SQLLintError.source_signature",
    ),
    Variant(
        "base-signature-drops-description", ERRORS,
        "        return (self.check_tuple(), self.desc())\n",
        "        return (self.check_tuple(),)\n",
        "R33b", "SQLBaseError.source_signature",
    ),
    # the same breakages written in the refactored spellings the QUIET variants above accept
    Variant(
        "alternate-result-indexed-at-the-wrong-component", LINTER,
        _ALT_CALL + _ALT_REST,
        "                alt_result = cls.lint_fix_parsed(\n                    alternate_variant.tree,\n" + _ALT_REST.replace(
            "                violations += alt_linting_errors\n",
            "                alt_fixed_tree = alt_result[2]\n                violations += alt_result[1]\n",
        ),
        "R33c", "lint_parsed", "component 2 is the ignore mask, not the fixed tree",
    ),
    Variant(
        "alternate-local-holds-root-templated-file", LINTER,
        _ALT_CALL + _ALT_REST.split("                    templated_file=")[0] + "                    templated_file=alternate_variant.templated_file,\n",
        "                alt_templated_file = root_variant.templated_file\n" + _ALT_CALL + _ALT_REST.split("                    templated_file=")[0] + "                    templated_file=alt_templated_file,\n",
        "R33c", "lint_parsed",
    ),
    Variant(
        "dedupe-boolean-local-is-not-the-seen-test", LFILE,
        _DEDUPE_LOOP,
        "        for v in violations:\n            signature = v.source_signature()\n            is_new = bool(signature)\n            if is_new:\n"
        "                new_violations.append(v)\n                dedupe_buffer.add(signature)\n            else:\n"
        "                linter_logger.debug(\"Removing duplicate source violation: %r\", v)\n",
        "R33a", "deduplicate_in_source_space",
    ),
    Variant(
        "dedupe-boolean-local-stale-signature", LFILE,
        _DEDUPE_LOOP,
        "        signature = None\n        for v in violations:\n            is_new = signature not in dedupe_buffer\n            signature = v.source_signature()\n            if is_new:\n"
        "                new_violations.append(v)\n                dedupe_buffer.add(signature)\n            else:\n"
        "                linter_logger.debug(\"Removing duplicate source violation: %r\", v)\n",
        "R33a", "deduplicate_in_source_space", "the test reads the previous violation's signature",
    ),
    Variant(
        "dedupe-in-place-sort-by-position-only", LFILE,
        "        return sorted(new_violations, key=lambda v: (v.line_no, v.line_pos))\n",
        "        new_violations.sort(key=lambda v: (v.line_pos, v.line_no))\n        return new_violations\n",
        "R33a", "deduplicate_in_source_space",
    ),
    Variant(
        "dedupe-in-place-sort-then-reversed", LFILE,
        "        return sorted(new_violations, key=lambda v: (v.line_no, v.line_pos))\n",
        "        new_violations.sort(key=lambda v: (v.line_no, v.line_pos))\n        new_violations.reverse()\n        return new_violations\n",
        "R33a", "deduplicate_in_source_space",
    ),
    Variant(
        "dedupe-in-place-sort-only-on-one-path", LFILE,
        "        return sorted(new_violations, key=lambda v: (v.line_no, v.line_pos))\n",
        "        if len(dedupe_buffer) < 1000:\n            new_violations.sort(key=lambda v: (v.line_no, v.line_pos))\n        return new_violations\n",
        "R33a", "deduplicate_in_source_space",
    ),
    Variant(
        "position-unpacked-in-swapped-order", ERRORS,
        _POS,
        "        if pos:\n            line_pos, line_no = pos.source_position()\n        self.line_no = line_no\n        self.line_pos = line_pos\n",
        "R33a", "SQLBaseError.__init__",
    ),
    Variant(
        "position-indexed-from-working-location", ERRORS,
        _POS,
        "        if pos:\n            position = pos.working_loc\n            self.line_no = position[0]\n            self.line_pos = position[1]\n        else:\n            self.line_no = line_no\n            self.line_pos = line_pos\n",
        "R33a", "SQLBaseError.__init__",
    ),
    Variant(
        "records-local-is-not-get-violations", LDIR,
        _RECORDS,
        "        file_violations = file.violations\n        violation_records = sorted(\n            [violation.to_dict() for violation in file_violations],\n"
        "            key=lambda record: (\n                record[\"start_line_no\"],\n                record[\"start_line_pos\"],\n                record[\"code\"],\n            ),\n        )\n",
        "R33a", "LintedDir.add",
    ),
    Variant(
        "signature-local-tuple-drops-description", ERRORS,
        _SIG_RETURN,
        "        signature = (\n            self.check_tuple(),\n            fix_raws,\n            tuple(_source_fixes),\n        )\n        return signature\n",
        "R33b", "SQLLintError.source_signature",
    ),
    Variant(
        "signature-hoisted-slice-is-the-templated-one", ERRORS,
        _TRIPLE,
        "                    source_slice = source_edit.templated_slice\n                    _source_fixes.append(\n                        (source_edit.edit, source_slice.start, source_slice.stop)\n                    )\n",
        "R33b", "signature has source-fix (edit, start, stop)",
    ),
    Variant(
        "signature-fix-raws-loop-keeps-only-lengths", ERRORS,
        "        fix_raws = tuple(\n            tuple(e.raw for e in f.edit) if f.edit else None for f in self.fixes\n        )\n",
        "        raws_per_fix = []\n        for f in self.fixes:\n            raws_per_fix.append(len(f.edit) if f.edit else None)\n        fix_raws = tuple(raws_per_fix)\n",
        "R33b", "signature has edit raws",
    ),
    Variant(
        "dedupe-attrgetter-key-by-position-first", LFILE,
        "        return sorted(new_violations, key=lambda v: (v.line_no, v.line_pos))\n",
        "        from operator import attrgetter\n\n        return sorted(new_violations, key=attrgetter(\"line_pos\", \"line_no\"))\n",
        "R33a", "deduplicate_in_source_space",
    ),
    Variant(
        "records-loop-filled-from-unfiltered-attribute", LDIR,
        _RECORDS,
        "        from operator import itemgetter\n\n        unsorted_records = []\n        for v in file.violations:\n            unsorted_records.append(v.to_dict())\n"
        "        violation_records = sorted(\n            unsorted_records,\n            key=itemgetter(\"start_line_no\", \"start_line_pos\", \"code\"),\n        )\n",
        "R33a", "record violations from file.get_violations()",
    ),
    Variant(
        "records-itemgetter-key-by-code-first", LDIR,
        _RECORDS,
        "        from operator import itemgetter\n\n        unsorted_records = []\n        for v in file.get_violations(filter_warning=False):\n            unsorted_records.append(v.to_dict())\n"
        "        violation_records = sorted(\n            unsorted_records,\n            key=itemgetter(\"code\", \"start_line_no\", \"start_line_pos\"),\n        )\n",
        "R33a", "record violations sorted by (line, pos, code)",
    ),
    Variant(
        "check-tuple-local-holds-rule-name", ERRORS,
        "        return (\n            self.rule_code(),\n            self.line_no,\n            self.line_pos,\n        )\n",
        "        code = self.rule_name()\n        check = (code, self.line_no, self.line_pos)\n        return check\n",
        "R33b", "check_tuple = (code, line, pos)",
    ),
    Variant(
        "signature-walk-local-holds-first-edit-only", ERRORS,
        "        for fix in self.fixes:\n            if not fix.edit:\n                continue\n            for edit in fix.edit:\n                for source_edit in edit.source_fixes:\n",
        "        fixes = self.fixes\n        for fix in fixes:\n            edits = fix.edit[:1]\n            if not edits:\n                continue\n            for edit in edits:\n                source_fixes = edit.source_fixes\n                for source_edit in source_fixes:\n",
        "R33b", "signature has source-fix (edit, start, stop)",
    ),
]
