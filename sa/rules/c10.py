"""C10 — fixes never edit template code: the four independent filters are *wired*.

R10a  ``BaseRule._process_lint_result`` calls ``self.discard_unsafe_fixes(res, templated_file)``
      on every path to the hand-over of the result's fixes (``new_fixes.extend(res.fixes)``),
      skipped only when ``self.template_safe_fixes`` is true and under no other condition;
      ``discard_unsafe_fixes`` empties the result's fixes when any fix
      ``has_template_conflicts(templated_file)``; ``crawl`` returns only fixes that went through
      ``_process_lint_result``; no rule class overrides these three methods; the classes that
      set ``template_safe_fixes`` to true are exactly the reviewed table ``TEMPLATE_SAFE``.
R10b  ``SourceFix(...)`` (the only way to edit inside a template tag) is constructed exactly
      in the reviewed functions of table ``SOURCE_FIX_SITES``; the class is not aliased or
      passed around as a value.
R10c  in ``generate_source_patches`` every append to the list that is sorted and returned is
      dominated by one of: no local raw slices / all local slice types are ``literal``;
      ``patch.patch_category == "source"``; the patch is a zero-length insert starting at
      ``local_raw_slices[0].source_idx`` — all about the patch being appended and the raw
      slices spanning *its* source slice.
R10d  ``fix_string`` passes ``self.templated_file.source_only_slices()`` as the slicer's second
      argument (def-use), and the templated file's own source string as the third.

Spellings seen through (all decided on resolved facts: ``origins()``, dominance facts with
boolean locals opened up, attribute chains with local aliases expanded):
a value read through a local (``fixes = res.fixes``, ``src = patch.source_slice``, ``t =
self.templated_file``); a test held in a boolean local; ``a or b`` as ``if/elif`` or as two early
exits; ``extend(x)`` as a loop of ``append``; the conflict loop as ``any(<call> for fix in
<result>.fixes)``; ``==`` operands in either order and as a chain ``a == b == c``; the slice types
collected as a list, a generator or directly as a set, and ``all(t == "literal" for t in types)``
for (no slices or all literal); the keeping arms setting a boolean flag that is assigned on every
path of the iteration, with one append under the flag; keyword or positional arguments; the kept list sorted in place
(mutators that cannot add an element are not this rule's business); in R10e the length / the list
read through a local.

Tables: one symbol per entry with the reason it was accepted; an entry whose symbol has
disappeared is reported as stale in the evidence, never as a violation.

Not decided: that the filters' slice arithmetic is right for every template.
"""

from __future__ import annotations

import ast

from ..cfg import atoms, cfg_of, origins
from ..flowutil import (
    branch_of, callee, describe_origin, for_origin, is_fresh_list, must_pass, mutations_of, param_origin,
    sole_expr_origin, sorted_info,
)
from ..index import AnalysisError, FuncNode, arg_of, call_name, calls_in, last_attr, norm, short, walk_local
from ..report import construct_of

BASE = "src/sqlfluff/core/rules/base.py"
PATCH = "src/sqlfluff/core/linter/patch.py"
LFILE = "src/sqlfluff/core/linter/linted_file.py"
SLICER = "LintedFile._slice_source_file_using_patches"

# Reviewed 2026-09: classes that switch the generic template-safety discard off.
TEMPLATE_SAFE = {
    "src/sqlfluff/rules/layout/LT02.py::Rule_LT02": (
        "indentation is computed by utils.reflow.reindent over the whole file; it treats template "
        "blocks/placeholders itself (skips or edits them through whitespace-only SourceFix) and needs "
        "fixes anchored next to placeholders, which the generic discard would drop"
    ),
    "src/sqlfluff/rules/layout/LT05.py::Rule_LT05": (
        "line breaking reuses the same reflow rebreak/reindent machinery as LT02 and re-indents the "
        "broken line, including lines that contain placeholders"
    ),
}

# Reviewed 2026-09: functions allowed to build a SourceFix (an edit inside template code).
SOURCE_FIX_SITES = {
    "src/sqlfluff/rules/jinja/JJ01.py::Rule_JJ01._eval": (
        "the rule whose purpose is to edit tags: pads the whitespace inside Jinja tag delimiters (the property's named exception)"
    ),
    "src/sqlfluff/rules/layout/LT12.py::Rule_LT12._eval": (
        "file ends in a placeholder: replaces only the trailing whitespace of its source by one newline"
    ),
    "src/sqlfluff/utils/reflow/reindent.py::_lint_line_starting_indent": (
        "first line starts inside a placeholder: removes the leading indent characters only"
    ),
    "src/sqlfluff/utils/reflow/elements.py::ReflowPoint.indent_to": (
        "indent lives inside a placeholder's source: rewrites only the whitespace after its last newline"
    ),
}


def run(chk) -> None:
    repo = chk.repo
    chk.rule("R10a", "every lint result passes discard_unsafe_fixes before its fixes are handed on, unless its rule class is in the reviewed template-safe table")
    chk.rule("R10b", "SourceFix is constructed only in the reviewed functions")
    chk.rule("R10c", "generate_source_patches keeps a patch touching non-literal raw slices only if it is an explicit source patch or a zero-length insert on a slice boundary")
    chk.rule("R10d", "fix_string hands the templated file's source-only slices to the slicer")
    _r10a(chk, repo)
    _r10b(chk, repo)
    _r10c(chk, repo)
    _r10d(chk, repo)
    chk.rule("R10e", "the raw-slice lookups both template-safety filters rely on scan the whole slice list: in a `while <E> < len(S) and .. S[I] ..` scan the bounded expression E is one of the subscripted indices I")
    _r10e(chk, repo)
    chk.rule("R10f", "has_template_conflicts treats EVERY templated raw slice as a conflict: its any()/all() tests are `<slice>.slice_type == \"templated\"` with no narrowing conjunct")
    chk.rule("R10g", "the break-safety guard of template-safe reflow (LT05 skips the discard step) decides on nothing but whether the two neighbours are literal: a break between two non-literal neighbours is never safe")
    _r10f(chk, repo)
    _r10g(chk, repo)
    chk.rule("R10h", "JJ01 takes a tag apart without touching its expression: of the text between the markers exactly one leading and one trailing whitespace-control character ('+' or '-', the same set on both sides) is moved to the marker, by a one-character slice; nothing is strip()ped by character set")
    chk.rule("R10i", "a source range counts as 'past the end of the file' only from the end of the last raw slice: the bound of the early `return []` of raw_slices_spanning_source_slice is that slice's end on every path")
    _r10h(chk, repo)
    _r10i(chk, repo)
    chk.rule("R10j", "the text JJ01 writes back is tag_pre + ws_pre' + inner + ws_post' + tag_post: the five components unpacked from _get_whitespace_ends, in that order, the two whitespace components replaced only by their own fix (`fix or component`), read through locals")
    _r10j(chk, repo)


def _r10h(chk, repo) -> None:
    from ..idioms import conditions_at

    f = repo.fn("src/sqlfluff/rules/jinja/JJ01.py", "Rule_JJ01._get_whitespace_ends")
    cfg = cfg_of(f)
    for c in [c for c in ast.walk(f) if isinstance(c, ast.Call) and isinstance(c.func, ast.Attribute) and c.func.attr in ("strip", "lstrip", "rstrip") and (c.args or c.keywords)]:
        chk.fail(
            "R10h", c,
            f"_get_whitespace_ends removes characters by set ({short(c, 40)}): a unary sign that follows the whitespace-control character (`{{{{--x}}}}`) is removed with it and the tag's "
            "expression is rewritten by the source fix",
            detail="JJ01: no strip by character set on the tag text",
        )
    sets = {}
    n = 0
    for st in walk_local(f):
        if not (isinstance(st, ast.Assign) and len(st.targets) == 1 and isinstance(st.targets[0], ast.Name) and isinstance(st.value, ast.Subscript) and isinstance(st.value.slice, ast.Slice)
                and isinstance(st.value.value, ast.Name) and st.value.value.id == st.targets[0].id):
            continue
        sl = st.value.slice
        side = None
        if sl.lower is not None and sl.upper is None:
            side, k = "leading", sl.lower
        elif sl.upper is not None and sl.lower is None:
            side, k = "trailing", sl.upper
        if side is None:
            continue
        one = (isinstance(k, ast.Constant) and k.value == 1) or (isinstance(k, ast.UnaryOp) and isinstance(k.op, ast.USub) and isinstance(k.operand, ast.Constant) and k.operand.value == 1)
        n += 1
        chk.require(one, "R10h", st, f"the {side} modifier is cut off with `{short(st.value, 30)}`, not a one-character slice", detail=f"JJ01: {side} modifier is one character")
        chars = None
        for e, pol in conditions_at(cfg, st):
            if pol and isinstance(e, ast.Compare) and len(e.ops) == 1 and isinstance(e.left, ast.Subscript):
                r = e.comparators[0]
                if isinstance(r, ast.Name):
                    os_ = origins(cfg, r, cfg.stmt_of(e) or st)
                    r = os_[0].expr if len(os_) == 1 and os_[0].kind == "expr" else r
                if isinstance(e.ops[0], ast.In) and isinstance(r, (ast.List, ast.Tuple, ast.Set)) and all(isinstance(x, ast.Constant) for x in r.elts):
                    chars = frozenset(x.value for x in r.elts)
                elif isinstance(e.ops[0], ast.In) and isinstance(r, ast.Constant) and isinstance(r.value, str):
                    chars = frozenset(r.value)
                elif isinstance(e.ops[0], ast.Eq) and isinstance(r, ast.Constant):
                    chars = frozenset([r.value])
        sets[side] = chars
    chk.count("R10h.modifier_cuts", n)
    chk.require(
        sets.get("leading") == frozenset("+-") and sets.get("trailing") == frozenset("+-"), "R10h", f,
        f"the whitespace-control characters recognised are {sorted(sets.get('leading') or [])} in front and {sorted(sets.get('trailing') or [])} at the end of a tag, not '+' and '-' on both sides: "
        "the other one is treated as part of the expression and re-spaced (`{% if x +%}` -> `{% if x + %}`, which no longer renders)",
        detail="JJ01: '+' and '-' are modifiers on both sides of a tag",
    )


def _r10j(chk, repo) -> None:
    """JJ01 rebuilds a tag from its own five parts, in order; a whitespace part gives way only to its own fix.

    Spellings seen through: the replacement text by position or as ``edit=``; the parts joined by ``+``, an f-string
    (no literal text, no conversion) or ``"".join([...])`` (list through a local); a part read through locals; the
    tuple kept whole and read by constant index; ``fix or part``, a conditional expression with the part as one arm,
    or a local that holds the part and is overwritten by something that is not a part; the expression moved into a
    one-``return`` helper (nested: closes over the parts; module level / method: gets them as arguments)."""
    rel = "src/sqlfluff/rules/jinja/JJ01.py"
    f = repo.fn(rel, "Rule_JJ01._eval")
    cfg = cfg_of(f)
    sfx = [c for c in calls_in(f) if last_attr(c) == "SourceFix" and arg_of(c, 0, "edit") is not None]
    if not sfx:
        raise AnalysisError("R10j: JJ01._eval no longer builds a SourceFix (anchor refactored)")

    def is_ends_call(e) -> bool:
        return isinstance(e, ast.Call) and last_attr(e) == "_get_whitespace_ends"

    def const_index(sub):
        k = sub.slice
        if isinstance(k, ast.Constant) and isinstance(k.value, int) and not isinstance(k.value, bool) and 0 <= k.value <= 4:
            return k.value
        return None

    def leaf_comp(e, path, at):
        """Component index when (e, path) denotes one element of the tuple returned by _get_whitespace_ends."""
        if is_ends_call(e):
            return path[0] if len(path) == 1 and isinstance(path[0], int) else None
        if isinstance(e, ast.Subscript) and not path:
            k = const_index(e)
            if k is None:
                return None
            if is_ends_call(e.value):
                return k
            if isinstance(e.value, ast.Name):
                os_ = origins(cfg, e.value, at)
                if os_ and all(o.kind == "expr" and is_ends_call(o.expr) and not o.path for o in os_):
                    return k
        return None

    def sub_env(e, env):
        while isinstance(e, ast.Name) and env and e.id in env:
            e, env = env[e.id]
        return e, env

    def comps(e, at, env=None):
        """(set of component indices the value of ``e`` may be, whether it may also be something that is no component)."""
        e, env = sub_env(e, env)
        if isinstance(e, ast.Name):
            idx, other = set(), False
            for o in origins(cfg, e, at):
                k = leaf_comp(o.expr, o.path, o.stmt or at) if o.kind == "expr" else None
                if k is None:
                    other = True
                else:
                    idx.add(k)
            return idx, other
        k = leaf_comp(e, (), at)
        return ({k}, False) if k is not None else (set(), True)

    def comp(e, at, env=None):
        idx, other = comps(e, at, env)
        return next(iter(idx)) if len(idx) == 1 and not other else None

    def helper_of(call):
        """(function, nested?) for a call of a one-``return`` helper defined in _eval, in the module or on the class."""
        fn = call.func
        name = fn.id if isinstance(fn, ast.Name) else fn.attr if isinstance(fn, ast.Attribute) and isinstance(fn.value, ast.Name) and fn.value.id in ("self", "cls", "Rule_JJ01") else None
        if name is None or name == "_get_whitespace_ends":
            return None, False
        for d in ast.walk(f):
            if isinstance(d, (ast.FunctionDef,)) and d is not f and d.name == name and isinstance(fn, ast.Name):
                return d, True
        mod = repo.mod(rel)
        for qn in (name, f"Rule_JJ01.{name}"):
            try:
                return repo.fn(rel, qn), False
            except AnalysisError:
                continue
        return None, False

    def helper_return(d):
        body = [s for s in d.body if not (isinstance(s, ast.Expr) and isinstance(s.value, ast.Constant))]
        if len(body) == 1 and isinstance(body[0], ast.Return) and body[0].value is not None:
            return body[0].value
        return None

    def bind(d, call, env, nested):
        a = d.args
        if a.vararg or a.kwarg or a.kwonlyargs or any(isinstance(x, ast.Starred) for x in call.args) or any(k.arg is None for k in call.keywords):
            return None
        params = [x.arg for x in a.posonlyargs + a.args]
        if params and params[0] in ("self", "cls") and isinstance(call.func, ast.Attribute):
            params = params[1:]
        if len(call.args) > len(params):
            return None
        out = {}
        for pn, av in zip(params, call.args):
            out[pn] = (av, env)
        for k in call.keywords:
            if k.arg not in params or k.arg in out:
                return None
            out[k.arg] = (k.value, env)
        if set(out) != set(params):
            return None  # defaults: not followed
        ret = helper_return(d)
        free = {n.id for n in ast.walk(ret) if isinstance(n, ast.Name)} - set(params)
        if free and not nested:
            return None
        if nested and env:
            return None
        return out

    def flat(e, at, env=None, depth=0):
        e, env = sub_env(e, env)
        if isinstance(e, ast.BinOp) and isinstance(e.op, ast.Add):
            return flat(e.left, at, env, depth) + flat(e.right, at, env, depth)
        if isinstance(e, ast.JoinedStr):
            out = []
            for v in e.values:
                if isinstance(v, ast.FormattedValue) and v.conversion == -1 and v.format_spec is None:
                    out += flat(v.value, at, env, depth)
                elif isinstance(v, ast.Constant) and v.value == "":
                    continue
                else:
                    out.append((v, at, env))
            return out
        if isinstance(e, ast.Call) and isinstance(e.func, ast.Attribute) and e.func.attr == "join" and isinstance(e.func.value, ast.Constant) and e.func.value.value == "" and len(e.args) == 1 and not e.keywords:
            seq, senv, sat = e.args[0], env, at
            seq, senv = sub_env(seq, senv)
            if isinstance(seq, ast.Name):
                os_ = origins(cfg, seq, at)
                if len(os_) == 1 and os_[0].kind == "expr" and not os_[0].path and isinstance(os_[0].expr, (ast.List, ast.Tuple)) and not _mutated_between(seq.id, os_[0].stmt, at):
                    seq, sat = os_[0].expr, os_[0].stmt
            if isinstance(seq, (ast.List, ast.Tuple)) and not any(isinstance(x, ast.Starred) for x in seq.elts):
                out = []
                for x in seq.elts:
                    out += flat(x, sat, senv, depth)
                return out
        if isinstance(e, ast.Call) and depth < 4:
            d, nested = helper_of(e)
            if d is not None and helper_return(d) is not None:
                new_env = bind(d, e, env, nested)
                if new_env is not None:
                    return flat(helper_return(d), at, new_env, depth + 1)
        if isinstance(e, ast.Name) and depth < 4 and not comps(e, at, env)[0]:
            os_ = origins(cfg, e, at)
            if len(os_) == 1 and os_[0].kind == "expr" and isinstance(os_[0].expr, (ast.BinOp, ast.BoolOp, ast.Name, ast.IfExp, ast.JoinedStr, ast.Call)) and not os_[0].path:
                return flat(os_[0].expr, os_[0].stmt, None, depth + 1)
        return [(e, at, env)]

    def _mutated_between(name, def_stmt, use_stmt) -> bool:
        """A list held in a local and changed in place (append/insert/extend/item assignment/+=) anywhere in _eval."""
        for n in walk_local(f):
            if isinstance(n, ast.Attribute) and isinstance(n.value, ast.Name) and n.value.id == name and n.attr in ("append", "insert", "extend", "pop", "remove", "reverse", "sort", "clear"):
                return True
            if isinstance(n, ast.Subscript) and isinstance(n.value, ast.Name) and n.value.id == name and isinstance(n.ctx, (ast.Store, ast.Del)):
                return True
            if isinstance(n, ast.AugAssign) and isinstance(n.target, ast.Name) and n.target.id == name:
                return True
        return False

    def slot(e, at, env):
        """('is', k): the value is component k and nothing else; ('or', k): component k or something that is no
        component (its fix); (?, None): anything else."""
        e, env = sub_env(e, env)
        if isinstance(e, ast.BoolOp) and isinstance(e.op, ast.Or) and len(e.values) == 2:
            return ("or", comp(e.values[1], at, env) if not comps(e.values[0], at, env)[0] else None)
        if isinstance(e, ast.IfExp):
            arms = [comps(e.body, at, env), comps(e.orelse, at, env)]
            pure = [next(iter(i)) for i, o in arms if len(i) == 1 and not o]
            foreign = [1 for i, o in arms if not i]
            return ("or", pure[0] if len(pure) == 1 and len(foreign) == 1 else None)
        idx, other = comps(e, at, env)
        if len(idx) == 1 and not other:
            return ("is", next(iter(idx)))
        if len(idx) == 1 and other:
            return ("or", next(iter(idx)))
        return ("is", None)

    n = 0
    for c in sfx:
        st = cfg.stmt_of(c)
        parts = flat(arg_of(c, 0, "edit"), st)
        n += 1
        got = [slot(e, at, env) for e, at, env in parts]
        idxs = [g[1] for g in got]
        chk.require(
            idxs == [0, 1, 2, 3, 4] and got[0][0] == got[2][0] == got[4][0] == "is", "R10j", c,
            f"the replacement text of the JJ01 source fix is built from the parts {idxs} of _get_whitespace_ends (wanted 0..4 in order, the tag ends and the inner text unchanged, each "
            "whitespace part falling back to itself): the tag is rebuilt with a part missing, doubled or swapped, so its content changes or the next run changes it again",
            detail="JJ01: tag rebuilt from its own five parts in order",
        )
    chk.count("R10j.source_fix_sites", n)


def _r10i(chk, repo) -> None:
    f = repo.fn("src/sqlfluff/core/templaters/base.py", "TemplatedFile.raw_slices_spanning_source_slice")
    cfg = cfg_of(f)
    n = 0
    for st in walk_local(f):
        if not (isinstance(st, ast.If) and any(isinstance(b, ast.Return) and isinstance(b.value, (ast.List, ast.Tuple)) and not b.value.elts for b in st.body)):
            continue
        t = st.test
        if not (isinstance(t, ast.Compare) and len(t.ops) == 1 and isinstance(t.ops[0], (ast.GtE, ast.Gt)) and "start" in norm(t.left)):
            continue
        n += 1
        bound = t.comparators[0]
        exprs = [bound]
        if isinstance(bound, ast.Name):
            exprs = [o.expr for o in origins(cfg, bound, st) if o.kind == "expr"]
        def is_end(e) -> bool:
            if isinstance(e, ast.IfExp):
                return is_end(e.body) and is_end(e.orelse)
            txt = norm(e)
            return "end_source_idx()" in txt or ("source_idx" in txt and "len(" in txt and ".raw" in txt)
        bad = [short(e, 50) for e in exprs if not is_end(e)]
        chk.require(
            bool(exprs) and not bad, "R10i", st,
            f"the 'past the end of the file' test compares the start of the range with {bad or '?'}, which is not the end of the last raw slice: a range that starts inside a trailing tag "
            "then spans no raw slice at all, both template-safety filters see nothing to object to, and the tag is deleted from the source",
            detail="raw_slices_spanning_source_slice: end of file is the end of the last raw slice",
        )
    chk.count("R10i.end_of_file_tests", n)
    chk.floor("R10i.end_of_file_tests", 1)


def _r10f(chk, repo) -> None:
    f = repo.fn("src/sqlfluff/core/rules/fix.py", "LintFix.has_template_conflicts")
    n = 0
    for g in [x for x in walk_local(f) if isinstance(x, (ast.GeneratorExp, ast.ListComp))]:
        cmps = [c for c in ast.walk(g.elt) if isinstance(c, ast.Compare) and isinstance(c.left, ast.Attribute) and c.left.attr == "slice_type"]
        if not cmps:
            continue
        n += 1
        elt = g.elt
        ok = (
            isinstance(elt, ast.Compare) and len(elt.ops) == 1 and isinstance(elt.left, ast.Attribute) and elt.left.attr == "slice_type"
            and (
                (isinstance(elt.ops[0], ast.Eq) and isinstance(elt.comparators[0], ast.Constant) and elt.comparators[0].value == "templated")
                or (isinstance(elt.ops[0], ast.In) and isinstance(elt.comparators[0], (ast.Tuple, ast.List, ast.Set)) and any(isinstance(x, ast.Constant) and x.value == "templated" for x in elt.comparators[0].elts))
            )
        ) or (
            # widening is fine: `a or slice_type == "templated"`
            isinstance(elt, ast.BoolOp) and isinstance(elt.op, ast.Or) and any(c is v for c in cmps for v in elt.values)
        )
        chk.require(
            ok and not g.generators[0].ifs, "R10f", g,
            f"has_template_conflicts tests `{short(g.elt, 70)}`" + (" over a filtered list" if g.generators[0].ifs else "")
            + ": some templated slices no longer count as a conflict, so a fix anchored inside rendered template output survives the discard step and the "
            "template code is rewritten (or written twice)",
            detail="every templated slice is a conflict",
        )
    chk.count("R10f.templated_tests", n)
    chk.floor("R10f.templated_tests", 2)
    # which quantifier: `all` (conflict only if everything touched is templated) is for the zero-width create fixes only
    cfg = cfg_of(f)
    nq = 0
    for c in [c for c in calls_in(f) if c.args and isinstance(c.args[0], (ast.GeneratorExp, ast.ListComp)) and any(
            isinstance(x, ast.Attribute) and x.attr == "slice_type" for x in ast.walk(c.args[0].elt))]:
        fn = c.func
        U = {"create_before", "create_after", "replace", "delete"}

        def _vals(t):
            """(values, positive) of an `edit_type ==/in ...` test, else None."""
            if isinstance(t, ast.Compare) and len(t.ops) == 1:
                l, r = t.left, t.comparators[0]
                if isinstance(l, ast.Constant) and isinstance(t.ops[0], (ast.Eq, ast.NotEq)):
                    l, r = r, l
                if isinstance(l, ast.Name):
                    l = next((o.expr for o in origins(cfg, l, cfg.stmt_of(t) or cfg.stmt_of(c)) if o.kind == "expr" and isinstance(o.expr, ast.AST)), l)
                if not norm(l).endswith("edit_type"):
                    return None
                if isinstance(t.ops[0], (ast.In, ast.NotIn)) and isinstance(r, (ast.Tuple, ast.List, ast.Set)) and all(isinstance(x, ast.Constant) for x in r.elts):
                    return {x.value for x in r.elts}, isinstance(t.ops[0], ast.In)
                if isinstance(t.ops[0], (ast.Eq, ast.NotEq)) and isinstance(r, ast.Constant):
                    return {r.value}, isinstance(t.ops[0], ast.Eq)
            return None

        def _under(st) -> set:
            """Edit types under which statement ``st`` runs, as far as edit-type tests on the way tell."""
            from ..idioms import conditions_at

            u = set(U)
            for t, pol in conditions_at(cfg, st):
                v = _vals(t)
                if v is not None:
                    vals, positive = v
                    u &= vals if positive == pol else (U - vals)
            return u

        def _all_for(e, st) -> Optional[set]:
            under = _under(st) if st is not None else set(U)
            if isinstance(e, ast.Name) and e.id == "any":
                return set()
            if isinstance(e, ast.Name) and e.id == "all":
                return under
            if isinstance(e, ast.IfExp):
                v = _vals(e.test)
                a, b = _all_for(e.body, None), _all_for(e.orelse, None)
                if v is not None and a is not None and b is not None:
                    vals, positive = v
                    when_true = vals if positive else (U - vals)
                    return ((a & when_true) | (b & (U - when_true))) & under
            return None

        cands = []
        if isinstance(fn, ast.Name) and fn.id in ("any", "all"):
            cands = [(fn, cfg.stmt_of(c))]
        else:
            seen_st = set()
            for o in origins(cfg, fn, cfg.stmt_of(c)) if isinstance(fn, ast.Name) else []:
                if isinstance(o.stmt, (ast.Assign, ast.AnnAssign)) and o.stmt.value is not None and not o.path:
                    if id(o.stmt) not in seen_st:
                        seen_st.add(id(o.stmt))
                        cands.append((o.stmt.value, o.stmt))
                elif isinstance(o.expr, ast.AST):
                    cands.append((o.expr, o.stmt))
        if not cands:
            raise AnalysisError("R10f: the quantifier of has_template_conflicts' slice test is no longer any / all or a local holding one of them (anchor refactored)")
        total: set = set()
        for e, st_ in cands:
            nq += 1
            af = _all_for(e, st_)
            if af is None:
                raise AnalysisError(f"R10f: cannot read which of any / all `{short(e, 60)}` stands for in has_template_conflicts (an analysis gap, not a verdict)")
            total |= af
        extra = sorted(total - {"create_before", "create_after"})
        chk.require(
            not extra, "R10f", c,
            f"has_template_conflicts asks that ALL slices under the anchor be templated before a {'/'.join(extra)} fix counts as a conflict: a {'/'.join(extra)} whose anchor is part literal, part "
            "template output survives the discard step, its patch cannot be written and is dropped while its sibling patches are, and the file is left with half of a fix",
            detail="has_template_conflicts: any templated slice conflicts (all only for creates)",
        )
    chk.count("R10f.quantifier_sites", nq)


def _r10g(chk, repo) -> None:
    f = repo.fn("src/sqlfluff/utils/reflow/reindent.py", "_is_templated_safe_break")
    cfg = cfg_of(f)
    rets = [r for r in walk_local(f) if isinstance(r, ast.Return) and r.value is not None]
    chk.count("R10g.guard_returns", len(rets))
    if not rets:
        raise AnalysisError("_is_templated_safe_break has no return (anchor changed?)")
    ALLOWED_ATTRS = {"is_literal", "pos_marker", "segments"}
    for r in rets:
        # everything the result derives from, through locals and the conditions under which they were set
        todo, seen = [(r.value, r)], []
        leaves_bad = []
        while todo:
            e, at = todo.pop()
            if any(e is x for x in seen):
                continue
            seen.append(e)
            for sub in ast.walk(e):
                if isinstance(sub, ast.Name):
                    for o in origins(cfg, sub, at):
                        if o.kind == "expr" and o.expr is not None:
                            todo.append((o.expr, o.stmt))
                            if o.stmt is not None:
                                for ce, _pol in cfg.conditions(o.stmt):
                                    todo.append((ce, o.stmt))
                if isinstance(sub, ast.Attribute) and sub.attr not in ALLOWED_ATTRS:
                    leaves_bad.append(sub.attr)
        for ce, _pol in cfg.conditions(r):
            for sub in ast.walk(ce):
                if isinstance(sub, ast.Attribute) and sub.attr not in ALLOWED_ATTRS:
                    leaves_bad.append(sub.attr)
        chk.require(
            not leaves_bad, "R10g", r,
            f"the break-safety verdict also depends on {sorted(set(leaves_bad))}: two non-literal neighbours can then be declared a safe break point although the break "
            "falls inside rendered template output (the `{{ ... }}` expression is written twice)",
            detail="break safety decided by literalness of the neighbours only",
        )


def _r10e(chk, repo) -> None:
    """Fix discard (LintFix.get_fix_slices / has_template_conflicts) and the patch filter
    (generate_source_patches) both ask TemplatedFile which raw slices a source range spans.  Its
    scans have the shape ``while E < len(S) and S[I].f <op> x: advance``.  The bound is there to
    protect the subscript: if E is not one of the subscripted indices the scan either over-runs
    (IndexError) or stops short of the last slice -- and a template tag that is the last raw
    slice of a file is then invisible to both filters."""
    n = 0
    for rel in ("src/sqlfluff/core/templaters/base.py", PATCH, "src/sqlfluff/core/rules/fix.py"):
        m = repo.mod(rel)
        for q, f in m.functions():
            for w in walk_local(f):
                if not (isinstance(w, ast.While) and isinstance(w.test, ast.BoolOp) and isinstance(w.test.op, ast.And)):
                    continue
                cfg = cfg_of(f)

                def rd(x):
                    """A plain local read in the loop test stands for its single defining expression."""
                    y = sole_expr_origin(cfg, x, w) if isinstance(x, ast.Name) else x
                    return y if y is not None else x

                for c in w.test.values:
                    if not (isinstance(c, ast.Compare) and len(c.ops) == 1):
                        continue
                    bound_e = seq = None
                    l, r = c.left, c.comparators[0]
                    rl, rr = rd(l), rd(r)
                    if isinstance(c.ops[0], ast.Lt) and isinstance(rr, ast.Call) and call_name(rr) == "len" and rr.args:
                        bound_e, seq = l, rd(rr.args[0])
                    elif isinstance(c.ops[0], ast.Gt) and isinstance(rl, ast.Call) and call_name(rl) == "len" and rl.args:
                        bound_e, seq = r, rd(rl.args[0])
                    if bound_e is None:
                        continue
                    subs = [x.slice for v in w.test.values for x in ast.walk(v) if isinstance(x, ast.Subscript) and norm(rd(x.value)) == norm(seq)]
                    if not subs:
                        continue
                    n += 1
                    chk.require(
                        any(norm(i) == norm(bound_e) for i in subs), "R10e", w,
                        f"{q}: the scan is bounded by `{norm(bound_e)} < len({norm(seq)})` but subscripts {sorted({norm(i) for i in subs})}: the bound does not "
                        "protect the index that is read, so the scan stops short of (or runs past) the end of the slice list; a template tag in the last raw "
                        "slice is then missed by the template-safety filters",
                        detail=f"{q}: scan bound matches the subscripted index ({norm(seq)})",
                    )
    chk.count("R10e.bounded_scans", n)
    chk.floor("R10e.bounded_scans", 2)


# ---------------------------------------------------------------------------
# resolved facts shared by the rules: nothing below depends on the name of a local
def _xchain(cfg, node, at):
    """``(root, attribute tail, statement where root is evaluated)`` of an attribute chain with
    plain locals replaced by the single expression they hold: ``t = self.templated_file;
    t.source_str`` -> (``self``, ('templated_file', 'source_str'), <assign>)."""
    tail = []
    for _ in range(8):
        while isinstance(node, ast.Attribute):
            tail.append(node.attr)
            node = node.value
        if isinstance(node, ast.Name):
            os_ = origins(cfg, node, at)
            if len(os_) == 1 and os_[0].kind == "expr" and not os_[0].path and isinstance(os_[0].expr, ast.Attribute):
                node, at = os_[0].expr, os_[0].stmt
                continue
        break
    return node, tuple(reversed(tail)), at


def _xatoms(cfg, test, polarity, at, _depth=0):
    """``atoms()`` with boolean locals opened up: ``ok = a and b; if ok:`` gives the same facts as
    ``if a and b:``.  Triples (expr, truth, statement where expr is evaluated)."""
    out = []
    for e, pol in atoms(test, polarity):
        if isinstance(e, ast.Name) and _depth < 6:
            os_ = origins(cfg, e, at)
            if len(os_) == 1 and os_[0].kind == "expr" and not os_[0].path and not isinstance(os_[0].expr, ast.Name):
                out += _xatoms(cfg, os_[0].expr, pol, os_[0].stmt, _depth + 1)
                continue
        out.append((e, pol, at))
    return out


def _xconditions(cfg, stmt):
    """``cfg.conditions(stmt)`` on ``_xatoms``."""
    out = []
    for g in cfg.guards(stmt):
        if isinstance(g.stmt, (ast.If, ast.While)):
            out += _xatoms(cfg, g.stmt.test, g.polarity, g.stmt)
    return out


def _is_self_flag(cfg, e, at, attr) -> bool:
    root, tail, at2 = _xchain(cfg, e, at)
    return tail == (attr,) and isinstance(root, ast.Name) and root.id in ("self", "cls") and param_origin(cfg, root, at2) == root.id


def _is_fixes_of(cfg, e, at, pname) -> bool:
    """``<parameter pname>.fixes`` (possibly read through locals)."""
    if not isinstance(e, (ast.Name, ast.Attribute)):
        return False
    root, tail, at2 = _xchain(cfg, e, at)
    return tail == ("fixes",) and isinstance(root, ast.Name) and param_origin(cfg, root, at2) == pname


def _mentions_fixes_of(cfg, e, at, pname) -> bool:
    """The expression contains ``<pname>.fixes``, a local holding it, or the variable of a loop over it."""
    for n in ast.walk(e):
        if _is_fixes_of(cfg, n, at, pname):
            return True
        if isinstance(n, ast.Name):
            fo = for_origin(cfg, n, at)
            if fo is not None and not fo[1] and _is_fixes_of(cfg, fo[0].iter, fo[0], pname):
                return True
    return False


def _handover_sinks(cfg, f, res_p):
    """(node, out-parameter) for every place where the result's fixes are put into a caller-owned list."""
    sinks = []
    for c in calls_in(f):
        if last_attr(c) in ("extend", "append", "insert") and isinstance(c.func, ast.Attribute) and c.args:
            st = cfg.stmt_of(c)
            p = param_origin(cfg, c.func.value, st)
            if p and _mentions_fixes_of(cfg, c.args[-1], st, res_p):
                sinks.append((c, p))
    for n in walk_local(f):
        if isinstance(n, ast.AugAssign):
            p = param_origin(cfg, n.target, n)
            if p and _mentions_fixes_of(cfg, n.value, n, res_p):
                sinks.append((n, p))
    return sinks


def _r10a(chk, repo) -> None:
    f = repo.fn(BASE, "BaseRule._process_lint_result")
    disc = repo.fn(BASE, "BaseRule.discard_unsafe_fixes")
    cfg = cfg_of(f)
    params = [a.arg for a in f.args.args if a.arg not in ("self", "cls")]
    if len(params) < 2:
        raise AnalysisError("_process_lint_result signature changed")
    res_p = params[0]
    # sinks: the result's fixes handed to a caller-owned list
    sinks = [s for s, _ in _handover_sinks(cfg, f, res_p)]
    chk.count("R10a.fix_handover_sites", len(sinks))
    chk.floor("R10a.fix_handover_sites", 1)
    # discard calls with the right arguments
    dcalls = []
    for c in calls_in(f):
        if last_attr(c) == disc.name and (callee(repo, c) or (None, None))[1] is disc:
            a0, a1 = arg_of(c, 0, "lint_result"), arg_of(c, 1, "templated_file")
            if a0 is not None and a1 is not None and param_origin(cfg, a0, cfg.stmt_of(c)) == res_p and param_origin(cfg, a1, cfg.stmt_of(c)) == params[1]:
                dcalls.append(c)
    dstmts = [cfg.stmt_of(c) for c in dcalls]
    # branches that may legitimately skip the discard: exactly "self.template_safe_fixes is true"
    skips = []
    for d in dstmts:
        for g in cfg.guards(d):
            if not isinstance(g.stmt, ast.If):
                continue
            other = _xatoms(cfg, g.stmt.test, not g.polarity, g.stmt)
            if len(other) == 1 and other[0][1] is True and _is_self_flag(cfg, other[0][0], other[0][2], "template_safe_fixes"):
                b = branch_of(cfg, g.stmt, not g.polarity)
                if b is not None:
                    skips.append(b)
    for s in sinks:
        st = cfg.stmt_of(s) if not isinstance(s, ast.stmt) else s
        ok = bool(dstmts) and must_pass(cfg, cfg.entry, st, dstmts + skips)
        chk.require(
            ok, "R10a", s,
            "a lint result's fixes are handed on along a path that neither calls discard_unsafe_fixes(res, templated_file) nor is limited to rules "
            "declaring template_safe_fixes: fixes touching template code are no longer discarded",
            detail="fix hand-over passes discard_unsafe_fixes or template_safe_fixes",
        )
        chk.sample({"rule": "R10a", "site": f"{BASE}:{s.lineno}", "sink": short(s, 60), "discard_calls": [c.lineno for c in dcalls], "skip_branches": len(skips)})
    # the discard really consults has_template_conflicts and empties the fixes
    dcfg = cfg_of(disc)
    dparams = [a.arg for a in disc.args.args if a.arg not in ("self", "cls")]
    wired = False
    empties = [
        n for n in walk_local(disc)
        if isinstance(n, ast.Assign) and len(n.targets) == 1 and isinstance(n.targets[0], ast.Attribute) and n.targets[0].attr == "fixes"
        and param_origin(dcfg, n.targets[0].value, n) == dparams[0] and is_fresh_list(n.value)
    ]
    for c in calls_in(disc):
        if not (last_attr(c) == "has_template_conflicts" and isinstance(c.func, ast.Attribute)):
            continue
        a0 = arg_of(c, 0, "templated_file")
        if a0 is None or param_origin(dcfg, a0, dcfg.stmt_of(c)) != dparams[1]:
            continue
        # (i) `for fix in <result>.fixes: if fix.has_template_conflicts(tf): <empty>` -- the test may sit in a local
        fo = for_origin(dcfg, c.func.value, dcfg.stmt_of(c))
        if fo is not None and not fo[1] and _is_fixes_of(dcfg, fo[0].iter, fo[0], dparams[0]):
            if any(e is c and pol for n in empties for e, pol, _ in _xconditions(dcfg, n)):
                wired = True
        # (ii) `if any(fix.has_template_conflicts(tf) for fix in <result>.fixes): <empty>`
        for n in empties:
            for e, pol, at in _xconditions(dcfg, n):
                if not (pol and isinstance(e, ast.Call) and call_name(e) == "any" and len(e.args) == 1 and not e.keywords):
                    continue
                g = e.args[0]
                if not (isinstance(g, (ast.GeneratorExp, ast.ListComp)) and g.elt is c and len(g.generators) == 1 and not g.generators[0].ifs):
                    continue
                gen = g.generators[0]
                if isinstance(gen.target, ast.Name) and isinstance(c.func.value, ast.Name) and c.func.value.id == gen.target.id and _is_fixes_of(dcfg, gen.iter, at, dparams[0]):
                    wired = True
    chk.require(
        wired, "R10a", disc,
        "discard_unsafe_fixes does not empty the result's fixes under fix.has_template_conflicts(templated_file) for each of its fixes",
        detail="discard empties fixes on has_template_conflicts",
    )
    # early exits of the discard: only for "no fixes" / "no templated file"
    def _is_input(x, at) -> bool:
        return _is_fixes_of(dcfg, x, at, dparams[0]) or param_origin(dcfg, x, at) == dparams[1]

    def _implies_no_input(e, pol, at) -> bool:
        """The fact (e is pol) implies that the result has no fixes or that there is no templated file."""
        if not pol and _is_input(e, at):
            return True
        if isinstance(e, ast.BoolOp) and ((isinstance(e.op, ast.Or) and pol) or (isinstance(e.op, ast.And) and not pol)):
            # one of the alternatives holds: each of them has to imply it
            return all(any(_implies_no_input(a, p, at2) for a, p, at2 in _xatoms(dcfg, v, pol, at)) for v in e.values)
        return False

    hcalls = [dcfg.stmt_of(c) for c in calls_in(disc) if last_attr(c) == "has_template_conflicts"]
    for r in [r for r in walk_local(disc) if isinstance(r, ast.Return)]:
        if any(dcfg.reaches(h, r) for h in hcalls):
            continue  # after the conflict test
        gs = [g for g in dcfg.guards(r) if isinstance(g.stmt, ast.If)]
        tests = [short(g.stmt.test, 80) for g in gs]
        # every fact known at the return holds together: one that implies an accepted reason is enough
        chk.require(
            any(_implies_no_input(e, pol, at) for e, pol, at in _xconditions(dcfg, r)), "R10a", r,
            f"discard_unsafe_fixes returns before the template-conflict test under {tests}; accepted early exits are only 'no fixes' and 'no templated file'",
            detail="discard early exit only for no fixes / no templated file",
        )
    # crawl hands back only fixes that passed _process_lint_result
    _crawl(chk, repo, f)
    # no override anywhere
    n_over = 0
    for m in repo.iter_modules():
        if not any(x in m.text for x in ("_process_lint_result", "discard_unsafe_fixes", "def crawl")):
            continue
        for q, c in m.classes():
            if c is repo.cls(BASE, "BaseRule"):
                continue
            for item in c.body:
                if isinstance(item, FuncNode) and item.name in ("_process_lint_result", "discard_unsafe_fixes", "crawl"):
                    if any(cc.name == "BaseRule" for _, cc in repo.mro(m, c)):
                        n_over += 1
                        chk.fail("R10a", item, f"rule class {q} overrides {item.name}: its results can bypass the template-safety discard", detail=f"override {item.name}")
    chk.count("R10a.rule_classes_scanned", len(repo.subclasses_of("BaseRule")))
    chk.floor("R10a.rule_classes_scanned", 50)
    _template_safe_table(chk, repo)


def _crawl(chk, repo, plr) -> None:
    f = repo.fn(BASE, "BaseRule.crawl")
    cfg = cfg_of(f)
    rets = [r for r in walk_local(f) if isinstance(r, ast.Return) and isinstance(r.value, ast.Tuple) and len(r.value.elts) >= 3]
    chk.count("R10a.crawl_returns", len(rets))
    chk.floor("R10a.crawl_returns", 1)
    acc_names = {r.value.elts[2].id for r in rets if isinstance(r.value.elts[2], ast.Name)}
    for r in rets:
        if not isinstance(r.value.elts[2], ast.Name):
            chk.fail("R10a", r, "crawl returns fixes that are not the accumulated, discard-filtered list", detail=f"crawl fixes component: {short(r.value.elts[2], 60)}")
    # out-lists passed to _process_lint_result (5th parameter = new_fixes)
    pparams = [a.arg for a in plr.args.args if a.arg not in ("self", "cls")]
    out_idx = None
    pcfg = cfg_of(plr)
    for _, p in _handover_sinks(pcfg, plr, pparams[0]):
        if p in pparams:
            out_idx = pparams.index(p)
    # the lists handed to _process_lint_result as its out-parameter, identified by the expression
    # that created them (so that a second local naming the same list is the same list)
    passed = {}  # local name -> ids of the creating expressions
    n_calls = 0
    for c in calls_in(f):
        if last_attr(c) == plr.name and (callee(repo, c) or (None, None))[1] is plr:
            n_calls += 1
            a = arg_of(c, out_idx, pparams[out_idx]) if out_idx is not None else None
            if isinstance(a, ast.Name):
                passed.setdefault(a.id, set()).update(id(o.expr) for o in origins(cfg, a, cfg.stmt_of(c)) if o.kind == "expr")
    passed_ids = set().union(*passed.values()) if passed else set()
    chk.count("R10a.process_lint_result_calls", n_calls)
    chk.floor("R10a.process_lint_result_calls", 1)
    for acc in sorted(acc_names):
        for k, n in mutations_of(f, acc):
            src = None
            if k == "augassign":
                src = n.value
            elif k == "extend" and n.args:
                src = n.args[0]
            good = False
            if isinstance(src, ast.Name):
                os_ = origins(cfg, src, cfg.stmt_of(n))
                good = bool(os_) and all(o.kind == "expr" and is_fresh_list(o.expr) and id(o.expr) in passed_ids for o in os_)
                if good:
                    mine = {id(o.expr) for o in os_}
                    for nm in sorted({src.id} | {p for p, ids in passed.items() if ids & mine}):
                        for k2, n2 in mutations_of(f, nm):
                            chk.fail("R10a", n2, f"list of discard-filtered fixes changed by '{k2}' inside crawl", detail=f"filtered fixes list {k2}: {short(n2, 60)}")
            chk.require(
                good, "R10a", n,
                f"crawl adds fixes to its result from '{short(src, 50) if src is not None else k}', which is not a fresh list filled by _process_lint_result",
                detail=f"crawl fixes only from _process_lint_result: {short(n, 70)}",
            )


def _template_safe_table(chk, repo) -> None:
    found = {}
    for m in repo.iter_modules():
        if "template_safe_fixes" not in m.text:
            continue
        for n in ast.walk(m.tree):
            tgs, val = [], None
            if isinstance(n, ast.Assign):
                tgs, val = n.targets, n.value
            elif isinstance(n, (ast.AnnAssign, ast.AugAssign)):
                tgs, val = [n.target], n.value
            for t in tgs:
                if isinstance(t, ast.Name) and t.id == "template_safe_fixes":
                    cls = getattr(n, "_parent", None)
                    if isinstance(cls, ast.ClassDef):
                        found[f"{m.relpath}::{getattr(cls, '_qualname', cls.name)}"] = (n, val)
                    else:
                        chk.fail("R10a", n, "template_safe_fixes assigned outside a class body", detail=f"template_safe_fixes assignment: {short(n, 60)}")
                elif isinstance(t, ast.Attribute) and t.attr == "template_safe_fixes":
                    chk.fail("R10a", n, "template_safe_fixes is switched at run time; the template-safety discard can be turned off for any rule", detail=f"template_safe_fixes store: {short(n, 60)}")
            if isinstance(n, ast.Call) and call_name(n) == "setattr" and len(n.args) >= 2 and isinstance(n.args[1], ast.Constant) and n.args[1].value == "template_safe_fixes":
                chk.fail("R10a", n, "template_safe_fixes is switched through setattr", detail="template_safe_fixes setattr")
    chk.count("R10a.template_safe_assignments", len(found))
    chk.floor("R10a.template_safe_assignments", 1)  # the BaseRule default
    base_key = f"{BASE}::BaseRule"
    seen_true = set()
    for key, (n, val) in sorted(found.items()):
        if isinstance(val, ast.Constant) and val.value is False:
            chk.ok("R10a", key, "template_safe_fixes = False")
            continue
        if key == base_key:
            chk.fail("R10a", n, "BaseRule.template_safe_fixes no longer defaults to False: every rule skips the template-safety discard", detail="BaseRule default is False", construct=key)
            continue
        seen_true.add(key)
        reason = TEMPLATE_SAFE.get(key)
        chk.require(
            reason is not None and isinstance(val, ast.Constant) and val.value is True, "R10a", n,
            f"{key.split('::')[1]} sets template_safe_fixes = {short(val, 30) if val is not None else '?'} but is not in the reviewed table: its fixes reach the file without the template-conflict discard",
            detail=f"template_safe_fixes table: {key.split('::')[1]}", construct=key,
        )
        chk.sample({"rule": "R10a", "class": key, "reviewed_reason": reason})
    if base_key not in found:
        chk.fail("R10a", repo.cls(BASE, "BaseRule"), "BaseRule has no template_safe_fixes = False default", detail="BaseRule default is False")
    for key in TEMPLATE_SAFE:
        if key not in seen_true:
            chk.note(f"R10a: stale table entry (class no longer sets template_safe_fixes): {key}")


# ---------------------------------------------------------------------------
def _r10b(chk, repo) -> None:
    sf = None
    for rel in ("src/sqlfluff/core/parser/segments/base.py",):
        m = repo.mod(rel)
        if m.has("SourceFix"):
            sf = m.get("SourceFix")
    if not isinstance(sf, ast.ClassDef):
        raise AnalysisError("class SourceFix not found in core/parser/segments/base.py")
    seen = set()
    n_sites = 0
    for m in repo.iter_modules():
        if "SourceFix" not in m.text:
            continue
        for n in ast.walk(m.tree):
            if isinstance(n, ast.Call):
                r = callee(repo, n)
                if r is not None and r[1] is sf:
                    n_sites += 1
                    key = construct_of(n)
                    seen.add(key)
                    reason = SOURCE_FIX_SITES.get(key)
                    chk.require(
                        reason is not None, "R10b", n,
                        f"SourceFix constructed in {key.split('::')[1]} ({m.relpath}), which is not in the reviewed table of functions allowed to edit template source",
                        detail=f"SourceFix site: {key.split('::')[1]}",
                    )
                    chk.sample({"rule": "R10b", "site": f"{m.relpath}:{n.lineno}", "function": key, "reviewed_reason": reason})
            elif isinstance(n, (ast.Name, ast.Attribute)) and isinstance(getattr(n, "ctx", None), ast.Load):
                nm = n.id if isinstance(n, ast.Name) else n.attr
                if nm != "SourceFix":
                    continue
                par = getattr(n, "_parent", None)
                if isinstance(par, ast.Attribute):
                    continue  # handled at the outer attribute
                if isinstance(par, ast.Call) and par.func is n:
                    continue  # a construction, handled above
                if _in_annotation(n) or (isinstance(par, ast.Call) and call_name(par) in ("isinstance", "cast", "issubclass")):
                    continue
                if _in_all_list(n):
                    continue
                r = repo.resolve_name(m, norm(n))
                if r is not None and r[1] is not sf:
                    continue
                chk.fail("R10b", n, f"SourceFix is used as a value ('{short(par, 60)}'): constructions through an alias escape the reviewed table", detail=f"SourceFix as value: {short(par, 70)}")
    chk.count("R10b.sourcefix_constructions", n_sites)
    chk.floor("R10b.sourcefix_constructions", 1)
    for key in SOURCE_FIX_SITES:
        if key not in seen:
            chk.note(f"R10b: stale table entry (no SourceFix construction there any more): {key}")
    chk.exhaustive = True


def _in_annotation(n) -> bool:
    p, child = getattr(n, "_parent", None), n
    while p is not None:
        if isinstance(p, ast.AnnAssign) and p.annotation is child:
            return True
        if isinstance(p, ast.arg) and p.annotation is child:
            return True
        if isinstance(p, FuncNode) and p.returns is child:
            return True
        if isinstance(p, ast.Subscript) and p.slice is child or isinstance(p, ast.Subscript) and p.value is child:
            pass  # keep climbing: list[SourceFix], Optional[...]
        elif isinstance(p, (ast.Tuple, ast.BinOp)):
            pass
        elif isinstance(p, ast.Call) and call_name(p) == "cast" and p.args and p.args[0] is child:
            return True
        elif isinstance(p, ast.stmt):
            return False
        p, child = getattr(p, "_parent", None), p
    return False


def _in_all_list(n) -> bool:
    return False  # __all__ holds strings, not names


# ---------------------------------------------------------------------------
NON_ADDING = ("sort", "reverse", "pop", "remove", "clear")  # cannot put a patch into the list


def _r10c(chk, repo) -> None:
    f = repo.fn(PATCH, "generate_source_patches")
    cfg = cfg_of(f)
    rets = [r for r in walk_local(f) if isinstance(r, ast.Return) and r.value is not None]
    kept = set()
    for r in rets:
        e = sole_expr_origin(cfg, r.value, r)
        si = sorted_info(e)
        if si is not None:
            it = si.iterable
        elif isinstance(r.value, ast.Name) and e is not None and is_fresh_list(e):
            it = r.value  # the list itself (sorted in place or not at all; ordering is not this rule's business)
        else:
            it = e
        if isinstance(it, ast.Name):
            kept.add(it.id)
        else:
            chk.fail("R10c", r, "generate_source_patches returns something other than the filtered patch list", detail="returns the filtered list")
    n_app = 0
    for name in sorted(kept):
        for k, n in mutations_of(f, name):
            if k in NON_ADDING:
                continue
            if k != "append":
                chk.fail("R10c", n, f"filtered patch list changed by '{k}', bypassing the template filter", detail=f"filtered list {k}: {short(n, 60)}")
                continue
            n_app += 1
            st = cfg.stmt_of(n)
            fo = for_origin(cfg, n.args[0] if n.args else None, st)
            if fo is None:
                chk.fail("R10c", n, "the kept value is not the patch currently iterated", detail="append: iterated patch")
                continue
            why = _keep_reason(cfg, st, fo)
            chk.require(
                why is not None, "R10c", n,
                "a patch is kept without a dominating test that it touches only literal source, is an explicit source patch, or is a zero-length insert on a raw-slice boundary: an edit overlapping template code reaches the file",
                detail=f"append {_where(cfg, st)}: dominated by an accepted keep condition",
            )
            chk.sample({"rule": "R10c", "site": f"{PATCH}:{n.lineno}", "kept_because": why})
    chk.count("R10c.filtered_append_sites", n_app)
    chk.floor("R10c.filtered_append_sites", 1)


def _where(cfg, st) -> str:
    """Stable description of the arm a statement sits in (innermost guarding test)."""
    gs = [g for g in cfg.guards(st) if isinstance(g.stmt, ast.If)]
    if not gs:
        return "unconditional"
    g = max(gs, key=lambda g: (g.stmt.lineno, g.stmt.col_offset))
    return ("under " if g.polarity else "else of ") + "'" + short(g.stmt.test, 70) + "'"


def _patch_attr(cfg, e, at, fo):
    """Attribute tail when ``e`` is ``<iterated patch>.a.b`` (locals expanded), else None."""
    if not isinstance(e, (ast.Name, ast.Attribute)):
        return None
    root, tail, at2 = _xchain(cfg, e, at)
    if isinstance(root, ast.Name) and for_origin(cfg, root, at2) == fo:
        return tail
    return None


def _spanning_call(cfg, e, at, fo):
    """``X.raw_slices_spanning_source_slice(<patch>.source_slice)`` for the iterated patch."""
    o = sole_expr_origin(cfg, e, at)
    if isinstance(o, ast.Call) and last_attr(o) == "raw_slices_spanning_source_slice":
        a = arg_of(o, 0, "source_slice")
        if a is not None and len(o.args) + len(o.keywords) == 1 and _patch_attr(cfg, a, cfg.stmt_of(o), fo) == ("source_slice",):
            return o
    return None


def _comp_over(o):
    """(element, loop variable name, iterable) of a one-generator, unfiltered comprehension."""
    if isinstance(o, (ast.ListComp, ast.SetComp, ast.GeneratorExp)) and len(o.generators) == 1 and not o.generators[0].ifs:
        g = o.generators[0]
        if isinstance(g.target, ast.Name) and not g.is_async:
            return o.elt, g.target.id, g.iter
    return None


def _types_of(cfg, e, at, fo):
    """'seq' for ``[s.slice_type for s in <spanning slices>]`` (list or generator), 'set' for the
    same as a set comprehension or wrapped in ``set(...)``; None otherwise."""
    o = sole_expr_origin(cfg, e, at)
    if o is None:
        return None
    co = _comp_over(o)
    if co is not None:
        elt, var, it = co
        if isinstance(elt, ast.Attribute) and elt.attr == "slice_type" and isinstance(elt.value, ast.Name) and elt.value.id == var:
            if _spanning_call(cfg, it, cfg.stmt_of(o), fo) is not None:
                return "set" if isinstance(o, ast.SetComp) else "seq"
        return None
    if isinstance(o, ast.Call) and call_name(o) in ("set", "frozenset") and len(o.args) == 1 and not o.keywords:
        return "set" if _types_of(cfg, o.args[0], cfg.stmt_of(o), fo) else None
    return None


def _is_literal_set(x) -> bool:
    return isinstance(x, ast.Set) and [getattr(v, "value", None) for v in x.elts] == ["literal"]


def _single_reason(cfg, e, pol, at, fo):
    """Keep reason established by one atomic fact, or None."""
    if not pol:
        # `not types` / `not local_raw_slices`
        if _types_of(cfg, e, at, fo) or _spanning_call(cfg, e, at, fo) is not None:
            return "no local raw slices"
        return None
    if isinstance(e, ast.Compare) and len(e.ops) == 1 and isinstance(e.ops[0], ast.Eq):
        l, r = e.left, e.comparators[0]
        for x, y in ((l, r), (r, l)):
            # set(types) == {"literal"}
            if _is_literal_set(y) and _types_of(cfg, x, at, fo) == "set":
                return "all local slices literal"
            # patch.patch_category == "source"
            if isinstance(y, ast.Constant) and y.value == "source" and _patch_attr(cfg, x, at, fo) == ("patch_category",):
                return "explicit source patch"
    # all(t == "literal" for t in types) / all(s.slice_type == "literal" for s in <spanning slices>): true for no slices too
    if isinstance(e, ast.Call) and call_name(e) == "all" and len(e.args) == 1 and not e.keywords:
        co = _comp_over(e.args[0])
        if co is not None and isinstance(co[0], ast.Compare) and len(co[0].ops) == 1 and isinstance(co[0].ops[0], ast.Eq):
            elt, var, it = co
            for x, y in ((elt.left, elt.comparators[0]), (elt.comparators[0], elt.left)):
                if not (isinstance(y, ast.Constant) and y.value == "literal"):
                    continue
                if isinstance(x, ast.Name) and x.id == var and _types_of(cfg, it, at, fo):
                    return "no local raw slices or all literal"
                if isinstance(x, ast.Attribute) and x.attr == "slice_type" and isinstance(x.value, ast.Name) and x.value.id == var and _spanning_call(cfg, it, at, fo) is not None:
                    return "no local raw slices or all literal"
    return None


def _flag_reason(cfg, e, at, fo, depth):
    """``keep = False`` at the top of the iteration, ``keep = True`` in some arms, ``if keep:
    append`` after them: the flag is true only where it was set to True, so the append inherits the
    facts of those assignments.  Accepted when every definition reaching the test is a boolean
    constant, every path from the start of an iteration to the test assigns the flag (so no value
    of an earlier iteration survives) and every ``True`` assignment has a keep reason of its own."""
    os_ = origins(cfg, e, at)
    if not os_ or not all(o.kind == "expr" and not o.path and isinstance(o.expr, ast.Constant) and isinstance(o.expr.value, bool) for o in os_):
        return None
    loop = fo[0]

    def in_body(n):
        return any(n is x or _inside(n, x) for x in loop.body)

    rd = cfg.reaching()
    start = branch_of(cfg, loop, True)
    fresh = start is not None and not cfg.paths_avoiding(start, at, lambda n: any(d.name == e.id for d in rd.gen.get(n, [])))
    trues = [o for o in os_ if o.expr.value is True]
    if not fresh or not trues or not all(in_body(o.stmt) for o in os_):
        return None
    reasons = [_keep_reason(cfg, o.stmt, fo, depth + 1) for o in trues]
    if all(r is not None for r in reasons):
        return " / ".join(sorted(set(reasons))) + " (through a keep flag)"
    return None


def _inside(n, container) -> bool:
    p = getattr(n, "_parent", None)
    while p is not None:
        if p is container:
            return True
        p = getattr(p, "_parent", None)
    return False


def _keep_reason(cfg, st, fo, depth=0):
    """Why the patch appended at ``st`` may be kept, decided on the facts known on every path to
    ``st`` (boolean locals opened, values read through locals resolved):
    (A) no local raw slices / all local slice types literal, (B) explicit source patch,
    (C) zero length and starting where the first spanning raw slice starts."""
    conds = _xconditions(cfg, st)
    eqs = []  # pairs of expressions known to be equal, with the statement they are evaluated at
    for e, pol, at in conds:
        r = _single_reason(cfg, e, pol, at, fo)
        if r is not None:
            return r
        if pol and isinstance(e, ast.Name) and depth < 2:
            r = _flag_reason(cfg, e, at, fo, depth)
            if r is not None:
                return r
        if pol and isinstance(e, ast.BoolOp) and isinstance(e.op, ast.Or):
            # one of the alternatives holds: each has to be a keep reason of its own
            alts = [[_single_reason(cfg, a, p, at2, fo) for a, p, at2 in _xatoms(cfg, v, True, at)] for v in e.values]
            if all(any(x is not None for x in alt) for alt in alts):
                return " or ".join(sorted({x for alt in alts for x in alt if x is not None}))
        if isinstance(e, ast.Compare):
            ops = [e.left] + list(e.comparators)
            if pol and all(isinstance(o, ast.Eq) for o in e.ops):
                eqs += [(ops[i], ops[i + 1], at) for i in range(len(ops) - 1)]
            elif not pol and len(e.ops) == 1 and isinstance(e.ops[0], ast.NotEq):
                eqs.append((ops[0], ops[1], at))
    # (C) on equivalence classes, so that a == b == c, b == a and c == a, ... are the same facts
    def key(x, at):
        t = _patch_attr(cfg, x, at, fo)
        if t is not None:
            return ("patch",) + t
        if isinstance(x, (ast.Name, ast.Attribute)):
            root, tail, at2 = _xchain(cfg, x, at)
            root = sole_expr_origin(cfg, root, at2) if isinstance(root, ast.Name) else root
            if isinstance(root, ast.Subscript) and isinstance(root.slice, ast.Constant) and root.slice.value == 0 and _spanning_call(cfg, root.value, cfg.stmt_of(root), fo) is not None:
                return ("first_spanning_slice",) + tail
        return ("other", id(x))

    cls = {}

    def find(k):
        while cls.setdefault(k, k) != k:
            k = cls[k]
        return k

    for a, b, at in eqs:
        cls[find(key(a, at))] = find(key(b, at))
    start, stop, first = ("patch", "source_slice", "start"), ("patch", "source_slice", "stop"), ("first_spanning_slice", "source_idx")
    if find(start) == find(stop) and find(start) == find(first):
        return "zero-length insert on a raw-slice boundary"
    return None


# ---------------------------------------------------------------------------
def _self_chain(cfg, e, at):
    """Attribute tail of ``self.a.b`` with local aliases (``t = self.a; t.b``) expanded; None otherwise."""
    if not isinstance(e, (ast.Name, ast.Attribute)):
        return None
    root, tail, at2 = _xchain(cfg, e, at)
    if isinstance(root, ast.Name) and root.id == "self" and param_origin(cfg, root, at2) == "self":
        return tail
    return None


def _r10d(chk, repo) -> None:
    slicer = repo.fn(LFILE, SLICER)
    lf = repo.cls(LFILE, "LintedFile")
    sites = [c for m in repo.iter_modules() if slicer.name in m.text for c in ast.walk(m.tree) if isinstance(c, ast.Call) and last_attr(c) == slicer.name]
    chk.count("R10d.slicer_call_sites", len(sites))
    chk.floor("R10d.slicer_call_sites", 1)
    for call in sites:
        fn = getattr(call, "_parent", None)
        while fn is not None and not isinstance(fn, FuncNode):
            fn = getattr(fn, "_parent", None)
        cfg = cfg_of(fn)
        st = cfg.stmt_of(call)
        a1 = arg_of(call, 1, "source_only_slices")
        e = sole_expr_origin(cfg, a1, st) if a1 is not None else None
        ok = isinstance(e, ast.Call) and not e.args and not e.keywords and _self_chain(cfg, e.func, cfg.stmt_of(e)) == ("templated_file", "source_only_slices")
        what = "nothing" if a1 is None else (short(e, 60) if e is not None else ", ".join(describe_origin(o) for o in origins(cfg, a1, st)))
        chk.require(
            ok, "R10d", call,
            f"the slicer's source-only slices are {what}, not self.templated_file.source_only_slices(): template tags are no longer fenced off from overlapping patches",
            detail="slicer source-only slices <- self.templated_file.source_only_slices()",
        )
        if ok and isinstance(a1, ast.Name):
            for k, n in mutations_of(fn, a1.id):
                chk.fail("R10d", n, f"source-only slice list changed by '{k}' before slicing", detail=f"source-only list {k}")
        a2 = arg_of(call, 2, "raw_source_string")
        chk.require(
            a2 is not None and _self_chain(cfg, a2, st) == ("templated_file", "source_str"), "R10d", call,
            "the slicer is not given the templated file's own source string", detail="slicer raw source <- self.templated_file.source_str",
        )
        chk.sample({"rule": "R10d", "site": f"{call._module.relpath}:{call.lineno}", "source_only_arg": what})
    # the slicer consults its second parameter before emitting a patch's slice
    scfg = cfg_of(slicer)
    sp = [a.arg for a in slicer.args.args if a.arg not in ("self", "cls")]
    reads = [n for n in walk_local(slicer) if isinstance(n, ast.Name) and isinstance(n.ctx, ast.Load) and len(sp) > 1 and n.id == sp[1]]
    chk.require(len(reads) >= 1, "R10d", slicer, "the slicer ignores the source-only slices it is given", detail="slicer reads its source-only parameter")


from ..selftest import Variant  # noqa: E402

TBASE = "src/sqlfluff/core/templaters/base.py"

_KEEP_BLOCK_OLD = (
    "        local_raw_slices = templated_file.raw_slices_spanning_source_slice(\n"
    "            patch.source_slice\n"
    "        )\n"
    "        local_type_list = [slc.slice_type for slc in local_raw_slices]\n"
    "\n"
    "        # Deal with the easy cases of 1) New code at end 2) only literals\n"
    "        if not local_type_list or set(local_type_list) == {\"literal\"}:\n"
    "            linter_logger.info(\n"
    "                \"      * Keeping patch on new or literal-only section.\",\n"
    "            )\n"
    "            filtered_source_patches.append(patch)\n"
    "            dedupe_buffer.add(dedupe_tuple)\n"
    "        # Handle the easy case of an explicit source fix\n"
    "        elif patch.patch_category == \"source\":\n"
    "            linter_logger.info(\n"
    "                \"      * Keeping explicit source fix patch.\",\n"
    "            )\n"
    "            filtered_source_patches.append(patch)\n"
    "            dedupe_buffer.add(dedupe_tuple)\n"
    "        # Is it a zero length patch.\n"
    "        elif (\n"
    "            patch.source_slice.start == patch.source_slice.stop\n"
    "            and patch.source_slice.start == local_raw_slices[0].source_idx\n"
    "        ):\n"
)

_KEEP_TAIL = (
    "            linter_logger.info(\n"
    "                \"      * Keeping insertion patch on slice boundary.\",\n"
    "            )\n"
    "            filtered_source_patches.append(patch)\n"
    "            dedupe_buffer.add(dedupe_tuple)\n"
    "        else:  # pragma: no cover\n"
)
_KEEP_IF_OLD = _KEEP_BLOCK_OLD[_KEEP_BLOCK_OLD.index("        # Deal with the easy cases"):] + _KEEP_TAIL
_APPEND = "            filtered_source_patches.append(patch)\n            dedupe_buffer.add(dedupe_tuple)\n"
_KEEP_IF_FLAG = (
    _KEEP_IF_OLD
    .replace("        # Deal with the easy cases", "        keep = False\n        # Deal with the easy cases")
    .replace(_APPEND, "            keep = True\n")
    .replace("        else:  # pragma: no cover\n", "        if keep:\n" + _APPEND + "            continue\n        else:  # pragma: no cover\n")
)

VARIANTS = [
    Variant(
        "quiet-quantifier-chosen-by-if-statement", "src/sqlfluff/core/rules/fix.py",
        '        check_fn = all if self.edit_type in ("create_before", "create_after") else any\n',
        '        if self.edit_type in ("create_before", "create_after"):\n            check_fn = all\n        else:\n            check_fn = any\n',
        "QUIET", None, "if / else statement instead of a conditional expression",
    ),
    Variant(
        "quantifier-if-statement-gives-all-to-deletes", "src/sqlfluff/core/rules/fix.py",
        '        check_fn = all if self.edit_type in ("create_before", "create_after") else any\n',
        '        if self.edit_type == "replace":\n            check_fn = any\n        else:\n            check_fn = all\n',
        "R10f", "LintFix.has_template_conflicts", "the breaking twin of the if-statement spelling",
    ),
    Variant(
        "delete-conflicts-only-when-wholly-templated", "src/sqlfluff/core/rules/fix.py",
        '        check_fn = all if self.edit_type in ("create_before", "create_after") else any\n',
        '        check_fn = all if self.edit_type in ("create_before", "create_after", "delete") else any\n',
        "R10f", "LintFix.has_template_conflicts", "seeded C13-9: half of a multi-part fix reaches the file",
    ),
    Variant(
        "quiet-quantifier-picked-by-negated-test", "src/sqlfluff/core/rules/fix.py",
        '        check_fn = all if self.edit_type in ("create_before", "create_after") else any\n',
        '        check_fn = any if self.edit_type not in ("create_before", "create_after") else all\n',
        "QUIET", None, "the same choice written the other way round",
    ),
    Variant(
        "jj01-trailing-space-falls-back-to-the-leading-one", "src/sqlfluff/rules/jinja/JJ01.py",
        "                tag_pre + (pre_fix or ws_pre) + inner + (post_fix or ws_post) + tag_post\n",
        "                tag_pre + (pre_fix or ws_pre) + inner + (post_fix or ws_pre) + tag_post\n",
        "R10j", "Rule_JJ01._eval", "seeded C17-8: `{{foo }}` becomes `{{ foo}}`, and the next run changes it again",
    ),
    Variant(
        "quiet-jj01-tag-rebuilt-through-named-locals", "src/sqlfluff/rules/jinja/JJ01.py",
        "            fixed = (\n                tag_pre + (pre_fix or ws_pre) + inner + (post_fix or ws_post) + tag_post\n            )\n",
        "            lead_ws = pre_fix or ws_pre\n            trail_ws = post_fix or ws_post\n            fixed = tag_pre + lead_ws + inner + trail_ws + tag_post\n",
        "QUIET", None, "the refactor of seeded C17-8 done right",
    ),
    # behaviour-preserving refactors: must stay quiet (R10j sweep)
    Variant(
        "quiet-jj01-tag-rebuilt-with-an-fstring", "src/sqlfluff/rules/jinja/JJ01.py",
        "            fixed = (\n                tag_pre + (pre_fix or ws_pre) + inner + (post_fix or ws_post) + tag_post\n            )\n",
        '            fixed = f"{tag_pre}{pre_fix or ws_pre}{inner}{post_fix or ws_post}{tag_post}"\n',
        "QUIET", None, "R10j: the same five strings put together by an f-string",
    ),
    Variant(
        "quiet-jj01-tag-rebuilt-with-join", "src/sqlfluff/rules/jinja/JJ01.py",
        "            fixed = (\n                tag_pre + (pre_fix or ws_pre) + inner + (post_fix or ws_post) + tag_post\n            )\n",
        '            pieces = [tag_pre, pre_fix or ws_pre, inner, post_fix or ws_post, tag_post]\n            fixed = "".join(pieces)\n',
        "QUIET", None, "R10j: the same five strings through ''.join of a list held in a local",
    ),
    Variant(
        "quiet-jj01-ends-kept-whole-and-indexed", "src/sqlfluff/rules/jinja/JJ01.py",
        "            tag_pre, ws_pre, inner, ws_post, tag_post = self._get_whitespace_ends(\n                stripped\n            )\n",
        "            ends = self._get_whitespace_ends(stripped)\n            tag_pre, ws_pre, inner = ends[0], ends[1], ends[2]\n            ws_post = ends[3]\n            tag_post = ends[4]\n",
        "QUIET", None, "R10j: the tuple kept whole and read by index",
    ),
    Variant(
        "quiet-jj01-source-fix-by-keyword", "src/sqlfluff/rules/jinja/JJ01.py",
        "                SourceFix(\n                    fixed,\n                    slice(\n                        src_idx + position,\n                        src_idx + position + len(stripped),\n                    ),\n",
        "                SourceFix(\n                    edit=fixed,\n                    source_slice=slice(\n                        src_idx + position,\n                        src_idx + position + len(stripped),\n                    ),\n                    templated_slice=\n",
        "QUIET", None, "R10j: the dataclass fields by keyword",
    ),
    Variant(
        "quiet-jj01-fallback-as-conditional-expression", "src/sqlfluff/rules/jinja/JJ01.py",
        "                tag_pre + (pre_fix or ws_pre) + inner + (post_fix or ws_post) + tag_post\n",
        "                tag_pre + (ws_pre if pre_fix is None else pre_fix) + inner + (post_fix if post_fix is not None else ws_post) + tag_post\n",
        "QUIET", None, "R10j: the fixes are None or ' ', so `fix or ws` is `ws if fix is None else fix`",
    ),
    Variant(
        "quiet-jj01-whitespace-replaced-on-a-copy", "src/sqlfluff/rules/jinja/JJ01.py",
        "            fixed = (\n                tag_pre + (pre_fix or ws_pre) + inner + (post_fix or ws_post) + tag_post\n            )\n",
        "            lead_ws = ws_pre\n            if pre_fix:\n                lead_ws = pre_fix\n            trail_ws = ws_post\n            if post_fix is not None:\n                trail_ws = post_fix\n            fixed = tag_pre + lead_ws + inner + trail_ws + tag_post\n",
        "QUIET", None, "R10j: `fix or ws` as a default overwritten under `if fix:`",
    ),
    Variant(
        "quiet-jj01-tag-rebuilt-by-a-nested-helper", "src/sqlfluff/rules/jinja/JJ01.py",
        "            fixed = (\n                tag_pre + (pre_fix or ws_pre) + inner + (post_fix or ws_post) + tag_post\n            )\n",
        "            def _rebuild(lead, trail):\n                return tag_pre + (lead or ws_pre) + inner + (trail or ws_post) + tag_post\n\n            fixed = _rebuild(pre_fix, post_fix)\n",
        "QUIET", None, "R10j: the concatenation in a nested function closing over the five parts",
    ),
    # breaking twins of the spellings above
    Variant(
        "jj01-fstring-pads-with-literal-spaces", "src/sqlfluff/rules/jinja/JJ01.py",
        "            fixed = (\n                tag_pre + (pre_fix or ws_pre) + inner + (post_fix or ws_post) + tag_post\n            )\n",
        '            fixed = f"{tag_pre} {inner} {tag_post}"\n',
        "R10j", "Rule_JJ01._eval", "f-string twin: whitespace holding a newline is flattened to one space",
    ),
    Variant(
        "jj01-join-repeats-the-leading-whitespace", "src/sqlfluff/rules/jinja/JJ01.py",
        "            fixed = (\n                tag_pre + (pre_fix or ws_pre) + inner + (post_fix or ws_post) + tag_post\n            )\n",
        '            pieces = [tag_pre, pre_fix or ws_pre, inner, post_fix or ws_pre, tag_post]\n            fixed = "".join(pieces)\n',
        "R10j", "Rule_JJ01._eval", "join twin of seeded C17-8",
    ),
    Variant(
        "jj01-join-list-gets-one-more-piece", "src/sqlfluff/rules/jinja/JJ01.py",
        "            fixed = (\n                tag_pre + (pre_fix or ws_pre) + inner + (post_fix or ws_post) + tag_post\n            )\n",
        '            pieces = [tag_pre, pre_fix or ws_pre, inner, post_fix or ws_post, tag_post]\n            pieces.insert(1, ws_pre)\n            fixed = "".join(pieces)\n',
        "R10j", "Rule_JJ01._eval", "join twin: the list is changed in place before it is joined",
    ),
    Variant(
        "jj01-indexed-ends-read-the-wrong-index", "src/sqlfluff/rules/jinja/JJ01.py",
        "            tag_pre, ws_pre, inner, ws_post, tag_post = self._get_whitespace_ends(\n                stripped\n            )\n",
        "            ends = self._get_whitespace_ends(stripped)\n            tag_pre, ws_pre, inner = ends[0], ends[1], ends[2]\n            ws_post = ends[1]\n            tag_post = ends[4]\n",
        "R10j", "Rule_JJ01._eval", "index twin: trailing whitespace read from the leading slot",
    ),
    Variant(
        "jj01-copy-starts-from-the-other-whitespace", "src/sqlfluff/rules/jinja/JJ01.py",
        "            fixed = (\n                tag_pre + (pre_fix or ws_pre) + inner + (post_fix or ws_post) + tag_post\n            )\n",
        "            lead_ws = ws_post\n            if pre_fix:\n                lead_ws = pre_fix\n            trail_ws = ws_post\n            if post_fix is not None:\n                trail_ws = post_fix\n            fixed = tag_pre + lead_ws + inner + trail_ws + tag_post\n",
        "R10j", "Rule_JJ01._eval", "copy twin: the default of the leading slot is the trailing whitespace",
    ),
    Variant(
        "jj01-copy-overwritten-by-another-part", "src/sqlfluff/rules/jinja/JJ01.py",
        "            fixed = (\n                tag_pre + (pre_fix or ws_pre) + inner + (post_fix or ws_post) + tag_post\n            )\n",
        "            lead_ws = ws_pre\n            if pre_fix:\n                lead_ws = ws_post\n            fixed = tag_pre + lead_ws + inner + (post_fix or ws_post) + tag_post\n",
        "R10j", "Rule_JJ01._eval", "copy twin: the 'fix' of the leading slot is the trailing whitespace",
    ),
    Variant(
        "jj01-nested-helper-drops-the-inner-text-order", "src/sqlfluff/rules/jinja/JJ01.py",
        "            fixed = (\n                tag_pre + (pre_fix or ws_pre) + inner + (post_fix or ws_post) + tag_post\n            )\n",
        "            def _rebuild(lead, trail):\n                return tag_pre + (lead or ws_pre) + (trail or ws_post) + inner + tag_post\n\n            fixed = _rebuild(pre_fix, post_fix)\n",
        "R10j", "Rule_JJ01._eval", "helper twin: parts out of order inside the helper",
    ),
    Variant(
        "jj01-conditional-falls-back-to-the-other-part", "src/sqlfluff/rules/jinja/JJ01.py",
        "                tag_pre + (pre_fix or ws_pre) + inner + (post_fix or ws_post) + tag_post\n",
        "                tag_pre + (ws_post if pre_fix is None else pre_fix) + inner + (post_fix or ws_post) + tag_post\n",
        "R10j", "Rule_JJ01._eval", "conditional-expression twin",
    ),
    Variant(
        "jj01-closing-plus-is-not-a-modifier", "src/sqlfluff/rules/jinja/JJ01.py",
        "        if main and main[-1] in modifier_chars:\n",
        '        if main and main[-1] == "-":\n',
        "R10h", "_get_whitespace_ends", "seeded C13-6: `{% if x +%}` is rewritten to `{% if x + %}`",
    ),
    Variant(
        "jj01-modifiers-stripped-by-set", "src/sqlfluff/rules/jinja/JJ01.py",
        "            main = main[1:]\n",
        '            main = main.lstrip("+-")\n',
        "R10h", "_get_whitespace_ends", "seeded C10-5: `{{--x}}` loses its unary minus",
    ),
    Variant(
        "quiet-jj01-modifier-set-as-a-string", "src/sqlfluff/rules/jinja/JJ01.py",
        '        modifier_chars = ["+", "-"]\n',
        '        modifier_chars = "-+"\n',
        "QUIET", None, "R10h: the same two characters as a string",
    ),
    Variant(
        "end-of-file-is-the-start-of-a-trailing-tag", "src/sqlfluff/core/templaters/base.py",
        "        if source_slice.start >= last_raw_slice.source_idx + len(last_raw_slice.raw):\n",
        "        if source_slice.start >= (last_raw_slice.source_idx if last_raw_slice.slice_type != \"literal\" else last_raw_slice.end_source_idx()):\n",
        "R10i", "raw_slices_spanning_source_slice", "seeded C10-6 (same effect): a file ending in `{{ footer }}` loses the tag",
    ),
    Variant(
        "quiet-end-of-file-through-the-helper", "src/sqlfluff/core/templaters/base.py",
        "        if source_slice.start >= last_raw_slice.source_idx + len(last_raw_slice.raw):\n",
        "        end_of_file_idx = last_raw_slice.end_source_idx()\n        if source_slice.start >= end_of_file_idx:\n",
        "QUIET", None, "R10i: the end through the slice's own helper and a local",
    ),
    Variant(
        "template-conflict-test-exempts-literal-tagged-slices", "src/sqlfluff/core/rules/fix.py",
        "        result = check_fn(fs.slice_type == \"templated\" for fs in fix_slices)\n",
        "        result = check_fn(fs.slice_type == \"templated\" and fs.tag != \"literal\" for fs in fix_slices)\n",
        "R10f", "has_template_conflicts", "seeded C10-3: placeholder parameters rendered to several tokens are written twice",
    ),
    Variant(
        "break-guard-compares-source-slices", "src/sqlfluff/utils/reflow/reindent.py",
        "    return before_literal or after_literal\n",
        "    if before_literal or after_literal:\n        return True\n    return elements[e_idx - 1].segments[-1].pos_marker.source_slice != elements[e_idx + 1].segments[0].pos_marker.source_slice\n",
        "R10g", "_is_templated_safe_break", "seeded C10-4 (same effect): a break inside an expansion glued to a literal prefix",
    ),
    Variant(
        "quiet-break-guard-early-returns", "src/sqlfluff/utils/reflow/reindent.py",
        "    return before_literal or after_literal\n",
        "    if before_literal:\n        return True\n    return after_literal\n",
        "QUIET", None, "disjunction spelled as an early return",
    ),
    # behaviour-preserving refactors: must stay quiet
    Variant(
        "quiet-keep-arms-set-a-flag", PATCH, _KEEP_IF_OLD, _KEEP_IF_FLAG,
        "QUIET", None, "R10c: the three keeping arms set a flag (reset at the top of the iteration); one append under `if keep:`",
    ),
    Variant(
        "quiet-raw-slice-span-len-hoisted", TBASE,
        "        slice_span = 1\n        while (\n            raw_slice_idx + slice_span < len(self.raw_sliced)\n",
        "        slice_span = 1\n        while (\n            len(self.raw_sliced) > raw_slice_idx + slice_span\n",
        "QUIET", None, "bound spelled with the length on the left",
    ),
    Variant(
        "quiet-scan-length-and-list-in-locals", TBASE,
        "        raw_slice_idx = 0\n"
        "        # Move the raw pointer forward to the start of this patch\n"
        "        while (\n"
        "            raw_slice_idx + 1 < len(self.raw_sliced)\n"
        "            and self.raw_sliced[raw_slice_idx + 1].source_idx <= source_slice.start\n"
        "        ):\n"
        "            raw_slice_idx += 1\n"
        "        # Find slice index of the end of this patch.\n"
        "        slice_span = 1\n"
        "        while (\n"
        "            raw_slice_idx + slice_span < len(self.raw_sliced)\n"
        "            and self.raw_sliced[raw_slice_idx + slice_span].source_idx\n",
        "        raw_slice_idx = 0\n"
        "        n_raw = len(self.raw_sliced)\n"
        "        raw = self.raw_sliced\n"
        "        # Move the raw pointer forward to the start of this patch\n"
        "        while (\n"
        "            raw_slice_idx + 1 < n_raw\n"
        "            and raw[raw_slice_idx + 1].source_idx <= source_slice.start\n"
        "        ):\n"
        "            raw_slice_idx += 1\n"
        "        # Find slice index of the end of this patch.\n"
        "        slice_span = 1\n"
        "        while (\n"
        "            raw_slice_idx + slice_span < n_raw\n"
        "            and self.raw_sliced[raw_slice_idx + slice_span].source_idx\n",
        "QUIET", None, "R10e: the list length (and, in one scan, the list) read through a local set before the scans",
    ),
    Variant(
        "quiet-discard-gate-in-boolean-local", BASE,
        "        if not self.template_safe_fixes:\n            self.discard_unsafe_fixes(res, templated_file)\n",
        "        already_safe = self.template_safe_fixes\n        if not already_safe:\n            self.discard_unsafe_fixes(lint_result=res, templated_file=templated_file)\n",
        "QUIET", None, "R10a: the only accepted skip test hoisted into a local; discard called with keyword arguments",
    ),
    Variant(
        "quiet-discard-gate-if-else", BASE,
        "        if not self.template_safe_fixes:\n            self.discard_unsafe_fixes(res, templated_file)\n",
        "        if self.template_safe_fixes:\n            pass\n        else:\n            BaseRule.discard_unsafe_fixes(res, templated_file)\n",
        "QUIET", None, "R10a: gate spelled positively with the discard in the else arm; static method called through the class",
    ),
    Variant(
        "quiet-fix-handover-through-local", BASE,
        "        new_fixes.extend(res.fixes)\n",
        "        surviving_fixes = res.fixes\n        new_fixes.extend(surviving_fixes)\n",
        "QUIET", None, "R10a: the result's fixes handed on through a local",
    ),
    Variant(
        "quiet-fix-handover-as-loop", BASE,
        "        new_fixes.extend(res.fixes)\n",
        "        for kept_fix in res.fixes:\n            new_fixes.append(kept_fix)\n",
        "QUIET", None, "R10a: extend spelled as an append loop",
    ),
    Variant(
        "quiet-discard-conflict-test-through-locals", BASE,
        "        # Check for fixes that touch templated code.\n        for fix in lint_result.fixes:\n            if fix.has_template_conflicts(templated_file):\n",
        "        # Check for fixes that touch templated code.\n        candidate_fixes = lint_result.fixes\n        for fix in candidate_fixes:\n"
        "            conflicts = fix.has_template_conflicts(templated_file)\n            if conflicts:\n",
        "QUIET", None, "R10a: iterated list and the conflict test each read through a local",
    ),
    Variant(
        "quiet-discard-conflict-test-as-any", BASE,
        "        # Check for fixes that touch templated code.\n"
        "        for fix in lint_result.fixes:\n"
        "            if fix.has_template_conflicts(templated_file):\n"
        "                linter_logger.info(\n"
        "                    \"      * Discarding fixes that touch templated code: %s\",\n"
        "                    lint_result.fixes,\n"
        "                )\n"
        "                lint_result.fixes = []\n"
        "                return\n",
        "        # Check for fixes that touch templated code.\n"
        "        if any(fix.has_template_conflicts(templated_file) for fix in lint_result.fixes):\n"
        "            linter_logger.info(\n"
        "                \"      * Discarding fixes that touch templated code: %s\",\n"
        "                lint_result.fixes,\n"
        "            )\n"
        "            lint_result.fixes = []\n"
        "            return\n",
        "QUIET", None, "R10a: the conflict loop spelled as any(...)",
    ),
    Variant(
        "quiet-discard-early-exits-split", BASE,
        "        if not lint_result.fixes or not templated_file:\n            return\n",
        "        if not lint_result.fixes:\n            return\n        if not templated_file:\n            return\n",
        "QUIET", None, "R10a: `or` of the two accepted early exits spelled as two ifs",
    ),
    Variant(
        "quiet-discard-early-exit-test-hoisted", BASE,
        "        if not lint_result.fixes or not templated_file:\n            return\n",
        "        nothing_to_check = not lint_result.fixes or not templated_file\n        if nothing_to_check:\n            return\n",
        "QUIET", None, "R10a: early-exit test hoisted into a boolean local",
    ),
    Variant(
        "quiet-crawl-out-lists-by-keyword", BASE,
        "                self._process_lint_result(\n                    res, templated_file, ignore_mask, new_lerrs, new_fixes, tree\n                )\n",
        "                self._process_lint_result(\n                    res, templated_file, ignore_mask, new_lerrs=new_lerrs, new_fixes=new_fixes, root=tree\n                )\n",
        "QUIET", None, "R10a: crawl passes the out-lists by keyword",
    ),
    Variant(
        "quiet-crawl-extends-result-lists", BASE,
        "            # Consume the new results\n            vs += new_lerrs\n            fixes += new_fixes\n",
        "            # Consume the new results\n            vs.extend(new_lerrs)\n            batch_fixes = new_fixes\n            fixes.extend(batch_fixes)\n",
        "QUIET", None, "R10a: crawl consumes the filtered fixes with extend(), through a local",
    ),
    Variant(
        "quiet-sourcefix-imported-from-package", "src/sqlfluff/utils/reflow/reindent.py",
        "from sqlfluff.core.parser.segments import SourceFix\n",
        "from sqlfluff.core.parser import SourceFix\n",
        "QUIET", None, "R10b: same class imported through the parent package's re-export",
    ),
    Variant(
        "quiet-sourcefix-local-annotated", "src/sqlfluff/rules/layout/LT12.py",
        "            source_fix = SourceFix(\n",
        "            source_fix: SourceFix = SourceFix(\n",
        "QUIET", None, "R10b: the class named in a local's annotation is not a value use",
    ),
    Variant(
        "quiet-keep-test-in-boolean-local", PATCH,
        "        if not local_type_list or set(local_type_list) == {\"literal\"}:\n",
        "        literal_only = not local_type_list or set(local_type_list) == {\"literal\"}\n        if literal_only:\n",
        "QUIET", None, "R10c: keep test (A) hoisted into a boolean local",
    ),
    Variant(
        "quiet-keep-test-if-elif", PATCH,
        "        if not local_type_list or set(local_type_list) == {\"literal\"}:\n"
        "            linter_logger.info(\n"
        "                \"      * Keeping patch on new or literal-only section.\",\n"
        "            )\n"
        "            filtered_source_patches.append(patch)\n"
        "            dedupe_buffer.add(dedupe_tuple)\n",
        "        if not local_type_list:\n"
        "            linter_logger.info(\n"
        "                \"      * Keeping patch on new or literal-only section.\",\n"
        "            )\n"
        "            filtered_source_patches.append(patch)\n"
        "            dedupe_buffer.add(dedupe_tuple)\n"
        "        elif {\"literal\"} == set(local_type_list):\n"
        "            linter_logger.info(\n"
        "                \"      * Keeping patch on new or literal-only section.\",\n"
        "            )\n"
        "            filtered_source_patches.append(patch)\n"
        "            dedupe_buffer.add(dedupe_tuple)\n",
        "QUIET", None, "R10c: `or` spelled as if/elif with the set comparison written the other way round",
    ),
    Variant(
        "quiet-zero-length-chained-comparison", PATCH,
        "            patch.source_slice.start == patch.source_slice.stop\n            and patch.source_slice.start == local_raw_slices[0].source_idx\n",
        "            patch.source_slice.start\n            == patch.source_slice.stop\n            == local_raw_slices[0].source_idx\n",
        "QUIET", None, "R10c: a == b and a == c spelled as the chain a == b == c (ints: same truth value, same evaluation order)",
    ),
    Variant(
        "quiet-patch-fields-through-locals", PATCH,
        _KEEP_BLOCK_OLD,
        _KEEP_BLOCK_OLD
        .replace("        local_raw_slices = templated_file.raw_slices_spanning_source_slice(\n            patch.source_slice\n        )\n",
                 "        src_slice = patch.source_slice\n        category = patch.patch_category\n"
                 "        local_raw_slices = templated_file.raw_slices_spanning_source_slice(\n            src_slice\n        )\n")
        .replace("        elif patch.patch_category == \"source\":\n", "        elif category == \"source\":\n")
        .replace("            patch.source_slice.start == patch.source_slice.stop\n            and patch.source_slice.start == local_raw_slices[0].source_idx\n",
                 "            src_slice.start == src_slice.stop\n            and local_raw_slices[0].source_idx == src_slice.start\n"),
        "QUIET", None, "R10c: the patch's source slice and category read through locals",
    ),
    Variant(
        "quiet-type-set-comprehension", PATCH,
        "        local_type_list = [slc.slice_type for slc in local_raw_slices]\n"
        "\n"
        "        # Deal with the easy cases of 1) New code at end 2) only literals\n"
        "        if not local_type_list or set(local_type_list) == {\"literal\"}:\n",
        "        local_type_list = {raw_slice.slice_type for raw_slice in local_raw_slices}\n"
        "\n"
        "        # Deal with the easy cases of 1) New code at end 2) only literals\n"
        "        if not local_type_list or local_type_list == {\"literal\"}:\n",
        "QUIET", None, "R10c: the slice types collected directly as a set",
    ),
    Variant(
        "quiet-keep-test-as-all", PATCH,
        "        if not local_type_list or set(local_type_list) == {\"literal\"}:\n",
        "        if all(slice_type == \"literal\" for slice_type in local_type_list):\n",
        "QUIET", None, "R10c: (no slices or only literal ones) spelled as all(...), which is true for the empty list too",
    ),
    Variant(
        "quiet-patches-sorted-in-place", PATCH,
        "    return sorted(filtered_source_patches, key=lambda x: x.source_slice.start)\n",
        "    filtered_source_patches.sort(key=lambda x: x.source_slice.start)\n    return filtered_source_patches\n",
        "QUIET", None, "R10c: in-place stable sort of the fresh local list instead of sorted()",
    ),
    Variant(
        "quiet-templated-file-alias", LFILE,
        "        source_only_slices = self.templated_file.source_only_slices()\n",
        "        templated = self.templated_file\n        source_only_slices = templated.source_only_slices()\n",
        "QUIET", None, "R10d: self.templated_file read through a local alias",
    ),
    Variant(
        "quiet-slicer-source-through-local-and-keywords", LFILE,
        "        slice_buff = self._slice_source_file_using_patches(\n"
        "            filtered_source_patches, source_only_slices, self.templated_file.source_str\n"
        "        )\n",
        "        slice_buff = self._slice_source_file_using_patches(\n"
        "            filtered_source_patches,\n"
        "            raw_source_string=original_source,\n"
        "            source_only_slices=source_only_slices,\n"
        "        )\n",
        "QUIET", None, "R10d: slicer arguments by keyword, the source string through the existing local",
    ),
    # breaking edits: must be reported
    Variant(
        "raw-slice-span-stops-before-last-slice", TBASE,
        "            raw_slice_idx + slice_span < len(self.raw_sliced)\n",
        "            raw_slice_idx + slice_span + 1 < len(self.raw_sliced)\n",
        "R10e", "raw_slices_spanning_source_slice", "seeded C10-2: a tag that is the last raw slice of the file is overwritten by a fix",
    ),
    Variant(
        "discard-call-dropped", BASE,
        "        if not self.template_safe_fixes:\n            self.discard_unsafe_fixes(res, templated_file)\n",
        "",
        "R10a", "_process_lint_result",
    ),
    Variant(
        "discard-skipped-for-fix-compatible-rules", BASE,
        "        if not self.template_safe_fixes:\n            self.discard_unsafe_fixes(res, templated_file)\n",
        "        if not self.template_safe_fixes and not self.is_fix_compatible:\n            self.discard_unsafe_fixes(res, templated_file)\n",
        "R10a", "_process_lint_result", "a second way to skip the discard",
    ),
    Variant(
        "discard-without-templated-file", BASE,
        "            self.discard_unsafe_fixes(res, templated_file)\n",
        "            self.discard_unsafe_fixes(res, None)\n",
        "R10a", "_process_lint_result", "discard returns early when it has no templated file",
    ),
    Variant(
        "base-default-template-safe", BASE,
        "    template_safe_fixes = False\n",
        "    template_safe_fixes = True\n",
        "R10a", "BaseRule",
    ),
    Variant(
        "new-rule-declares-template-safe", "src/sqlfluff/rules/layout/LT01.py",
        "    is_fix_compatible = True\n",
        "    is_fix_compatible = True\n    template_safe_fixes = True\n",
        "R10a", "Rule_LT01",
    ),
    Variant(
        "discard-logs-but-keeps-conflicting-fixes", BASE,
        "                lint_result.fixes = []\n                return\n",
        "                return\n",
        "R10a", "discard_unsafe_fixes",
    ),
    Variant(
        "discard-tests-other-file", BASE,
        "            if fix.has_template_conflicts(templated_file):\n",
        "            if fix.has_template_conflicts(None):\n",
        "R10a", "discard_unsafe_fixes",
    ),
    Variant(
        "discard-early-exit-widened", BASE,
        "        if not lint_result.fixes or not templated_file:\n            return\n",
        "        if not lint_result.fixes or not templated_file or len(lint_result.fixes) == 1:\n            return\n",
        "R10a", "discard_unsafe_fixes",
    ),
    Variant(
        "crawl-adds-unfiltered-fixes", BASE,
        "            # Consume the new results\n            vs += new_lerrs\n            fixes += new_fixes\n",
        "            # Consume the new results\n            vs += new_lerrs\n            fixes += new_fixes\n            if isinstance(res, LintResult):\n                fixes += res.fixes\n",
        "R10a", "BaseRule.crawl",
    ),
    Variant(
        "source-fix-built-in-another-rule", "src/sqlfluff/rules/layout/LT01.py",
        "        sequence = ReflowSequence.from_root(context.segment, config=context.config)\n",
        "        from sqlfluff.core.parser.segments import SourceFix\n\n        _ = SourceFix(\"\", slice(0, 0), slice(0, 0))\n        sequence = ReflowSequence.from_root(context.segment, config=context.config)\n",
        "R10b", "Rule_LT01._eval",
    ),
    Variant(
        "source-fix-aliased", "src/sqlfluff/utils/reflow/elements.py",
        "            new_source_fix = SourceFix(\n",
        "            _mk = SourceFix\n            new_source_fix = _mk(\n",
        "R10b", "indent_to",
    ),
    Variant(
        "uncertain-patch-kept", PATCH,
        "                (patch.patch_category, patch.source_slice),\n            )\n            continue\n",
        "                (patch.patch_category, patch.source_slice),\n            )\n            filtered_source_patches.append(patch)\n",
        "R10c", "generate_source_patches",
    ),
    Variant(
        "templated-slices-count-as-literal", PATCH,
        "        if not local_type_list or set(local_type_list) == {\"literal\"}:\n",
        "        if not local_type_list or set(local_type_list) <= {\"literal\", \"templated\"}:\n",
        "R10c", "generate_source_patches",
    ),
    Variant(
        "zero-length-anywhere-kept", PATCH,
        "            patch.source_slice.start == patch.source_slice.stop\n            and patch.source_slice.start == local_raw_slices[0].source_idx\n",
        "            patch.source_slice.start == patch.source_slice.stop\n",
        "R10c", "generate_source_patches", "an insert in the middle of a tag is kept",
    ),
    Variant(
        "any-category-but-literal-kept", PATCH,
        "        elif patch.patch_category == \"source\":\n",
        "        elif patch.patch_category != \"literal\":\n",
        "R10c", "generate_source_patches",
    ),
    Variant(
        "slicer-gets-no-source-only-slices", LFILE,
        "            filtered_source_patches, source_only_slices, self.templated_file.source_str\n",
        "            filtered_source_patches, [], self.templated_file.source_str\n",
        "R10d", "fix_string",
    ),
    Variant(
        "source-only-slices-filtered", LFILE,
        "        source_only_slices = self.templated_file.source_only_slices()\n",
        "        source_only_slices = [s for s in self.templated_file.source_only_slices() if s.slice_type != \"comment\"]\n",
        "R10d", "fix_string", "template comments no longer fenced off",
    ),
    # breaking edits written in the refactored spellings the rules now see through
    Variant(
        "keep-flag-set-in-a-fourth-arm", PATCH, _KEEP_IF_OLD,
        _KEEP_IF_FLAG.replace("        if keep:\n", "        elif patch.patch_category != \"literal\":\n            keep = True\n        if keep:\n"),
        "R10c", "generate_source_patches", "flag spelling with an extra arm that keeps any non-literal category",
    ),
    Variant(
        "keep-flag-survives-iterations", PATCH, _KEEP_IF_OLD,
        _KEEP_IF_FLAG.replace("        keep = False\n", "        if idx == 0:\n            keep = False\n"),
        "R10c", "generate_source_patches", "flag reset only for the first patch: a later patch inherits True from an earlier one",
    ),
    Variant(
        "discard-gate-local-holds-another-flag", BASE,
        "        if not self.template_safe_fixes:\n            self.discard_unsafe_fixes(res, templated_file)\n",
        "        already_safe = self.is_fix_compatible\n        if not already_safe:\n            self.discard_unsafe_fixes(res, templated_file)\n",
        "R10a", "_process_lint_result", "hoisted gate reads a different attribute",
    ),
    Variant(
        "discard-any-skips-first-fix", BASE,
        "        for fix in lint_result.fixes:\n"
        "            if fix.has_template_conflicts(templated_file):\n"
        "                linter_logger.info(\n"
        "                    \"      * Discarding fixes that touch templated code: %s\",\n"
        "                    lint_result.fixes,\n"
        "                )\n"
        "                lint_result.fixes = []\n"
        "                return\n",
        "        if any(fix.has_template_conflicts(templated_file) for fix in lint_result.fixes[1:]):\n"
        "            linter_logger.info(\n"
        "                \"      * Discarding fixes that touch templated code: %s\",\n"
        "                lint_result.fixes,\n"
        "            )\n"
        "            lint_result.fixes = []\n"
        "            return\n",
        "R10a", "discard_unsafe_fixes", "any(...) over a part of the fixes only",
    ),
    Variant(
        "discard-early-exit-inverted", BASE,
        "        if not lint_result.fixes or not templated_file:\n            return\n",
        "        if not lint_result.fixes:\n            return\n        if templated_file:\n            return\n",
        "R10a", "discard_unsafe_fixes", "split early exits, the second one with the wrong polarity",
    ),
    Variant(
        "hoisted-keep-test-counts-templated-as-literal", PATCH,
        "        if not local_type_list or set(local_type_list) == {\"literal\"}:\n",
        "        literal_only = not local_type_list or set(local_type_list) <= {\"literal\", \"templated\"}\n        if literal_only:\n",
        "R10c", "generate_source_patches",
    ),
    Variant(
        "chained-zero-length-at-last-slice", PATCH,
        "            patch.source_slice.start == patch.source_slice.stop\n            and patch.source_slice.start == local_raw_slices[0].source_idx\n",
        "            patch.source_slice.start\n            == patch.source_slice.stop\n            == local_raw_slices[-1].source_idx\n",
        "R10c", "generate_source_patches", "boundary of the wrong raw slice",
    ),
    Variant(
        "spanning-slices-of-templated-slice", PATCH,
        "        local_raw_slices = templated_file.raw_slices_spanning_source_slice(\n            patch.source_slice\n        )\n",
        "        src_slice = patch.templated_slice\n        local_raw_slices = templated_file.raw_slices_spanning_source_slice(\n            src_slice\n        )\n",
        "R10c", "generate_source_patches", "raw slices looked up for another range, through a local",
    ),
    Variant(
        "slicer-alias-of-other-object", LFILE,
        "        source_only_slices = self.templated_file.source_only_slices()\n",
        "        templated = self.tree\n        source_only_slices = templated.source_only_slices()\n",
        "R10d", "fix_string", "alias does not hold the templated file",
    ),
]
