"""C15 — capitalisation fixes change only letter case.

R15a  Every fix built by the capitalisation rules (``rules/capitalisation`` and any
      subclass of ``Rule_CP01`` elsewhere) is ``LintFix.replace(A, [A.edit(R)])`` —
      kind *replace*, exactly one replacement segment, produced by ``.edit`` of the
      anchor itself — and ``R`` is a **case-homomorphic image of ``A.raw``**.

      Abstract domain on string expressions, evaluated through reaching
      definitions of locals: ``CASEMAP(b)`` ("some per-character case mapping of
      the external value ``b``").  Closed under
        * ``.upper() .lower() .capitalize() .swapcase() .title()`` (not ``.casefold()``: it re-spells letters)
        * choice (several reaching definitions / conditional expression), provided
          all alternatives have the same base
        * ``regex.sub(p, f, x)`` / ``re.sub`` with ``x`` in the domain, when ``f`` is
          a lambda returning ``m.group()`` (whole match) under case maps only, or
          when the top level of ``p`` (``re._parser`` AST) is a concatenation of
          capturing groups (zero-width assertions allowed between them) and ``f``
          returns ``m.group(1) .. m.group(n)`` in order, each under case maps only
          (replacement templates ``\\1\\2..`` likewise).
      Everything else (``"_" + ..``, slicing, ``.strip()``, ``.replace()``, literals,
      f-strings, values coming out of calls) leaves the domain; the definition that
      leaves it is reported, labelled with the policy branch it stands in (the
      ``== "<const>"`` conditions that dominate it), so that each non-homomorphic
      branch is a finding of its own.

      One value is outside the analysed program: the opt-in native path
      (``_eval_rust_capitalisation``) takes ``fixed_raw`` from a function of the
      ``sqlfluffrs`` extension module.  It is accepted only in exactly that form
      (every caller passes an attribute of the imported ``sqlfluffrs`` module) and
      recorded as an assumption in the evidence.

      Spellings that are the same thing and are accepted as such (each has a QUIET self-test
      variant and a breaking twin in the same spelling):
        * the edited copy, the one-element list, a fix, or the ``fixes`` list bound to a local
          first (a list only when that local has no other use); keyword arguments
        * the anchor read through a local (``anchor = segment``): anchor/text agreement is
          decided on the canonical chain (parameter or attribute chain the local holds)
        * the pattern in a local / module constant, or compiled first
          (``w = regex.compile(p); w.sub(f, x)``, no flags); the replacement as a nested or
          module-level one-``return`` function instead of a lambda; ``m[k]`` for
          ``m.group(k)``; an f-string of plain fields for a ``+`` concatenation
        * if/elif chain, flat or nested, conditional expression, or a helper (own method,
          module-level or nested function; positional or keyword arguments) returning the
          re-cased text
        * native path: the (index, text) pair unpacked in the loop header, in the loop body,
          or in a comprehension clause

R15b  (evidence only) crawler type sets and ``_exclude_*`` tuples of CP01–CP05.

R15c  a child of the crawl target (loop variable, directly or through a local copy) reaches
      ``_handle_segment`` only where ``is_type`` of comments / quoted literals / identifiers is
      known false (``is_comment`` false, ``is_code`` true count as well).  Decided on
      ``cfg.conditions`` with boolean locals opened (``skip = a or b; if skip: continue``), so
      early ``continue``, nested ifs and De Morgan forms are the same test; the type names may
      be constants or ``*T`` with ``T`` a tuple of constants (local, module constant,
      ``self.T`` class attribute).

R15e  (grammar-derived) no RegexParser that produces a type the CP rules crawl accepts quoted text.
      The crawl set is read as a value, not as a spelling: positional or ``types=``; a set/list/tuple
      display, ``set()/frozenset()/tuple()/list()/sorted()`` of one, ``|`` ``-`` ``&`` ``.union()``
      of such values, or a name bound once to one in the class body above the call or at module
      level (a mutable value only when every other mention of the name merely reads its elements).
      A crawl set that cannot be read off is reported, never skipped.  Only parsers reachable from
      the dialect's root segment are judged (an unreferenced library entry produces no segment).
"""

from __future__ import annotations

import ast
import re
from typing import Dict, List, Optional, Set, Tuple

from ..cfg import Origin, atoms, cfg_of, origins
from ..index import (
    AnalysisError,
    FuncNode,
    arg_of,
    call_name,
    enclosing_class,
    enclosing_function,
    kwarg,
    last_attr,
    norm,
    parent,
    qualname,
    short,
    walk_local,
)
from ..report import construct_of

PKG = "src/sqlfluff/rules/capitalisation/"
CP01 = PKG + "CP01.py"
# str.casefold() is not a case map: it is the caseless-matching normalisation and re-spells letters
# ("ß" -> "ss", final sigma -> sigma, ligatures expanded); it is fine in comparisons, not as the text written back
CASE_METHODS = {"upper", "lower", "capitalize", "swapcase", "title"}
BUILDER = "_get_fix"


# ---------------------------------------------------------------------------
# regex helper (own copy; sa/rx.py belongs to another checker)
# ---------------------------------------------------------------------------

def rx_top_groups(pattern: str) -> Tuple[Optional[List[int]], str]:
    """Group numbers of the top-level items if the pattern is a concatenation of
    capturing groups (zero-width assertions may stand between them)."""
    try:
        import re._parser as sre_parse  # py >= 3.11
    except ImportError:  # pragma: no cover
        import sre_parse  # type: ignore
    try:
        p = sre_parse.parse(pattern)
    except Exception as e:  # regex-module-only syntax
        return None, f"pattern not parseable by the stdlib parser ({e})"
    groups = []
    for op, av in p.data:
        name = str(op)
        if name == "SUBPATTERN":
            if av[0] is None:
                return None, "top level contains a non-capturing group"
            groups.append(av[0])
        elif name in ("AT", "ASSERT", "ASSERT_NOT"):
            continue
        else:
            return None, f"top level contains {name} outside any capturing group"
    if not groups:
        return None, "no capturing group at top level"
    if groups != list(range(1, len(groups) + 1)):
        return None, "capturing groups are nested or not numbered 1..n at top level"
    return groups, ""


# ---------------------------------------------------------------------------
# resolution of locals (decide on what a name holds, not on how it is spelled)
# ---------------------------------------------------------------------------

def _resolve(func, e: ast.AST, at):
    """(expression, statement it is evaluated at) for a plain local that has exactly one
    reaching definition, itself an expression; everything else is returned unchanged."""
    if isinstance(e, ast.Name) and at is not None:
        os_ = origins(cfg_of(func), e, at)
        if len(os_) == 1 and os_[0].kind == "expr" and not os_[0].path and os_[0].stmt is not None:
            return os_[0].expr, os_[0].stmt
    return e, at


def _single_use(func, name: ast.Name) -> bool:
    """The local is read exactly once in the function (so a mutable display bound to it
    cannot have been changed or shared between its definition and that use)."""
    return sum(1 for n in walk_local(func) if isinstance(n, ast.Name) and n.id == name.id and isinstance(n.ctx, ast.Load)) == 1


def _resolve_display(func, e: ast.AST, at):
    """Like _resolve, for a list display: through a local only if that local has no other use."""
    if isinstance(e, ast.Name):
        r, rat = _resolve(func, e, at)
        if r is not e and _single_use(func, e):
            return r, rat
        return e, at
    return e, at


def _canon(func, e: ast.AST, at) -> str:
    """Canonical text of a name / attribute chain: a local that can only hold a parameter, or
    another chain, is replaced by it (``anchor = segment`` -> 'segment')."""
    if isinstance(e, ast.Attribute):
        return _canon(func, e.value, at) + "." + e.attr
    if isinstance(e, ast.Name) and at is not None:
        os_ = origins(cfg_of(func), e, at)
        if os_ and all(o.kind == "param" for o in os_) and len({o.expr.arg for o in os_}) == 1:
            return os_[0].expr.arg
        if len(os_) == 1 and os_[0].kind == "expr" and not os_[0].path and isinstance(os_[0].expr, ast.Attribute) and os_[0].stmt is not None:
            return _canon(func, os_[0].expr, os_[0].stmt)
        return e.id
    return norm(e)


def _param_of(func, e: ast.AST, at) -> Optional[str]:
    """Name of the parameter a plain name can only be (unmodified, possibly through locals)."""
    if isinstance(e, ast.Name) and at is not None:
        os_ = origins(cfg_of(func), e, at)
        if os_ and all(o.kind == "param" for o in os_) and len({o.expr.arg for o in os_}) == 1:
            return os_[0].expr.arg
    return None


def _module_constant(module, name: str) -> Optional[ast.AST]:
    """Value of a module-level name bound exactly once, by a plain top-level assignment."""
    vals = []
    for n in ast.walk(module.tree):
        if isinstance(n, ast.Global) and name in n.names:
            return None
    for n in module.tree.body:
        if isinstance(n, ast.Assign):
            names = [x.id for t in n.targets for x in ast.walk(t) if isinstance(x, ast.Name)]
            if name in names:
                if len(n.targets) != 1 or not isinstance(n.targets[0], ast.Name):
                    return None
                vals.append(n.value)
        elif isinstance(n, (ast.AnnAssign, ast.AugAssign)) and isinstance(n.target, ast.Name) and n.target.id == name:
            if isinstance(n, ast.AugAssign) or n.value is None:
                return None
            vals.append(n.value)
        elif not isinstance(n, (ast.Import, ast.ImportFrom, ast.Expr) + FuncNode + (ast.ClassDef,)):
            # a binding inside a top-level if/try/for/with: not a constant we can name
            if any(isinstance(x, ast.Name) and x.id == name and isinstance(x.ctx, ast.Store) for x in ast.walk(n)):
                return None
    return vals[0] if len(vals) == 1 else None


def _value_of_name(func, e: ast.AST, at):
    """Expression behind a name: local with one definition, else module-level constant."""
    if not isinstance(e, ast.Name):
        return e, at
    r, rat = _resolve(func, e, at)
    if r is not e:
        return r, rat
    cfg = cfg_of(func)
    if at is not None and not cfg.reaching().defs_at(at, e.id):
        v = _module_constant(func._module, e.id)
        if v is not None:
            return v, None
    return e, at


def _local_function(func, e: ast.AST, at, repo):
    """Function definition a plain name refers to: a nested def (its only reaching definition)
    or a module-level function."""
    if not isinstance(e, ast.Name):
        return None
    ds = cfg_of(func).reaching().defs_at(at, e.id) if at is not None else set()
    if ds:
        ds = list(ds)
        if len(ds) == 1 and ds[0].kind == "def" and isinstance(ds[0].node, FuncNode):
            return ds[0].node
        return None
    r = repo.resolve_name(func._module, e.id)
    if r and isinstance(r[1], FuncNode):
        return r[1]
    return None


def _conditions(func, stmt) -> List[Tuple[ast.AST, bool]]:
    """cfg.conditions with boolean locals opened up: ``skip = a or b`` / ``if skip: continue``
    gives the same atoms as ``if a or b: continue`` (only when nothing the test reads can have
    been rebound between the assignment and the branch)."""
    cfg = cfg_of(func)
    rd = cfg.reaching()
    out: List[Tuple[ast.AST, bool]] = []
    work = list(cfg.conditions(stmt))
    budget = 50
    while work and budget:
        budget -= 1
        e, pol = work.pop(0)
        if isinstance(e, ast.Name):
            at = cfg.stmt_of(e)
            ds = list(rd.defs_at(at, e.id)) if at is not None else []
            if len(ds) == 1 and ds[0].kind == "assign" and not ds[0].path and ds[0].value is not None:
                d = ds[0]
                stable = all(
                    {id(x) for x in rd.defs_at(d.stmt, n.id)} == {id(x) for x in rd.defs_at(at, n.id)}
                    for n in ast.walk(d.value) if isinstance(n, ast.Name)
                )
                if stable:
                    work += atoms(d.value, pol)
                    continue
        out.append((e, pol))
    return out


# ---------------------------------------------------------------------------
# abstract value
# ---------------------------------------------------------------------------

class Val:
    def __init__(self):
        self.bases: Set[str] = set()
        self.tops: List[Tuple[ast.AST, str, Optional[ast.stmt]]] = []  # (node, why, defining stmt)
        self.external: List[str] = []

    def merge(self, o: "Val") -> "Val":
        self.bases |= o.bases
        self.tops += o.tops
        self.external += o.external
        return self

    @classmethod
    def base(cls, b: str) -> "Val":
        v = cls()
        v.bases.add(b)
        return v

    @classmethod
    def top(cls, node, why, stmt=None) -> "Val":
        v = cls()
        v.tops.append((node, why, stmt))
        return v


class Ctx:
    def __init__(self, chk, scope_funcs, modules):
        self.chk = chk
        self.scope_funcs = scope_funcs  # list of (module, qualname, func)
        self.modules = modules
        self.defs_evaluated = 0


def _strip_casemaps(e: ast.AST) -> Tuple[ast.AST, int]:
    n = 0
    while (
        isinstance(e, ast.Call)
        and isinstance(e.func, ast.Attribute)
        and e.func.attr in CASE_METHODS
        and not e.args
        and not e.keywords
    ):
        e = e.func.value
        n += 1
    return e, n


def _flatten_add(e: ast.AST) -> List[ast.AST]:
    """Terms of a concatenation: ``a + b + c`` or the f-string ``f"{a}{b}{c}"`` (plain
    replacement fields only; literal text between them is a term of its own)."""
    if isinstance(e, ast.BinOp) and isinstance(e.op, ast.Add):
        return _flatten_add(e.left) + _flatten_add(e.right)
    if isinstance(e, ast.JoinedStr):
        out: List[ast.AST] = []
        for v in e.values:
            if isinstance(v, ast.FormattedValue) and v.conversion == -1 and v.format_spec is None:
                out += _flatten_add(v.value)
            elif isinstance(v, ast.Constant) and v.value == "":
                continue
            else:
                out.append(v)  # literal text, or a field with conversion / format spec
        return out or [e]
    return [e]


def _comp_binding(e: ast.Name):
    """(iterable, enclosing comprehension) when the name is bound by a generator clause of an
    enclosing comprehension (innermost visible binding), else None."""
    child, p = e, getattr(e, "_parent", None)
    while p is not None and not isinstance(p, FuncNode + (ast.Lambda, ast.ClassDef)):
        if isinstance(p, (ast.ListComp, ast.SetComp, ast.GeneratorExp, ast.DictComp)):
            gens = list(p.generators)
            visible = len(gens)
            for i, g in enumerate(gens):
                if child is g and any(n is e for n in ast.walk(g.iter)):
                    visible = i  # inside this clause's iterable: only earlier clauses bind
            for g in reversed(gens[:visible]):
                if any(isinstance(n, ast.Name) and n.id == e.id for n in ast.walk(g.target)):
                    return g.iter, p
        child, p = p, getattr(p, "_parent", None)
    return None


def _group_ref(e: ast.AST, m: str) -> Optional[int]:
    """m.group() / m.group(k) / m[k] -> k (0 for whole match)."""
    if isinstance(e, ast.Call) and isinstance(e.func, ast.Attribute) and e.func.attr == "group" and isinstance(e.func.value, ast.Name) and e.func.value.id == m and not e.keywords:
        if not e.args:
            return 0
        if len(e.args) == 1 and isinstance(e.args[0], ast.Constant) and isinstance(e.args[0].value, int):
            return e.args[0].value
        return None
    if isinstance(e, ast.Subscript) and isinstance(e.value, ast.Name) and e.value.id == m and isinstance(e.slice, ast.Constant) and isinstance(e.slice.value, int):
        return e.slice.value
    return None


def _function_as_lambda(fn) -> Optional[Tuple[ast.arguments, ast.AST]]:
    """(arguments, returned expression) of a def whose body is one ``return <expr>``
    (a docstring may precede it): the same thing as a lambda."""
    body = list(fn.body)
    if body and isinstance(body[0], ast.Expr) and isinstance(body[0].value, ast.Constant) and isinstance(body[0].value.value, str):
        body = body[1:]
    if len(body) == 1 and isinstance(body[0], ast.Return) and body[0].value is not None and not fn.decorator_list:
        return fn.args, body[0].value
    return None


def _check_sub(pat: Optional[ast.AST], repl: Optional[ast.AST]) -> Optional[str]:
    """None if substituting ``repl`` for matches of ``pat`` is a case-homomorphism, else the
    reason.  ``pat``/``repl`` are already resolved (locals and constants opened, a named
    one-return function given as the def node)."""
    if pat is None or repl is None:
        return "pattern/replacement argument not found"
    refs: Optional[List[int]] = None
    lam = None
    if isinstance(repl, ast.Lambda):
        lam = (repl.args, repl.body)
    elif isinstance(repl, FuncNode):
        lam = _function_as_lambda(repl)
        if lam is None:
            return f"replacement function {repl.name}() is not a single return expression"
    if lam is not None:
        a, body = lam
        if len(a.posonlyargs + a.args) != 1 or a.vararg or a.kwarg or a.kwonlyargs:
            return "replacement lambda does not take exactly the match object"
        m = (a.posonlyargs + a.args)[0].arg
        refs = []
        for term in _flatten_add(body):
            inner, _ = _strip_casemaps(term)
            k = _group_ref(inner, m)
            if k is None:
                if isinstance(inner, ast.Constant) and isinstance(inner.value, str):
                    return f"replacement inserts literal text {inner.value!r}"
                return f"replacement term {short(term, 50)!r} is not a case-mapped match group"
            refs.append(k)
    elif isinstance(repl, ast.Constant) and isinstance(repl.value, str):
        parts = re.findall(r"\\(\d)|\\g<(\d+)>", repl.value)
        rebuilt = re.sub(r"\\\d|\\g<\d+>", "", repl.value)
        if rebuilt:
            return f"replacement template {repl.value!r} contains literal text"
        refs = [int(a or b) for a, b in parts]
    else:
        return "replacement is neither a lambda nor a constant template"
    if refs == [0]:
        return None  # whole match re-emitted under a case map: any pattern will do
    if not (isinstance(pat, ast.Constant) and isinstance(pat.value, str)):
        return "pattern is not a string literal"
    groups, why = rx_top_groups(pat.value)
    if groups is None:
        return f"pattern does not tile the match with capturing groups: {why}"
    if refs != groups:
        return f"replacement returns groups {refs}, the match is tiled by groups {groups} (dropped, duplicated or reordered text)"
    return None


def _is_regex_module(module, head: str) -> bool:
    return module.imports.get(head) in ("re", "regex") and head not in module.defs


def _regex_sub_parts(ctx, func, call: ast.Call, at):
    """(pattern, replacement, subject) of ``regex.sub(p, f, x)`` / ``re.sub`` or of
    ``<compiled>.sub(f, x)`` where <compiled> is a local or module constant bound once to
    ``regex.compile(<pattern>)`` (no flags); pattern and replacement are resolved through
    single-definition locals / module constants / named one-return functions.  None when the
    call is not a regex substitution."""
    if not (isinstance(call.func, ast.Attribute) and call.func.attr == "sub" and isinstance(call.func.value, ast.Name)):
        return None
    module = func._module
    recv = call.func.value
    cfg = cfg_of(func)
    local = bool(at is not None and cfg.reaching().defs_at(at, recv.id))
    if not local and _is_regex_module(module, recv.id):
        pat, repl, subj = arg_of(call, 0, "pattern"), arg_of(call, 1, "repl"), arg_of(call, 2, "string")
        pat_at = at
    else:
        comp, pat_at = _value_of_name(func, recv, at)
        if not (
            isinstance(comp, ast.Call) and call_name(comp).count(".") == 1 and call_name(comp).endswith(".compile")
            and _is_regex_module(module, call_name(comp).split(".")[0]) and len(comp.args) == 1 and not comp.keywords
        ):
            return None
        pat, repl, subj = comp.args[0], arg_of(call, 0, "repl"), arg_of(call, 1, "string")
    if isinstance(pat, ast.Name):
        if pat_at is not None:
            pat, _ = _value_of_name(func, pat, pat_at)
        else:  # the compiled pattern is a module constant: so is whatever it names
            pat = _module_constant(module, pat.id) or pat
    if isinstance(repl, ast.Name):
        fn = _local_function(func, repl, at, ctx.chk.repo)
        if fn is not None:
            repl = fn
        else:
            repl, _ = _value_of_name(func, repl, at)
    return pat, repl, subj


def evalstr(ctx: Ctx, func, e: ast.AST, at, seen=None, defstmt=None) -> Val:
    """Abstract value of string expression ``e`` evaluated at statement ``at``."""
    seen = seen if seen is not None else set()
    module = func._module
    if isinstance(e, ast.Name):
        cfg = cfg_of(func)
        cb = _comp_binding(e)
        if cb is not None:
            # comprehension variable: the same as the variable of a for loop over that iterable
            return _for_value(ctx, func, cb[0], at, e)
        ds = cfg.reaching().defs_at(at, e.id) if at is not None else set()
        if not ds:
            return Val.base(e.id)  # global / builtin: external value
        out = Val()
        for d in sorted(ds, key=lambda d: getattr(d.stmt, "lineno", 0)):
            if id(d) in seen:
                continue
            seen.add(id(d))
            if d.kind == "param":
                out.merge(Val.base(e.id))
            elif d.kind in ("assign", "walrus"):
                ctx.defs_evaluated += 1
                if d.path:
                    # ``pair = <loop variable>; a, b = pair``: same as unpacking in the loop header
                    os_ = origins(cfg, d.value, d.stmt) if isinstance(d.value, ast.Name) else []
                    if os_ and all(o.kind == "for" and o.stmt is not None for o in os_):
                        for o in os_:
                            out.merge(_for_value(ctx, func, o.expr, o.stmt, d.node))
                    else:
                        out.merge(Val.top(d.node, "value obtained by unpacking", d.stmt))
                else:
                    out.merge(evalstr(ctx, func, d.value, d.stmt, seen, d.stmt))
            elif d.kind == "for":
                out.merge(_for_value(ctx, func, d.value, d.stmt, d.node))
            else:
                out.merge(Val.top(d.node, f"value defined by '{d.kind}' statement", d.stmt))
        return out
    if isinstance(e, ast.Attribute):
        return Val.base(_canon(func, e, at))
    if isinstance(e, ast.IfExp):
        return evalstr(ctx, func, e.body, at, seen, defstmt).merge(evalstr(ctx, func, e.orelse, at, seen, defstmt))
    if isinstance(e, ast.Call):
        if isinstance(e.func, ast.Attribute) and e.func.attr in CASE_METHODS and not e.args and not e.keywords:
            return evalstr(ctx, func, e.func.value, at, seen, defstmt)
        parts = _regex_sub_parts(ctx, func, e, at)
        if parts is not None:
            why = _check_sub(parts[0], parts[1])
            s = parts[2]
            if why is not None:
                return Val.top(e, f"{call_name(e)}: {why}", defstmt)
            if s is None:
                return Val.top(e, "regex.sub without subject string", defstmt)
            return evalstr(ctx, func, s, at, seen, defstmt)
        if call_name(e) == "str" and len(e.args) == 1:
            return evalstr(ctx, func, e.args[0], at, seen, defstmt)
        inl = _inline_call(ctx, func, e, at, seen, defstmt)
        if inl is not None:
            return inl
        return Val.top(e, f"result of call {short(e, 60)!r} is not a case map of the segment text", defstmt)
    if isinstance(e, ast.BinOp):
        return Val.top(e, f"string arithmetic {short(e, 60)!r} (concatenation/formatting) is not a case map", defstmt)
    if isinstance(e, ast.Subscript):
        return Val.top(e, f"slicing/indexing {short(e, 60)!r} is not a case map", defstmt)
    if isinstance(e, ast.JoinedStr):
        return Val.top(e, "f-string is not a case map", defstmt)
    if isinstance(e, ast.Constant):
        return Val.top(e, f"literal {e.value!r} is not derived from the segment text", defstmt)
    return Val.top(e, f"expression {short(e, 60)!r} is outside the case-map domain", defstmt)


def _inline_call(ctx: Ctx, func, call: ast.Call, at, seen, defstmt, _depth=[0]) -> Optional[Val]:
    """A helper extracted from the policy code: evaluate its return expressions with
    the arguments substituted (own methods and module-level functions only)."""
    if _depth[0] >= 3:
        return None
    module = func._module
    callee = None
    skip_self = 0
    if isinstance(call.func, ast.Name):
        callee = _local_function(func, call.func, at, ctx.chk.repo)  # nested def or module-level function
    elif isinstance(call.func, ast.Attribute) and isinstance(call.func.value, ast.Name) and call.func.value.id in ("self", "cls"):
        c = enclosing_class(func)
        if c is not None:
            r = ctx.chk.repo.lookup_method(module, c, call.func.attr)
            if r:
                callee = r[1]
                deco = {norm(d) for d in callee.decorator_list}
                skip_self = 0 if "staticmethod" in deco else 1
    if callee is None or any(k.arg is None for k in call.keywords) or any(isinstance(a, ast.Starred) for a in call.args):
        return None
    params = [a.arg for a in callee.args.posonlyargs + callee.args.args][skip_self:]
    by_keyword = [a.arg for a in callee.args.args + callee.args.kwonlyargs]
    if len(call.args) > len(params) or any(k.arg not in by_keyword or k.arg in params[: len(call.args)] for k in call.keywords):
        return None
    rets = [n for n in walk_local(callee) if isinstance(n, ast.Return) and n.value is not None]
    if not rets:
        return None
    argvals = {p: evalstr(ctx, func, a, at, seen, defstmt) for p, a in zip(params, call.args)}
    for k in call.keywords:
        argvals[k.arg] = evalstr(ctx, func, k.value, at, seen, defstmt)
    params = params + [a.arg for a in callee.args.kwonlyargs]
    out = Val()
    _depth[0] += 1
    try:
        for r in rets:
            v = evalstr(ctx, callee, r.value, r, None, r)
            out.tops += v.tops
            out.external += v.external
            for b in v.bases:
                if b in argvals:
                    out.merge(argvals[b])
                elif b in params or b in ("self", "cls"):
                    out.tops.append((r, f"helper {callee.name}() returns its parameter '{b}', for which no argument is passed", r))
                else:
                    out.bases.add(b)
    finally:
        _depth[0] -= 1
    return out


def _for_value(ctx: Ctx, func, it: ast.AST, loop, node) -> Val:
    """Value taken from the items of ``it`` by the loop statement ``loop`` (``node`` is the name
    bound): accepted only as the native extension's result (see docstring)."""
    cfg = cfg_of(func)
    os_ = origins(cfg, it, loop) if isinstance(it, ast.Name) else [Origin(it, (), "expr", loop)]
    params = [a.arg for a in func.args.posonlyargs + func.args.args]
    ext = []
    for o in os_:
        if o.kind == "expr" and isinstance(o.expr, ast.Call) and isinstance(o.expr.func, ast.Name) and o.expr.func.id in params:
            pidx = params.index(o.expr.func.id)
            callers = []
            for m, q, f in ctx.scope_funcs:
                for c in ast.walk(f):
                    if isinstance(c, ast.Call) and last_attr(c) == func.name and c is not o.expr:
                        callers.append((m, c))
            ok = bool(callers)
            names = []
            for m, c in callers:
                # bound method call: positional index shifts by one for self
                ai = pidx - 1 if isinstance(c.func, ast.Attribute) else pidx
                a = arg_of(c, ai, o.expr.func.id)
                if isinstance(a, ast.Attribute) and isinstance(a.value, ast.Name) and m.imports.get(a.value.id) == "sqlfluffrs" and a.value.id not in m.defs:
                    names.append(norm(a))
                else:
                    ok = False
            if ok:
                ext.append(", ".join(sorted(set(names))))
                continue
        v = Val.top(node, f"value iterated out of {short(it, 50)!r}", loop)
        return v
    if ext and len(ext) == len(os_):
        v = Val()
        v.external = ext
        return v
    return Val.top(node, f"value iterated out of {short(it, 50)!r}", loop)


def _branch_label(func, stmt) -> str:
    if stmt is None:
        return ""
    # the statement may stand in a helper that was inlined: label it by its own function's branches
    cfg = cfg_of(enclosing_function(stmt) or func)
    labs = []
    for e, pol in cfg.conditions(stmt):
        if pol and isinstance(e, ast.Compare) and len(e.ops) == 1 and isinstance(e.ops[0], ast.Eq):
            sides = [e.left, e.comparators[0]]
            if any(isinstance(s, ast.Constant) and isinstance(s.value, str) for s in sides):
                labs.append(norm(e))
    return " and ".join(sorted(set(labs)))


# ---------------------------------------------------------------------------


def _scope(chk):
    repo = chk.repo
    mods = [m for m in repo.iter_modules(PKG)]
    if not mods:
        raise AnalysisError("capitalisation package not found")
    funcs = []
    seen = set()
    for m in mods:
        for q, f in m.functions():
            funcs.append((m, q, f))
            seen.add(id(f))
    classes = []
    # Rule_CP01 and its subclasses (rule packages and plugins only: walking the
    # MRO of every dialect class would dominate the run time)
    subs = []
    for prefix in ("src/sqlfluff/rules/", "plugins/"):
        for mm in repo.iter_modules(prefix):
            for _q, cc in mm.classes():
                if any(x.name == "Rule_CP01" for _, x in repo.mro(mm, cc)):
                    subs.append((mm, cc))
    for m, c in subs:
        classes.append((m, c))
        for q, f in m.functions():
            if id(f) not in seen and enclosing_class(f) is c:
                funcs.append((m, q, f))
                seen.add(id(f))
    return mods, funcs, classes


def _report_val(chk, func, v: Val, what: str, sink: ast.AST) -> None:
    for node, why, st in v.tops:
        lab = _branch_label(func, st)
        where_ = st if st is not None else node
        # keyed by the policy branch and the ordinal of the offending statement in it, not by the statement's text: a
        # rename inside the statement must not re-key a recorded finding, a SECOND offending statement must get its own key
        if lab:
            if not hasattr(chk, "_r15a_branch_ordinals"):
                chk._r15a_branch_ordinals = {}
            seen_ = chk._r15a_branch_ordinals
            ids_ = seen_.setdefault((construct_of(sink), lab), [])
            ident = (getattr(where_, "lineno", 0), getattr(where_, "col_offset", 0))
            if ident not in ids_:
                ids_.append(ident)
            detail = f"when {lab}: statement #{sorted(ids_).index(ident) + 1} whose value is not a case map of the segment's text"
        else:
            detail = short(where_, 150)
        chk.fail(
            "R15a", where_,
            f"{what} is not a case-homomorphic image of the segment's text: {why}"
            + (f" (policy branch: {lab})" if lab else "")
            + " — the fix changes more than letter case",
            detail=detail, construct=construct_of(sink),
        )


_READ_ONLY_SET_CALLS = ("set", "frozenset", "tuple", "list", "sorted")
_MUTABLE_DISPLAY = (ast.Set, ast.List, ast.SetComp, ast.ListComp)


def _class_constant(cls: ast.ClassDef, name: str, before: int) -> Optional[ast.AST]:
    """Value of a name bound exactly once in the class body (plain assignment, above line ``before``)."""
    vals = []
    for item in cls.body:
        if isinstance(item, FuncNode + (ast.ClassDef,)):
            continue
        stores = [x for x in ast.walk(item) if isinstance(x, ast.Name) and x.id == name and isinstance(x.ctx, (ast.Store, ast.Del))]
        if not stores:
            continue
        if isinstance(item, ast.Assign) and len(item.targets) == 1 and isinstance(item.targets[0], ast.Name) and len(stores) == 1:
            vals.append(item)
        elif isinstance(item, ast.AnnAssign) and item.value is not None and isinstance(item.target, ast.Name) and len(stores) == 1:
            vals.append(item)
        else:
            return None
    if len(vals) == 1 and vals[0].lineno < before:
        return vals[0].value
    return None


def _only_read(mods, name: str, use: ast.AST) -> bool:
    """Every other mention of ``name`` (plain or as an attribute) in the given modules only reads the elements
    (``*name``, ``x in name``, iteration): a mutable value bound to it is still what its display says."""
    for m in mods:
        for x in ast.walk(m.tree):
            if x is use:
                continue
            if (isinstance(x, ast.Name) and x.id == name) or (isinstance(x, ast.Attribute) and x.attr == name):
                if isinstance(x.ctx, ast.Store):
                    continue  # the binding itself (a second binding makes the name unresolvable anyway)
                p = parent(x)
                if isinstance(p, ast.Starred):
                    continue
                if isinstance(p, ast.Compare) and x in p.comparators and all(isinstance(o, (ast.In, ast.NotIn)) for o in p.ops):
                    continue
                if isinstance(p, (ast.For, ast.comprehension)) and p.iter is x:
                    continue
                return False
    return True


def _crawl_types(mods, m, call: ast.Call, e: ast.AST, depth: int = 0) -> Optional[Set[str]]:
    """The string constants a crawl-set expression evaluates to, or None when that cannot be read off."""
    if depth > 8:
        return None
    if isinstance(e, (ast.Set, ast.List, ast.Tuple)):
        out: Set[str] = set()
        for x in e.elts:
            if isinstance(x, ast.Constant) and isinstance(x.value, str):
                out.add(x.value)
            elif isinstance(x, ast.Starred):
                sub = _crawl_types(mods, m, call, x.value, depth + 1)
                if sub is None:
                    return None
                out |= sub
            else:
                return None
        return out
    if isinstance(e, ast.Call) and not e.keywords and not any(isinstance(a, ast.Starred) for a in e.args):
        f = e.func
        if isinstance(f, ast.Name) and f.id in _READ_ONLY_SET_CALLS and f.id not in m.defs and f.id not in m.imports and _module_constant(m, f.id) is None:
            if not e.args:
                return set()
            return _crawl_types(mods, m, call, e.args[0], depth + 1) if len(e.args) == 1 else None
        if isinstance(f, ast.Attribute) and f.attr in ("union", "copy") and (f.attr == "union" or not e.args):
            out = set()
            for x in [f.value] + list(e.args):
                sub = _crawl_types(mods, m, call, x, depth + 1)
                if sub is None:
                    return None
                out |= sub
            return out
        return None
    if isinstance(e, ast.BinOp) and isinstance(e.op, (ast.BitOr, ast.Sub, ast.BitAnd)):
        a, b = _crawl_types(mods, m, call, e.left, depth + 1), _crawl_types(mods, m, call, e.right, depth + 1)
        if a is None or b is None:
            return None
        return a | b if isinstance(e.op, ast.BitOr) else a - b if isinstance(e.op, ast.Sub) else a & b
    if isinstance(e, ast.Name):
        c = enclosing_class(call)
        val = None
        if c is not None and enclosing_function(call) is None:
            val = _class_constant(c, e.id, e.lineno)
            if val is None and any(isinstance(x, ast.Name) and x.id == e.id and isinstance(x.ctx, (ast.Store, ast.Del)) for it in c.body if not isinstance(it, FuncNode + (ast.ClassDef,)) for x in ast.walk(it)):
                return None  # bound in the class body, but not as one plain assignment above the call
        elif enclosing_function(call) is not None:
            return None  # a crawler built inside a function: locals are not followed here
        if val is None:
            val = _module_constant(m, e.id)
        if val is None:
            return None
        mutable = isinstance(val, _MUTABLE_DISPLAY) or (isinstance(val, ast.Call) and isinstance(val.func, ast.Name) and val.func.id in ("set", "list", "sorted"))
        if mutable and not _only_read(mods, e.id, e):
            return None
        return _crawl_types(mods, m, call, val, depth + 1)
    return None


def _r15e(chk, repo) -> None:
    import re as _re

    from ..grammar import load_grammar

    in_selftest = getattr(chk, "in_selftest", False)
    g = load_grammar(repo, cache=not in_selftest)
    # the types the CP rules seek (read from their crawl_behaviour declarations)
    crawled: Set[str] = set()
    cp_mods = list(repo.iter_modules("src/sqlfluff/rules/capitalisation/"))
    for m in cp_mods:
        for n in ast.walk(m.tree):
            if not (isinstance(n, ast.Call) and last_attr(n) == "SegmentSeekerCrawler"):
                continue
            # positional or keyword; a display, set()/frozenset()/... of one, a union, or a name bound once to such a
            # value in the class body or at module level (decided on the value, not on the spelling)
            arg = arg_of(n, 0, "types")
            ts = _crawl_types(cp_mods, m, n, arg) if arg is not None else None
            if ts is None:
                # not a verdict on the code: an unreadable crawl set is an analysis gap (exit 2), never a violation
                raise AnalysisError(
                    f"R15e: cannot read the set of segment types the crawler at {m.relpath}:{n.lineno} seeks ({short(n, 80)}): whether a crawled type can be a quoted name "
                    "is undecided; teach _crawl_types the new spelling"
                )
            crawled |= ts
    chk.count("R15e.crawled_types", len(crawled))
    chk.floor("R15e.crawled_types", 8)
    samples = ['"ab"', "'ab'", "`ab`", "[ab]"]
    n = 0
    for name, dg in sorted(g.items()):
        seen = set()
        # only parsers some grammar path from the dialect's root segment leads to can produce a segment: a library
        # entry nothing refers to (left over, or replaced in this dialect) is not judged
        reach = dg.reach()
        for node in dg.iter_nodes(family="parser"):
            if node["id"] not in reach:
                continue
            its = set(node.get("instance_types") or ())
            if node.get("raw_class_type"):
                its.add(node.get("raw_class_type"))
            hit = sorted(its & crawled)
            tpl = node.get("template")
            if not hit or node.get("kind") != "RegexParser" or not isinstance(tpl, str):
                continue
            n += 1
            try:
                rx = _re.compile(tpl, _re.IGNORECASE)
            except _re.error:
                continue
            quoted = [x for x in samples if rx.fullmatch(x)]
            if not quoted or tuple(hit) in seen:
                continue
            seen.add(tuple(hit))
            chk.fail(
                "R15e", None,
                f"dialect '{name}': the parser for {hit} accepts quoted text such as {quoted}: the capitalisation rule that crawls {hit} edits the whole token and re-cases a quoted, "
                "case-sensitive name",
                detail=f"crawled type is never a quoted name; dialect={name} type={'/'.join(hit)}",
                construct=f"src/sqlfluff/dialects/dialect_{name}.py", loc=(f"src/sqlfluff/dialects/dialect_{name}.py", 0),
            )
    chk.count("R15e.regex_parsers_of_crawled_types", n)
    chk.floor("R15e.regex_parsers_of_crawled_types", 30 if not in_selftest else 1)


def _r15d(chk, repo) -> None:
    """CP01 crawls every segment that is_type("keyword") -- class types included -- and edits its raw.  A parser
    that hands a quoted literal (`'GZIP'`) to KeywordSegment makes the rule re-case a string literal."""
    from ..grammar import load_grammar

    in_selftest = getattr(chk, "in_selftest", False)
    g = load_grammar(repo, cache=not in_selftest)
    n = 0
    QUOTES = ("'", '"', "`", "[")
    for name, dg in sorted(g.items()):
        seen = set()
        for node in dg.iter_nodes(family="parser"):
            if node.get("raw_class") != "KeywordSegment" and node.get("raw_class_type") != "keyword":
                continue
            n += 1
            ts = node.get("templates") or ([node.get("template")] if node.get("template") else [])
            q = sorted(t for t in ts if isinstance(t, str) and t[:1] in QUOTES)
            if not q:
                continue
            types = tuple(node.get("instance_types") or ())
            key = (types, node.get("kind"))
            if key in seen:
                continue
            seen.add(key)
            chk.fail(
                "R15d", None,
                f"dialect '{name}': a {node.get('kind')} producing keyword segments (instance type {list(types)}) matches quoted text ({q[:3]}{' ..' if len(q) > 3 else ''}): "
                "the capitalisation rules treat the whole token, quotes included, as a keyword and re-case a string literal",
                detail=f"quoted text is not parsed as a keyword; dialect={name} type={'/'.join(types) or '-'}",
                construct=f"src/sqlfluff/dialects/dialect_{name}.py", loc=(f"src/sqlfluff/dialects/dialect_{name}.py", 0),
            )
    chk.count("R15d.keyword_parsers", n)
    chk.floor("R15d.keyword_parsers", 50 if not in_selftest else 1)


def run(chk) -> None:
    chk.rule("R15a", "every fix of the capitalisation rules is replace(A, [A.edit(R)]) with R a case-homomorphic image of A.raw (abstract domain CASEMAP over reaching definitions, regex.sub with tiling capture groups)")
    chk.rule("R15b", "(evidence) crawler type sets and _exclude_* tuples of the CP rules are listed, not judged")
    repo = chk.repo
    chk.rule("R15d", "no dialect lets a quoted string be a keyword: no StringParser / MultiStringParser / RegexParser that produces keyword segments (the class CP01 re-cases) has a template that starts with a quote character")
    _r15d(chk, repo)
    chk.rule("R15e", "no segment type the capitalisation rules crawl can be a quoted name: in every dialect, no RegexParser that produces one of the crawled types (naked identifiers, function names, data type identifiers, ...) accepts a text enclosed in quote characters (\", ', `, [ ])")
    _r15e(chk, repo)
    mods, funcs, classes = _scope(chk)
    ctx = Ctx(chk, funcs, mods)

    # ---- 1. every LintFix construction in scope is the one accepted shape ----
    builders: Dict[int, Tuple[int, int]] = {}  # id(func) -> (anchor param idx, raw param idx)
    for m, q, f in funcs:
        for c in list(walk_local(f)):
            if not isinstance(c, ast.Call):
                continue
            cn = call_name(c)
            if not (cn == "LintFix" or cn.startswith("LintFix.")):
                continue
            chk.count("R15a.lintfix_constructions")
            kind = cn.split(".", 1)[1] if "." in cn else (c.args[0].value if c.args and isinstance(c.args[0], ast.Constant) else "?")
            if not chk.require(kind == "replace" and cn == "LintFix.replace", "R15a", c, f"capitalisation rule builds a '{kind}' fix; only replace(anchor, [anchor.edit(raw)]) can be a pure case change", detail=f"fix kind: {short(c, 120)}"):
                continue
            st = cfg_of(f).stmt_of(c)
            anchor = arg_of(c, 0, "anchor_segment")
            # the list display and the edited copy may each be bound to a local first
            edit, edit_at = _resolve_display(f, arg_of(c, 1, "edit_segments"), st)
            one = isinstance(edit, ast.List) and len(edit.elts) == 1 and not isinstance(edit.elts[0], ast.Starred)
            if not chk.require(one and anchor is not None, "R15a", c, "replacement is not a list display of exactly one segment (extra or missing segments change more than case)", detail=f"one replacement segment: {short(c, 120)}"):
                continue
            ed, ed_at = _resolve(f, edit.elts[0], edit_at)
            shape = (
                isinstance(ed, ast.Call) and isinstance(ed.func, ast.Attribute) and ed.func.attr == "edit"
                and isinstance(ed.func.value, (ast.Name, ast.Attribute)) and isinstance(anchor, ast.Name)
                and _canon(f, ed.func.value, ed_at) == _canon(f, anchor, st)
                and len(ed.args) + len(ed.keywords) == 1 and (len(ed.args) == 1 or ed.keywords[0].arg == "raw")
            )
            if not chk.require(shape, "R15a", c, "the replacement is not <anchor>.edit(<raw>) of the very segment being replaced (other segment edited, or more than the raw text set)", detail=f"anchor.edit(raw) of the anchor: {short(c, 120)}"):
                continue
            raw = ed.args[0] if ed.args else ed.keywords[0].value
            v = evalstr(ctx, f, raw, ed_at)
            params = [a.arg for a in f.args.posonlyargs + f.args.args]
            anchor_c = _canon(f, anchor, st)
            anchor_p = _param_of(f, anchor, st)  # the parameter the anchor can only be (directly or through a local)
            if (
                not v.tops and not v.external and len(v.bases) == 1 and next(iter(v.bases)) in params
                and anchor_p in params
            ):
                builders[id(f)] = (params.index(anchor_p), params.index(next(iter(v.bases))))
                chk.count("R15a.fix_builders")
                chk.sample({"rule": "R15a", "builder": f"{m.relpath}:{f.lineno} {q}", "returns": short(c, 90)})
                continue
            # a direct sink: raw must be an image of anchor.raw right here
            _report_val(chk, f, v, f"new raw text {short(raw, 40)!r}", c)
            chk.require(
                bool(v.tops) or v.bases == {anchor_c + ".raw"} or bool(v.external), "R15a", c,
                f"new raw text derives from {sorted(v.bases)} rather than from {anchor_c}.raw", detail=f"base of raw: {short(c, 120)}",
            )

    # ---- 2. builder overrides and all calls of the builder --------------------
    n_calls = 0
    for m, q, f in funcs:
        params = [a.arg for a in f.args.posonlyargs + f.args.args]
        for c in list(walk_local(f)):
            if not (isinstance(c, ast.Call) and last_attr(c) == BUILDER and isinstance(c.func, ast.Attribute)):
                continue
            n_calls += 1
            chk.count("R15a.builder_calls")
            a = arg_of(c, 0, "segment")
            r = arg_of(c, 1, "fixed_raw")
            st = cfg_of(f).stmt_of(c)
            v = evalstr(ctx, f, r, st) if r is not None else Val()
            # the native extension's (leaf index, text) pairs: anchor and text are related by the
            # recorded assumption, not by this analysis, so the anchor may be any expression
            native_only = bool(v.external) and not v.tops and not v.bases and a is not None and r is not None
            plain = a is not None and r is not None and isinstance(a, (ast.Name, ast.Attribute))
            if not (native_only and not plain) and not chk.require(plain, "R15a", c, "fix builder called with an anchor that is not a plain name/attribute (cannot relate it to the edited text)", detail=f"builder call shape: {short(c, 120)}"):
                continue
            a_c = _canon(f, a, st)  # what the anchor expression holds (a local alias of a parameter is that parameter)
            # pass-through override: def _get_fix(self, segment, fixed_raw): return super()._get_fix(segment, fixed_raw)
            if f.name == BUILDER and not v.tops and v.bases <= set(params) and len(v.bases) == 1 and _param_of(f, a, st) in params:
                ai, ri = params.index(_param_of(f, a, st)), params.index(next(iter(v.bases)))
                same_order = (ai, ri) == (1, 2)
                chk.require(same_order, "R15a", c, "override of the fix builder passes its parameters on in a different order", detail=f"override passes (segment, fixed_raw) through: {short(c, 100)}")
                builders[id(f)] = (ai, ri)
                continue
            _report_val(chk, f, v, f"text passed to {BUILDER}() as the new raw", c)
            if v.external:
                chk.count("R15a.external_native_values")
                msg = (
                    f"{m.relpath}::{q}: new raw text comes from the native extension ({'; '.join(v.external)}) — outside the analysed Python tree; "
                    "assumed to return a re-cased copy of the token at the returned leaf index"
                )
                if msg not in chk.assumptions:
                    chk.assumptions.append(msg)
                chk.ok("R15a", construct_of(c), f"external: {short(c, 100)}")
                continue
            want = f"{a_c}.raw"
            chk.require(
                v.bases <= {want} and bool(v.bases or v.tops), "R15a", c,
                f"the anchor of the fix is '{norm(a)}' but the new text is a case map of {sorted(v.bases)}: the edited segment and the recased text belong to different segments",
                detail=f"anchor/text agreement: {short(c, 120)}",
            )
            chk.sample({"rule": "R15a", "call": f"{m.relpath}:{c.lineno}", "anchor": a_c, "bases": sorted(v.bases), "definitions_evaluated": ctx.defs_evaluated})
    # every `fixes=` handed to a LintResult in scope is a list of builder calls
    for m, q, f in funcs:
        for c in walk_local(f):
            if isinstance(c, ast.Call) and call_name(c) == "LintResult":
                fx = arg_of(c, 1, "fixes")
                if fx is None:
                    continue
                chk.count("R15a.lintresult_fix_lists")
                # the list, and each fix in it, may be bound to a local before the result is built
                st = cfg_of(f).stmt_of(c)
                fl, fl_at = _resolve_display(f, fx, st)
                ok = isinstance(fl, ast.List) and all(
                    isinstance(x, ast.Call) and last_attr(x) == BUILDER for x in (_resolve(f, y, fl_at)[0] for y in fl.elts)
                )
                chk.require(ok, "R15a", c, f"LintResult in a capitalisation rule carries fixes not built by {BUILDER}(): {short(fx, 60)}", detail=f"fixes from builder: {short(fx, 100)}")
    # all _get_fix definitions in scope are recognised builders
    for m, q, f in funcs:
        if f.name == BUILDER:
            chk.count("R15a.builder_definitions")
            chk.require(id(f) in builders, "R15a", f, f"{q} does not return replace(segment, [segment.edit(fixed_raw)]) (directly or via super())", detail=f"builder definition {q}")
    chk.count("R15a.raw_definitions_evaluated", ctx.defs_evaluated)
    # anchors only (a breaking edit must surface as a finding, not as a floor)
    chk.floor("R15a.lintfix_constructions", 1)
    chk.floor("R15a.builder_definitions", 1)
    chk.floor("R15a.builder_calls", 2)

    # ---- R15b: evidence only -----------------------------------------------------
    for m, c in sorted(classes, key=lambda mc: mc[1].name):
        facts = {"class": f"{m.relpath}::{c.name}"}
        for attr in ("crawl_behaviour", "_exclude_types", "_exclude_parent_types"):
            for mm, cc in repo.mro(m, c):
                val = None
                for item in cc.body:
                    tgt = None
                    if isinstance(item, ast.Assign) and len(item.targets) == 1:
                        tgt, val_ = item.targets[0], item.value
                    elif isinstance(item, ast.AnnAssign) and item.value is not None:
                        tgt, val_ = item.target, item.value
                    if isinstance(tgt, ast.Name) and tgt.id == attr:
                        val = val_
                if val is not None:
                    facts[attr] = short(val, 160) + ("" if cc is c else f"  (inherited from {cc.name})")
                    break
        chk.count("R15b.classes")
        chk.sample(facts, limit=24)
        chk.note(f"R15b {c.name}: crawler={facts.get('crawl_behaviour')}; exclude_types={facts.get('_exclude_types')}; exclude_parent_types={facts.get('_exclude_parent_types')}.")
    chk.floor("R15b.classes", 5)

    # ---- R15c: children handed to the case changer are never quoted things or comments ----------
    chk.rule(
        "R15c",
        "a segment that a capitalisation rule picks by iterating the children of its crawl target reaches _handle_segment only behind a skip of "
        "comments, quoted literals and identifiers (the crawl target itself is selected by the crawler's type set, R15b)",
    )
    n_c = 0
    for m, q, f in funcs:
        cfg = None
        for c in walk_local(f):
            if not (isinstance(c, ast.Call) and last_attr(c) == "_handle_segment" and c.args and isinstance(c.args[0], ast.Name)):
                continue
            cfg = cfg or cfg_of(f)
            st = cfg.stmt_of(c)
            # the segment handed over is a loop variable (directly or through a local)?
            os_ = origins(cfg, c.args[0], st)
            if not any(o.kind == "for" for o in os_):
                continue  # the crawl target / a parameter: selected by the crawler
            n_c += 1
            key = _loop_item(cfg, c.args[0], st)
            excluded = set()
            if key is not None:
                for e, pol in _conditions(f, st):
                    if (
                        isinstance(e, ast.Call) and last_attr(e) == "is_type" and isinstance(e.func, ast.Attribute)
                        and _loop_item(cfg, e.func.value, cfg.stmt_of(e)) == key and not pol
                    ):
                        excluded |= _type_names(chk, f, e, cfg.stmt_of(e))
                    if isinstance(e, ast.Attribute) and _loop_item(cfg, e.value, cfg.stmt_of(e)) == key:
                        if e.attr == "is_comment" and not pol:
                            excluded.add("comment")
                        if e.attr == "is_code" and pol:
                            excluded |= {"comment", "whitespace", "newline"}
            missing = [t for t in PROTECTED_CHILD_TYPES if t not in excluded and not (t == "quoted_identifier" and "identifier" in excluded)]
            chk.require(
                not missing, "R15c", c,
                f"{q}: children of the crawl target are handed to the case changer without excluding {missing} "
                f"(excluded here: {sorted(excluded)}): their text is re-cased although the property keeps quoted things and comments unchanged",
                detail=f"{q}: child iteration skips comments, quoted literals and identifiers",
            )
    chk.count("R15c.child_iteration_sites", n_c)
    chk.floor("R15c.child_iteration_sites", 1)


def _loop_item(cfg, e: ast.AST, at):
    """(loop statement, tuple path) when ``e`` is a plain name that can only hold the item of one
    ``for`` loop (the loop variable itself or a local copy of it)."""
    if not isinstance(e, ast.Name) or at is None:
        return None
    os_ = origins(cfg, e, at)
    if len(os_) == 1 and os_[0].kind == "for" and os_[0].stmt is not None:
        return (id(os_[0].stmt), tuple(os_[0].path))
    return None


def _type_names(chk, func, call: ast.Call, at) -> Set[str]:
    """Type names an ``is_type(...)`` call tests for: string constants, and ``*T`` where T is a
    tuple of string constants bound once (local, module constant, or class attribute ``self.T``)."""
    out: Set[str] = set()
    for a in call.args:
        if isinstance(a, ast.Constant) and isinstance(a.value, str):
            out.add(a.value)
        elif isinstance(a, ast.Starred):
            v = a.value
            val = None
            if isinstance(v, ast.Name):
                val, _ = _value_of_name(func, v, at)
            elif isinstance(v, ast.Attribute) and isinstance(v.value, ast.Name) and v.value.id in ("self", "cls"):
                c = enclosing_class(func)
                if c is not None:
                    for _mm, cc in chk.repo.mro(func._module, c):
                        found = [
                            item.value for item in cc.body
                            if (isinstance(item, ast.Assign) and len(item.targets) == 1 and isinstance(item.targets[0], ast.Name) and item.targets[0].id == v.attr)
                            or (isinstance(item, ast.AnnAssign) and item.value is not None and isinstance(item.target, ast.Name) and item.target.id == v.attr)
                        ]
                        if found:
                            val = found[-1]
                            break
            # an immutable display only: a list could have been changed after it was bound
            if isinstance(val, ast.Tuple) and all(isinstance(x, ast.Constant) and isinstance(x.value, str) for x in val.elts):
                out |= {x.value for x in val.elts}
    return out


# types whose text must never be re-cased; "identifier" is the super-type of naked and quoted identifiers
PROTECTED_CHILD_TYPES = ("comment", "quoted_literal", "quoted_identifier")

# ---------------------------------------------------------------------------
from ..selftest import Variant  # noqa: E402

CP05 = PKG + "CP05.py"
_CP05_SKIP = "                if seg.is_type(\n                    \"symbol\", \"identifier\", \"quoted_literal\", \"comment\"\n                ) or not seg.is_type(\"raw\"):\n                    continue\n"
_CP05_SKIP_AND_CALL = _CP05_SKIP + "                res = self._handle_segment(seg, context)\n                if res:\n                    results.append(res)\n"
_WORD_RX = "\"([^a-zA-Z0-9]+|^)([a-zA-Z0-9])([a-zA-Z0-9]*)\""

_CP02_CRAWL = "    crawl_behaviour = SegmentSeekerCrawler(\n        {\"naked_identifier\", \"properties_naked_identifier\"}\n    )\n"

SELFTEST_NEEDS_FILES = True  # R15d reads the dialect grammar through the front-end, which imports the tree from disk

VARIANTS = [
    Variant(
        "cp02-also-crawls-parameters", "src/sqlfluff/rules/capitalisation/CP02.py",
        '        {"naked_identifier", "properties_naked_identifier"}\n',
        '        {"naked_identifier", "properties_naked_identifier", "parameter"}\n',
        "R15e", "type=parameter", "seeded C15-7: quoted function parameter names are re-cased",
    ),
    Variant(
        "quoted-warehouse-sizes-become-keywords", "src/sqlfluff/dialects/dialect_snowflake.py",
        '            [f"\'{size}\'" for size in snowflake_dialect.sets("warehouse_sizes")],\n            CodeSegment,\n',
        '            [f"\'{size}\'" for size in snowflake_dialect.sets("warehouse_sizes")],\n            KeywordSegment,\n',
        "R15d", None, "seeded C15-6 (the quoted form only): `WAREHOUSE_SIZE = 'x-large'` is re-cased",
    ),
    Variant(
        "lower-policy-casefolds", "src/sqlfluff/rules/capitalisation/CP01.py",
        "                fixed_raw = fixed_raw.lower()\n",
        "                fixed_raw = fixed_raw.casefold()\n",
        "R15a", None, "seeded C15-3: postgres `SELECT Straße` is rewritten to `strasse`",
    ),
    # behaviour-preserving refactors: must stay quiet
    Variant(
        "quiet-cp05-skip-as-two-ifs", CP05,
        _CP05_SKIP,
        "                if seg.is_type(\"symbol\", \"identifier\", \"quoted_literal\"):\n                    continue\n                if seg.is_comment or not seg.is_type(\"raw\"):\n                    continue\n",
        "QUIET", None, "skip split in two tests, comments recognised by is_comment",
    ),
    Variant(
        "quiet-cp05-skip-test-in-boolean-local", CP05,
        _CP05_SKIP,
        "                skip = seg.is_type(\n                    \"symbol\", \"identifier\", \"quoted_literal\", \"comment\"\n                ) or not seg.is_type(\"raw\")\n                if skip:\n                    continue\n",
        "QUIET", None, "R15c: the skip test hoisted into a boolean local",
    ),
    Variant(
        "quiet-cp05-handle-under-positive-test", CP05,
        _CP05_SKIP_AND_CALL,
        "                if seg.is_type(\"raw\") and not seg.is_type(\n                    \"symbol\", \"identifier\", \"quoted_literal\", \"comment\"\n                ):\n                    res = self._handle_segment(seg, context)\n                    if res:\n                        results.append(res)\n",
        "QUIET", None, "R15c: `if skip: continue` respelled as `if not skip: handle` (De Morgan)",
    ),
    Variant(
        "quiet-cp05-skip-types-in-local-tuple", CP05,
        "            for seg in context.segment.segments:\n                # We don't want to edit symbols, quoted things, identifiers\n                # or comments if they appear.\n                if seg.is_type(\n                    \"symbol\", \"identifier\", \"quoted_literal\", \"comment\"\n                ) or not seg.is_type(\"raw\"):\n",
        "            untouched = (\"symbol\", \"identifier\", \"quoted_literal\", \"comment\")\n            for seg in context.segment.segments:\n                if seg.is_type(*untouched) or not seg.is_type(\"raw\"):\n",
        "QUIET", None, "R15c: the protected type names hoisted out of the loop into a tuple, passed with *",
    ),
    Variant(
        "quiet-fix-built-into-local-before-result", CP01,
        "            return LintResult(\n                anchor=segment,\n                fixes=[self._get_fix(segment, fixed_raw)],\n                memory=memory,",
        "            fix = self._get_fix(segment, fixed_raw)\n            return LintResult(\n                anchor=segment,\n                fixes=[fix],\n                memory=memory,",
        "QUIET", None, "R15a: the builder call bound to a local before it goes into fixes=[...]",
    ),
    Variant(
        "quiet-anchor-through-a-local", CP01,
        "            return LintResult(\n                anchor=segment,\n                fixes=[self._get_fix(segment, fixed_raw)],\n                memory=memory,",
        "            anchor = segment\n            return LintResult(\n                anchor=anchor,\n                fixes=[self._get_fix(anchor, fixed_raw)],\n                memory=memory,",
        "QUIET", None, "R15a: anchor/text agreement must be decided on what the anchor local holds, not on its name",
    ),
    Variant(
        "quiet-builder-edit-through-local-and-keywords", CP01,
        "        return LintFix.replace(segment, [segment.edit(fixed_raw)])\n",
        "        edited = segment.edit(raw=fixed_raw)\n        return LintFix.replace(anchor_segment=segment, edit_segments=[edited])\n",
        "QUIET", None, "R15a: the edited copy bound to a local; keyword arguments",
    ),
    Variant(
        "quiet-cp03-override-passes-keywords", PKG + "CP03.py",
        "        return super()._get_fix(segment, fixed_raw)\n",
        "        return super()._get_fix(segment=segment, fixed_raw=fixed_raw)\n",
        "QUIET", None, "R15a: pass-through override with keyword arguments",
    ),
    Variant(
        "quiet-pascal-pattern-hoisted-to-local", CP01,
        "            fixed_raw = regex.sub(\n                " + _WORD_RX + ",\n                lambda match: match.group(1) + match.group(2).upper() + match.group(3),\n",
        "            word = " + _WORD_RX + "\n            fixed_raw = regex.sub(\n                word,\n                lambda match: match.group(1) + match.group(2).upper() + match.group(3),\n",
        "QUIET", None, "R15a: regex pattern read through a local",
    ),
    Variant(
        "quiet-pascal-pattern-compiled-in-local", CP01,
        "            fixed_raw = regex.sub(\n                " + _WORD_RX + ",\n                lambda match: match.group(1) + match.group(2).upper() + match.group(3),\n",
        "            word = regex.compile(" + _WORD_RX + ")\n            fixed_raw = word.sub(\n                lambda match: match.group(1) + match.group(2).upper() + match.group(3),\n",
        "QUIET", None, "R15a: pattern compiled first, substitution through the compiled object",
    ),
    Variant(
        "quiet-camel-replacement-as-nested-def", CP01,
        "            fixed_raw = regex.sub(\n                " + _WORD_RX + ",\n                lambda match: match.group(1) + match.group(2).lower() + match.group(3),\n",
        "            def lower_first(word):\n                return word.group(1) + word.group(2).lower() + word.group(3)\n\n            fixed_raw = regex.sub(\n                " + _WORD_RX + ",\n                lower_first,\n",
        "QUIET", None, "R15a: replacement lambda turned into a named local function",
    ),
    Variant(
        "quiet-simple-policies-as-flat-elif-chain", CP01,
        "        if concrete_policy in [\"upper\", \"lower\", \"capitalise\"]:\n            if concrete_policy == \"upper\":\n                fixed_raw = fixed_raw.upper()\n            elif concrete_policy == \"lower\":\n                fixed_raw = fixed_raw.lower()\n            elif concrete_policy == \"capitalise\":\n                fixed_raw = fixed_raw.capitalize()\n        elif concrete_policy == \"pascal\":",
        "        if concrete_policy == \"upper\":\n            fixed_raw = segment.raw.upper()\n        elif concrete_policy == \"lower\":\n            fixed_raw = segment.raw.lower()\n        elif concrete_policy == \"capitalise\":\n            fixed_raw = segment.raw.capitalize()\n        elif concrete_policy == \"pascal\":",
        "QUIET", None, "R15a: nested membership test + chain flattened into one chain; initial value inlined",
    ),
    Variant(
        "quiet-simple-policies-in-nested-helper", CP01,
        "        if concrete_policy in [\"upper\", \"lower\", \"capitalise\"]:\n            if concrete_policy == \"upper\":\n                fixed_raw = fixed_raw.upper()\n            elif concrete_policy == \"lower\":\n                fixed_raw = fixed_raw.lower()\n            elif concrete_policy == \"capitalise\":\n                fixed_raw = fixed_raw.capitalize()\n",
        "        def recased(raw: str) -> str:\n            if concrete_policy == \"upper\":\n                return raw.upper()\n            if concrete_policy == \"lower\":\n                return raw.lower()\n            return raw.capitalize()\n\n        if concrete_policy in [\"upper\", \"lower\", \"capitalise\"]:\n            fixed_raw = recased(fixed_raw)\n",
        "QUIET", None, "R15a: the three simple policies extracted into a local function",
    ),
    Variant(
        "quiet-simple-policies-as-conditional-expression", CP01,
        "            if concrete_policy == \"upper\":\n                fixed_raw = fixed_raw.upper()\n            elif concrete_policy == \"lower\":\n                fixed_raw = fixed_raw.lower()\n            elif concrete_policy == \"capitalise\":\n                fixed_raw = fixed_raw.capitalize()\n",
        "            fixed_raw = (\n                fixed_raw.upper()\n                if concrete_policy == \"upper\"\n                else fixed_raw.lower()\n                if concrete_policy == \"lower\"\n                else fixed_raw.capitalize()\n            )\n",
        "QUIET", None, "R15a: if/elif chain as one conditional expression",
    ),
    Variant(
        "quiet-pascal-replacement-as-fstring-with-subscripts", CP01,
        "                lambda match: match.group(1) + match.group(2).upper() + match.group(3),\n",
        "                lambda m: f\"{m[1]}{m[2].upper()}{m[3]}\",\n",
        "QUIET", None, "R15a: concatenation respelled as an f-string over match[n]",
    ),
    Variant(
        "quiet-fix-list-through-local", CP01,
        "            return LintResult(\n                anchor=segment,\n                fixes=[self._get_fix(segment, fixed_raw)],\n                memory=memory,",
        "            fixes = [self._get_fix(segment, fixed_raw)]\n            return LintResult(\n                anchor=segment,\n                fixes=fixes,\n                memory=memory,",
        "QUIET", None, "R15a: the whole fixes list bound to a local",
    ),
    Variant(
        "quiet-native-results-as-comprehension", CP01,
        "        results: list[LintResult] = []\n        for leaf_idx, fixed_raw in violations:\n            segment = raw_segments[leaf_idx]\n            results.append(\n                LintResult(\n                    anchor=segment,\n                    fixes=[self._get_fix(segment, fixed_raw)],\n                    description=f\"{self._description_elem} must be {policy_text}\",\n                )\n            )\n        return results\n",
        "        return [\n            LintResult(\n                anchor=raw_segments[leaf_idx],\n                fixes=[self._get_fix(raw_segments[leaf_idx], fixed_raw)],\n                description=f\"{self._description_elem} must be {policy_text}\",\n            )\n            for leaf_idx, fixed_raw in violations\n        ]\n",
        "QUIET", None, "R15a: result loop of the native path respelled as a list comprehension",
    ),
    Variant(
        "quiet-native-loop-unpacks-in-body", CP01,
        "        for leaf_idx, fixed_raw in violations:\n            segment = raw_segments[leaf_idx]\n",
        "        for found in violations:\n            leaf_idx, fixed_raw = found\n            segment = raw_segments[leaf_idx]\n",
        "QUIET", None, "R15a: (index, text) pair of the native result unpacked in the loop body instead of the loop header",
    ),
    # R15e: the crawl set and the parsers of the crawled types, re-spelled
    Variant(
        "quiet-r15e-cp02-types-as-keyword", PKG + "CP02.py",
        _CP02_CRAWL,
        "    crawl_behaviour = SegmentSeekerCrawler(\n        types={\"naked_identifier\", \"properties_naked_identifier\"}\n    )\n",
        "QUIET", None, "R15e: the crawl set passed by keyword",
    ),
    Variant(
        "quiet-r15e-cp02-types-in-class-attribute", PKG + "CP02.py",
        _CP02_CRAWL,
        "    _crawled_types = {\"naked_identifier\", \"properties_naked_identifier\"}\n    crawl_behaviour = SegmentSeekerCrawler(_crawled_types)\n",
        "QUIET", None, "R15e: the crawl set bound to a name in the class body first",
    ),
    Variant(
        "quiet-r15e-cp05-types-as-set-of-list", CP05,
        "    crawl_behaviour = SegmentSeekerCrawler(\n        {\n            \"data_type_identifier\",\n            \"primitive_type\",\n            \"datetime_type_identifier\",\n            \"data_type\",\n        }\n    )\n",
        "    crawl_behaviour = SegmentSeekerCrawler(\n        set(\n            [\n                \"data_type_identifier\",\n                \"primitive_type\",\n                \"datetime_type_identifier\",\n                \"data_type\",\n            ]\n        )\n    )\n",
        "QUIET", None, "R15e: set display respelled as set([...])",
    ),
    Variant(
        "quiet-r15e-ansi-naked-identifier-parser-keywords-and-local", "src/sqlfluff/dialects/dialect_ansi.py",
        "        lambda dialect: RegexParser(\n            r\"[A-Z0-9_]*[A-Z][A-Z0-9_]*\",\n            IdentifierSegment,\n            type=\"naked_identifier\",\n",
        "        lambda dialect: RegexParser(\n            template=r\"(?:[A-Z0-9_]*[A-Z][A-Z0-9_]*)\",\n            raw_class=IdentifierSegment,\n            type=\"naked_identifier\",\n",
        "QUIET", None, "R15e: the naked identifier parser with keyword arguments, pattern wrapped in a non-capturing group",
    ),
    Variant(
        "quiet-r15e-ansi-unreferenced-quoted-name-parser", "src/sqlfluff/dialects/dialect_ansi.py",
        "    ParameterNameSegment=RegexParser(\n",
        "    UnusedDelimitedNameSegment=RegexParser(\n        r'\"[^\"]*\"', IdentifierSegment, type=\"naked_identifier\"\n    ),\n    ParameterNameSegment=RegexParser(\n",
        "QUIET", None, "R15e: a library entry no grammar refers to never produces a segment",
    ),
    # the same breakage as seeded C15-7 in each of those spellings
    Variant(
        "r15e-cp02-keyword-types-also-parameters", PKG + "CP02.py",
        _CP02_CRAWL,
        "    crawl_behaviour = SegmentSeekerCrawler(\n        types={\"naked_identifier\", \"properties_naked_identifier\", \"parameter\"}\n    )\n",
        "R15e", "type=parameter", "crawl set passed by keyword is still read",
    ),
    Variant(
        "r15e-cp02-class-attribute-types-also-parameters", PKG + "CP02.py",
        _CP02_CRAWL,
        "    _crawled_types = {\"naked_identifier\", \"properties_naked_identifier\", \"parameter\"}\n    crawl_behaviour = SegmentSeekerCrawler(_crawled_types)\n",
        "R15e", "type=parameter", "crawl set bound in the class body is still read",
    ),
    Variant(
        "r15e-cp05-set-of-list-also-parameters", CP05,
        "    crawl_behaviour = SegmentSeekerCrawler(\n        {\n            \"data_type_identifier\",\n",
        "    crawl_behaviour = SegmentSeekerCrawler(\n        set([\"parameter\"]) | {\n            \"data_type_identifier\",\n",
        "R15e", "type=parameter", "a crawl set built by set([...]) / union is still read",
    ),
    Variant(
        "r15e-ansi-referenced-quoted-name-parser", "src/sqlfluff/dialects/dialect_ansi.py",
        "    SingleIdentifierGrammar=OneOf(\n        Ref(\"NakedIdentifierSegment\"),\n",
        "    DelimitedNameSegment=RegexParser(\n        r'\"[^\"]*\"', IdentifierSegment, type=\"naked_identifier\"\n    ),\n    SingleIdentifierGrammar=OneOf(\n        Ref(\"NakedIdentifierSegment\"),\n        Ref(\"DelimitedNameSegment\"),\n",
        "R15e", "type=naked_identifier", "the same parser, referred to by the identifier grammar, is reported",
    ),
    Variant(
        "cp05-skip-list-loses-quoted-literal", "src/sqlfluff/rules/capitalisation/CP05.py",
        "\"symbol\", \"identifier\", \"quoted_literal\", \"comment\"",
        "\"symbol\", \"identifier\", \"quoted_identifier\", \"comment\"",
        "R15c", "CP05", "seeded C15-2: teradata DATE FORMAT 'yyyy-mm-dd' is upper-cased",
    ),
    Variant(
        "cp05-skip-list-loses-comment", "src/sqlfluff/rules/capitalisation/CP05.py",
        "\"symbol\", \"identifier\", \"quoted_literal\", \"comment\"",
        "\"symbol\", \"identifier\", \"quoted_literal\"",
        "R15c", "CP05", "the defect repaired by 172388f: comments inside a data type were re-cased",
    ),
    Variant(
        "upper-branch-also-strips", CP01,
        "                fixed_raw = fixed_raw.upper()\n",
        "                fixed_raw = fixed_raw.upper().strip()\n",
        "R15a", "concrete_policy == 'upper'",
    ),
    Variant(
        "capitalise-branch-prepends-literal", CP01,
        "                fixed_raw = fixed_raw.capitalize()\n",
        "                fixed_raw = \" \" + fixed_raw.capitalize()\n",
        "R15a", "concrete_policy == 'capitalise'",
    ),
    Variant(
        "pascal-replacement-drops-tail-group", CP01,
        "lambda match: match.group(1) + match.group(2).upper() + match.group(3),",
        "lambda match: match.group(1) + match.group(2).upper(),",
        "R15a", "concrete_policy == 'pascal'",
    ),
    Variant(
        "camel-replacement-reorders-groups", CP01,
        "lambda match: match.group(1) + match.group(2).lower() + match.group(3),",
        "lambda match: match.group(2).lower() + match.group(1) + match.group(3),",
        "R15a", "concrete_policy == 'camel'",
    ),
    Variant(
        "pascal-pattern-consumes-text-outside-groups", CP01,
        '                "([^a-zA-Z0-9]+|^)([a-zA-Z0-9])([a-zA-Z0-9]*)",\n                lambda match: match.group(1) + match.group(2).upper()',
        '                "([^a-zA-Z0-9]+|^)([a-zA-Z0-9])([a-zA-Z0-9]*)_?",\n                lambda match: match.group(1) + match.group(2).upper()',
        "R15a", "concrete_policy == 'pascal'",
    ),
    Variant(
        "snake-allcaps-branch-collapses-underscores", CP01,
        "                fixed_raw = segment.raw.lower()\n",
        "                fixed_raw = segment.raw.lower().replace(\"__\", \"_\")\n",
        "R15a", "statement #2", "a second non-homomorphic statement in the snake branch is not covered by the listed finding",
    ),
    Variant(
        "builder-appends-a-segment", CP01,
        "        return LintFix.replace(segment, [segment.edit(fixed_raw)])\n",
        "        return LintFix.replace(segment, [segment.edit(fixed_raw), segment])\n",
        "R15a", "Rule_CP01._get_fix",
    ),
    Variant(
        "builder-creates-instead-of-replacing", CP01,
        "        return LintFix.replace(segment, [segment.edit(fixed_raw)])\n",
        "        return LintFix.create_after(segment, [segment.edit(fixed_raw)])\n",
        "R15a", "Rule_CP01._get_fix",
    ),
    Variant(
        "cp03-override-rewrites-text", PKG + "CP03.py",
        "        return super()._get_fix(segment, fixed_raw)\n",
        "        return super()._get_fix(segment, fixed_raw.replace(\" \", \"\"))\n",
        "R15a", "Rule_CP03._get_fix",
    ),
    Variant(
        "fix-anchored-on-other-segment", CP01,
        "                fixes=[self._get_fix(segment, fixed_raw)],\n                memory=memory,",
        "                fixes=[self._get_fix(context.segment, fixed_raw)],\n                memory=memory,",
        "R15a", "anchor/text agreement: self._get_fix(context.segment",
    ),
    Variant(
        "fix-text-from-other-segment", CP01,
        "        fixed_raw = segment.raw\n        # We need to change the segment",
        "        fixed_raw = context.segment.raw\n        # We need to change the segment",
        "R15a", "anchor/text agreement",
    ),
    Variant(
        "native-path-takes-python-callback", CP01,
        "            context, sqlfluffrs.cp01_violations, policy\n",
        "            context, self._python_violations, policy\n",
        "R15a", "_eval_rust_capitalisation",
    ),
    Variant(
        "cp02-deletes-templated-identifier", PKG + "CP02.py",
        "        if context.segment.is_templated:\n            return [LintResult(memory=context.memory)]\n",
        "        if context.segment.is_templated:\n            return [LintResult(context.segment, [LintFix.delete(context.segment)], memory=context.memory)]\n",
        "R15a", "Rule_CP02._eval",
    ),
    # the same breakages written in the refactored spellings the QUIET variants above accept
    Variant(
        "pascal-local-pattern-consumes-text-outside-groups", CP01,
        "            fixed_raw = regex.sub(\n                " + _WORD_RX + ",\n                lambda match: match.group(1) + match.group(2).upper() + match.group(3),\n",
        "            word = " + _WORD_RX[:-1] + "_?\"\n            fixed_raw = regex.sub(\n                word,\n                lambda match: match.group(1) + match.group(2).upper() + match.group(3),\n",
        "R15a", "concrete_policy == 'pascal'", "pattern read through a local is still judged",
    ),
    Variant(
        "pascal-compiled-pattern-consumes-text-outside-groups", CP01,
        "            fixed_raw = regex.sub(\n                " + _WORD_RX + ",\n                lambda match: match.group(1) + match.group(2).upper() + match.group(3),\n",
        "            word = regex.compile(" + _WORD_RX[:-1] + "_?\")\n            fixed_raw = word.sub(\n                lambda match: match.group(1) + match.group(2).upper() + match.group(3),\n",
        "R15a", "concrete_policy == 'pascal'", "compiled pattern in a local is still judged",
    ),
    Variant(
        "camel-nested-def-reorders-groups", CP01,
        "            fixed_raw = regex.sub(\n                " + _WORD_RX + ",\n                lambda match: match.group(1) + match.group(2).lower() + match.group(3),\n",
        "            def lower_first(word):\n                return word.group(2).lower() + word.group(1) + word.group(3)\n\n            fixed_raw = regex.sub(\n                " + _WORD_RX + ",\n                lower_first,\n",
        "R15a", "concrete_policy == 'camel'", "named replacement function is still judged",
    ),
    Variant(
        "builder-local-list-gets-a-second-segment", CP01,
        "        return LintFix.replace(segment, [segment.edit(fixed_raw)])\n",
        "        edits = [segment.edit(fixed_raw)]\n        edits.append(segment)\n        return LintFix.replace(segment, edits)\n",
        "R15a", "Rule_CP01._get_fix", "a list bound to a local is only accepted when nothing else touches it",
    ),
    Variant(
        "builder-edits-another-segment-through-local", CP01,
        "        return LintFix.replace(segment, [segment.edit(fixed_raw)])\n",
        "        edited = segment.segments[0].edit(fixed_raw)\n        return LintFix.replace(segment, [edited])\n",
        "R15a", "Rule_CP01._get_fix",
    ),
    Variant(
        "anchor-local-holds-another-segment", CP01,
        "            return LintResult(\n                anchor=segment,\n                fixes=[self._get_fix(segment, fixed_raw)],\n                memory=memory,",
        "            anchor = context.segment\n            return LintResult(\n                anchor=anchor,\n                fixes=[self._get_fix(anchor, fixed_raw)],\n                memory=memory,",
        "R15a", "anchor/text agreement",
    ),
    Variant(
        "fix-local-not-built-by-builder", CP01,
        "            return LintResult(\n                anchor=segment,\n                fixes=[self._get_fix(segment, fixed_raw)],\n                memory=memory,",
        "            fix = LintFix(\"replace\", segment, [segment.edit(fixed_raw), segment])\n            return LintResult(\n                anchor=segment,\n                fixes=[fix],\n                memory=memory,",
        "R15a", "_handle_segment",
    ),
    Variant(
        "cp05-boolean-skip-local-loses-comment", CP05,
        _CP05_SKIP,
        "                skip = seg.is_type(\"symbol\", \"identifier\", \"quoted_literal\") or not seg.is_type(\"raw\")\n                if skip:\n                    continue\n",
        "R15c", "CP05", "the test behind a boolean local is still judged",
    ),
    Variant(
        "cp05-boolean-skip-local-tests-another-segment", CP05,
        _CP05_SKIP,
        "                skip = context.segment.is_type(\n                    \"symbol\", \"identifier\", \"quoted_literal\", \"comment\"\n                ) or not seg.is_type(\"raw\")\n                if skip:\n                    continue\n",
        "R15c", "CP05",
    ),
    Variant(
        "cp05-skip-tuple-loses-quoted-literal", CP05,
        "            for seg in context.segment.segments:\n                # We don't want to edit symbols, quoted things, identifiers\n                # or comments if they appear.\n                if seg.is_type(\n                    \"symbol\", \"identifier\", \"quoted_literal\", \"comment\"\n                ) or not seg.is_type(\"raw\"):\n",
        "            untouched = (\"symbol\", \"identifier\", \"comment\")\n            for seg in context.segment.segments:\n                if seg.is_type(*untouched) or not seg.is_type(\"raw\"):\n",
        "R15c", "CP05",
    ),
    Variant(
        "native-loop-body-unpacks-python-result", CP01,
        "        for leaf_idx, fixed_raw in violations:\n            segment = raw_segments[leaf_idx]\n",
        "        for found in self._python_violations(rs_tree, policy):\n            leaf_idx, fixed_raw = found\n            segment = raw_segments[leaf_idx]\n",
        "R15a", "_eval_rust_capitalisation",
    ),
    Variant(
        "pascal-fstring-replacement-inserts-literal", CP01,
        "                lambda match: match.group(1) + match.group(2).upper() + match.group(3),\n",
        "                lambda m: f\"{m[1]} {m[2].upper()}{m[3]}\",\n",
        "R15a", "concrete_policy == 'pascal'", "f-string replacement is still judged term by term",
    ),
    Variant(
        "pascal-fstring-replacement-pads-a-group", CP01,
        "                lambda match: match.group(1) + match.group(2).upper() + match.group(3),\n",
        "                lambda m: f\"{m[1]}{m[2].upper():>2}{m[3]}\",\n",
        "R15a", "concrete_policy == 'pascal'", "a format spec on a field is not a case map",
    ),
    Variant(
        "native-comprehension-over-python-result", CP01,
        "        results: list[LintResult] = []\n        for leaf_idx, fixed_raw in violations:\n            segment = raw_segments[leaf_idx]\n            results.append(\n                LintResult(\n                    anchor=segment,\n                    fixes=[self._get_fix(segment, fixed_raw)],\n                    description=f\"{self._description_elem} must be {policy_text}\",\n                )\n            )\n        return results\n",
        "        return [\n            LintResult(\n                anchor=raw_segments[leaf_idx],\n                fixes=[self._get_fix(raw_segments[leaf_idx], fixed_raw)],\n                description=f\"{self._description_elem} must be {policy_text}\",\n            )\n            for leaf_idx, fixed_raw in self._python_violations(rs_tree, policy)\n        ]\n",
        "R15a", "_eval_rust_capitalisation",
    ),
]
